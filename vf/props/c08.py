"""C08 - encrypted input is rejected as encrypted (before any content), plain input never is.

The *detection predicates* are inside (which record id, which flag bit, which coder-id prefix,
which stream names, which manifest spelling, which decrypt result) and the *ordering* in every
wrapper (nothing yielded before the error).  Cryptography, pypdf and real OLE/ZIP parsing are
not: containers are handed over by stand-ins that return symbolic data.

 K1   XLS FILEPASS walk: real is_xls_encrypted on a stream built from a symbolic record list
 K1b  the same loop on raw symbolic bytes against a declarative reachability reference
 K2a  DOC FibBase.fEncrypted through read_doc (symbolic wIdent / flag bytes)
 K2b  ZIP general-purpose flag bit 0 through read_archive (fake ZipInfo, symbolic flag_bits,
      is_dir, compress_type; read() behaves like zipfile.ZipFile.open)
 K2c  7z needs_password on folders with symbolic coder-id bytes
 K2d  7z end to end (harness 7z writer): AES coder in the main folder and/or the encoded header
 K3   ODF manifest predicate on a grammar of plain / encrypted manifests with symbolic strings
 K4   ordering in the ten detector-guarded extractors (direct / read_file / CLI)
 K4p  PDF: is_encrypted and decrypt('') result symbolic
 K4e  EPUB: encryption.xml / rights.xml presence symbolic, content of encryption.xml by choice
 K5   OLE stream-name predicates with ole.exists symbolic
"""
import contextlib
import io
import os
import struct
import zlib

import z3

from vf.core import Kernel
from vf import symrun as S

# Reading of "DRM-protected EPUB": IDPF / Adobe *font obfuscation* entries in encryption.xml do
# not protect the publication's content (EPUB OCF 3.x "Font Obfuscation": not encryption, every
# reading system can undo it), so such an EPUB is a plain input.  Set to False to drop that demand.
EPUB_FONT_OBFUSCATION_IS_PLAIN = True

FIXTURES = "/repo/sharepoint2text/tests/resources"


def _exc():
    from sharepoint2text.parsing import exceptions
    return exceptions


def _is_sym(x):
    return isinstance(x, (S.SymBool, S.SymInt, S.SymBV))


def _or(xs):
    xs = list(xs)
    out = False
    for x in xs:
        if x is True:
            return True
        if x is False:
            continue
        out = x if out is False else (out | x)
    return out


def _and(xs):
    out = True
    for x in xs:
        if x is False:
            return False
        if x is True:
            continue
        out = x if out is True else (out & x)
    return out


def _not(x):
    return (not x) if isinstance(x, bool) else ~x


def _b(x):
    """normalise python truthy ints to bool, keep proxies"""
    return x if _is_sym(x) else bool(x)


def _expect(ctx, got, expected, label, **info):
    """got: python bool observed on this path; expected: python bool or SymBool"""
    expected = _b(expected)
    if isinstance(expected, bool):
        ctx.require(got == expected, label, got=got, **info)
    else:
        ctx.require(expected if got else ~expected, label, got=got, **info)


def _implies(ctx, premise, fact, label, **info):
    """premise (bool or SymBool) => fact (python bool observed on this path)"""
    premise = _b(premise)
    if fact:
        ctx.require(True, label)
        return
    if isinstance(premise, bool):
        ctx.require(not premise, label, **info)
    else:
        ctx.require(~premise, label, **info)


# =======================================================================================
# OLE stand-in (K1, K1b, K5, K2a)
# =======================================================================================

class _Stream:
    def __init__(self, data):
        self._d = data

    def read(self, *a):
        return self._d


class FakeOle:
    """what olefile.OleFileIO hands over: a set of stream names and their bytes"""

    def __init__(self, exists, streams=None, log=None):
        self._exists = exists          # name -> bool / SymBool
        self._streams = streams or {}
        self.log = log if log is not None else []

    def exists(self, name):
        self.log.append(("exists", name))
        return self._exists.get(name, False)

    def openstream(self, name):
        self.log.append(("open", name))
        return _Stream(self._streams[name])

    def close(self):
        pass

    def __enter__(self):
        return self

    def __exit__(self, *a):
        return False


class FakeOleMod:
    """the name ``olefile`` as seen from the module under test"""

    def __init__(self, is_ole, ole):
        self._is_ole, self._ole = is_ole, ole

    def isOleFile(self, f):
        return self._is_ole

    def OleFileIO(self, f, *a, **k):
        return self._ole


# =======================================================================================
# K1 / K1b  XLS FILEPASS
# =======================================================================================

FILEPASS = 0x2F      # [MS-XLS] 2.4.117 FilePass, record type 47


def _enc_mod():
    import sharepoint2text.parsing.extractors.util.encryption as enc
    return enc


def _run_xls_detector(ctx, stream, is_ole, has_workbook, has_book):
    enc = _enc_mod()
    ole = FakeOle({"Workbook": has_workbook, "Book": has_book},
                  {"Workbook": stream, "Book": stream})
    with ctx.stub(enc, olefile=FakeOleMod(is_ole, ole)), ctx.shadow(enc, int=S.IntShadow):
        try:
            r = enc.is_xls_encrypted(io.BytesIO(b"\xd0\xcf\x11\xe0 stand-in"))
        except Exception as e:
            ctx.fail("detector-raised", exc=type(e).__name__, msg=str(e)[:100])
    ctx.require(r is True or r is False, "detector-result-not-bool", got=repr(r))
    return r


def k1_records(ctx):
    """stream = rec_0 .. rec_{n-1} junk;  rec = id(u16 LE) len(u16 LE) payload[len]
    True <=> the container is OLE, has a Workbook/Book stream and some record id is 0x002F;
    payload bytes never count, 0..3 trailing bytes (less than a header) never count"""
    N, LMAX = ctx.params["N"], ctx.params["len_max"]
    n = ctx.params["n"] if "n" in ctx.params else ctx.choice("n_records", N + 1)
    if n <= 1:
        is_ole = ctx.fresh_bool("is_ole")
        has_wb = ctx.fresh_bool("has_Workbook")
        has_bk = ctx.fresh_bool("has_Book")
    else:       # container facts are independent of the walk: symbolic for the short lists only
        is_ole, has_wb, has_bk = True, ctx.flag("stream_is_Workbook"), True
    stream = b"" if ctx.concrete else S.SymBytes([])
    ids = []
    for i in range(n):
        rid = ctx.fresh_bytes(f"id{i}", 2)
        ln = ctx.choice(f"len{i}", LMAX + 1)
        payload = ctx.fresh_bytes(f"payload{i}", ln)
        ids.append(rid)
        stream = stream + rid + bytes([ln, 0]) + payload
    junk = ctx.fresh_bytes("junk", ctx.choice("junk_len", 4))
    stream = stream + junk
    got = _run_xls_detector(ctx, stream, is_ole, has_wb, has_bk)
    # reference, from the property text: FILEPASS at any record position
    if ctx.perturb == "id_high_byte_ignored":
        some = _or([(r[0] == FILEPASS) for r in ids])
    else:
        some = _or([_and([r[0] == (FILEPASS & 0xFF), r[1] == (FILEPASS >> 8)]) for r in ids])
    expected = _and([is_ole, _or([has_wb, has_bk]), some])
    _expect(ctx, got, expected, "filepass-verdict-differs-from-record-list", n=n)


def _k1_parts(tier):
    N = 4 if tier == "quick" else 5
    return [{"n": n} for n in range(N + 1)]


def k1_raw(ctx):
    """every byte string of length L: reference = declarative reachability over offsets"""
    L = ctx.params["L"]
    s = ctx.fresh_bytes("s", L)
    got = _run_xls_detector(ctx, s, True, True, False)
    sym = not ctx.concrete
    el = (lambda i: s.e[i].z) if sym else (lambda i: s[i])

    def u16(o):
        if sym:
            return z3.Concat(el(o + 1), el(o))
        return el(o) | (el(o + 1) << 8)
    Or = z3.Or if sym else (lambda *a: any(a))
    And = z3.And if sym else (lambda *a: all(a))
    false = z3.BoolVal(False) if sym else False
    true = z3.BoolVal(True) if sym else True
    reach = [false] * (L + 1)
    if L >= 0:
        reach[0] = true
    hits = []
    skip = 3 if ctx.perturb == "len_off_by_one" else 4
    for o in range(L + 1):
        if o + 4 > L:
            continue       # fewer than four bytes left: not a record header
        hits.append(And(reach[o], u16(o) == FILEPASS))
        for o2 in range(o + skip, L + 1):
            step = And(reach[o], u16(o) != FILEPASS, u16(o + 2) == (o2 - o - skip))
            reach[o2] = Or(reach[o2], step)
    expected = Or(*hits) if hits else false
    if sym:
        ctx.require(expected if got else z3.Not(expected), "filepass-verdict-differs-from-reachability", got=got)
    else:
        ctx.require(bool(expected) == got, "filepass-verdict-differs-from-reachability", got=got)


# =======================================================================================
# K5  OLE stream-name predicates
# =======================================================================================

OOXML_NAMES = ("EncryptionInfo", "EncryptedPackage", "DataSpaces")          # [MS-OFFCRYPTO] 2.3
PPT_NAMES = OOXML_NAMES + ("EncryptedSummary", "EncryptedSummaryInformation")  # [MS-PPT] 2.1.? + property text
OTHER_NAMES = ("WordDocument", "Workbook", "PowerPoint Document", "\x05SummaryInformation", "Pictures")


def k5_ole_names(ctx):
    enc = _enc_mod()
    which = ctx.params["detector"]
    is_ole = ctx.fresh_bool("is_ole")
    ex = {n: ctx.fresh_bool("exists_" + n) for n in PPT_NAMES}
    for n in OTHER_NAMES:
        ex[n] = ctx.fresh_bool("exists_" + n.strip("\x05").replace(" ", "_"))
    ole = FakeOle(ex)
    fn = getattr(enc, which)
    with ctx.stub(enc, olefile=FakeOleMod(is_ole, ole)):
        try:
            got = fn(io.BytesIO(b"stand-in"))
        except Exception as e:
            ctx.fail("detector-raised", exc=type(e).__name__)
    got = bool(got)
    names = OOXML_NAMES if which == "is_ooxml_encrypted" else PPT_NAMES
    if ctx.perturb == "summary_streams_ignored":
        names = OOXML_NAMES
    if ctx.perturb == "any_stream_counts":
        names = names + OTHER_NAMES[:1]
    expected = _and([is_ole, _or([ex[n] for n in names])])
    _expect(ctx, got, expected, "ole-stream-verdict-differs", detector=which)
    asked = {n for op, n in ole.log if op == "exists"}
    ctx.require(asked <= set(PPT_NAMES), "detector-asks-for-unrelated-stream", asked=sorted(asked))


# =======================================================================================
# K2a  DOC FibBase.fEncrypted
# =======================================================================================

class FibStream(S.SymBytes):
    """WordDocument stream: python ints with a few symbolic bytes; all-concrete slices are bytes"""

    def __getitem__(self, i):
        r = S.SymBytes.__getitem__(self, i)
        if isinstance(r, S.SymBytes) and all(isinstance(x, int) for x in r.e):
            return bytes(r.e)
        return r


class SymStruct:
    """struct.Struct stand-in for little-endian unsigned formats on symbolic byte lists"""

    def __init__(self, fmt):
        self._real = struct.Struct(fmt)
        self.size = self._real.size
        assert fmt in ("<H", "<I")

    def unpack_from(self, buf, offset=0):
        if isinstance(buf, (bytes, bytearray)):
            return self._real.unpack_from(buf, offset)
        return (S._from_bytes(buf.e[offset:offset + self.size], "little"),)

    def unpack(self, buf):
        return self.unpack_from(buf, 0)


def k2a_doc_fib(ctx):
    """[MS-DOC] 2.5.2 FibBase: wIdent (offset 0) = 0xA5EC; bit field at offset 0x0A, bit 8 =
    fEncrypted, i.e. bit 0 of the byte at offset 0x0B."""
    import sharepoint2text.parsing.extractors.ms_legacy.doc_extractor as dm
    E = _exc()
    size = 0x200 + ctx.choice("extra_len", 2) * 0x40
    ident = ctx.fresh_bytes("wIdent", 2)
    flags = ctx.fresh_bytes("fib_flags", 2)
    if ctx.concrete:
        wd = bytearray(size)
        wd[0:2] = ident
        wd[0x0A:0x0C] = flags
        wd = bytes(wd)
    else:
        el = [0] * size
        el[0:2] = ident.e
        el[0x0A:0x0C] = flags.e
        wd = FibStream(el)
    ole = FakeOle({"WordDocument": True}, {"WordDocument": wd})

    class StubReader(dm._DocReader):
        @staticmethod
        def _find_text_start_and_enc(word_doc):
            return 0x200, False

        @staticmethod
        def _extract_images_from_word_document(word_doc):
            return []

        @staticmethod
        def _extract_png_images_from_bytes(data):
            return []

        def get_metadata(self):
            return dm.DocMetadata()

    out, raised = [], None
    with ctx.stub(dm, olefile=FakeOleMod(True, ole), _DocReader=StubReader), \
            ctx.shadow(dm, _FIB_MAGIC=SymStruct("<H"), _UINT16=SymStruct("<H"), _UINT32=SymStruct("<I"),
                       hex=lambda x: "0x????"):
        try:
            for r in dm.read_doc(io.BytesIO(b"stand-in"), "x.doc"):
                out.append(r)
        except Exception as e:
            raised = e
    is_enc_err = isinstance(raised, E.ExtractionFileEncryptedError)
    bit = 1 if ctx.perturb == "fib_bit9" else 0
    if ctx.concrete:
        f_encrypted = bool((flags[1] >> bit) & 1)
        word97 = (ident[0] == 0xEC and ident[1] == 0xA5)
    else:
        f_encrypted = ((flags.e[1] >> bit) & 1) == 1
        word97 = (ident.e[0] == 0xEC) & (ident.e[1] == 0xA5)
    _implies(ctx, _and([word97, f_encrypted]), is_enc_err, "encrypted-doc-not-rejected-as-encrypted",
             raised=repr(raised)[:100])
    _implies(ctx, _not(f_encrypted), not is_enc_err, "plain-doc-rejected-as-encrypted")
    if is_enc_err:
        ctx.require(not out, "content-before-encrypted-error", n=len(out))
    _implies(ctx, _and([word97, _not(f_encrypted)]), raised is None and len(out) == 1,
             "plain-doc-not-extracted", raised=repr(raised)[:100])


# =======================================================================================
# K2b  ZIP flag bit 0
# =======================================================================================

ZIP_NAMES = ("a.txt", "b.xyz", "n.zip", "d/e.txt")
ZIP_SUPPORTED_METHODS = (0, 8, 12, 14)      # zipfile: stored, deflated, bzip2, lzma


class FakeZipInfo:
    def __init__(self, filename, flag_bits, isdir, compress_type):
        self.filename = filename
        self.flag_bits = flag_bits
        self._isdir = isdir
        self.compress_type = compress_type
        self.file_size = 5
        self.compress_size = 5

    def is_dir(self):
        return self._isdir


class FakeZip:
    """zipfile.ZipFile stand-in; read() raises what ZipFile.open raises (CPython 3.12 zipfile:
    flag bit 5 / bit 6 -> NotImplementedError, bit 0 without password -> RuntimeError,
    unsupported compression method -> NotImplementedError)"""

    def __init__(self, infos, log):
        self._infos, self.log = infos, log

    def __call__(self, file_like, mode="r", *a, **k):
        return self

    def infolist(self):
        return self._infos

    def read(self, info, pwd=None):
        self.log.append(info.filename)
        fb, ct = info.flag_bits, info.compress_type
        if fb & 0x20:
            raise NotImplementedError("compressed patched data (flag bit 5)")
        if fb & 0x40:
            raise NotImplementedError("strong encryption (flag bit 6)")
        if fb & 0x1:
            raise RuntimeError("File %r is encrypted, password required for extraction" % info.filename)
        if not _or([ct == m for m in ZIP_SUPPORTED_METHODS]):
            raise NotImplementedError("That compression method is not supported")
        return b"hello"

    def __enter__(self):
        return self

    def __exit__(self, *a):
        return False


def _real_zip(members):
    """members [(filename, flag_bits, compress_type)] -> bytes of a ZIP whose central and local
    headers carry exactly these flag words / compression methods (APPNOTE 4.3.7, 4.3.12)"""
    import warnings
    import zipfile
    buf = io.BytesIO()
    with warnings.catch_warnings():
        warnings.simplefilter("ignore")
        with zipfile.ZipFile(buf, "w") as z:
            for name, fb, ct in members:
                zi = zipfile.ZipInfo(name)
                zi.compress_type = ct if ct in ZIP_SUPPORTED_METHODS else zipfile.ZIP_STORED
                z.writestr(zi, b"" if name.endswith("/") else b"hello")
            start = z.start_dir
    data = bytearray(buf.getvalue())
    pos = start
    for name, fb, ct in members:
        assert data[pos:pos + 4] == b"PK\x01\x02"
        nlen, elen, clen = struct.unpack("<HHH", data[pos + 28:pos + 34])
        local = struct.unpack("<I", data[pos + 42:pos + 46])[0]
        assert data[local:local + 4] == b"PK\x03\x04"
        data[pos + 8:pos + 10] = struct.pack("<H", fb)
        data[local + 6:local + 8] = struct.pack("<H", fb)
        if ct not in ZIP_SUPPORTED_METHODS:
            data[pos + 10:pos + 12] = struct.pack("<H", ct)
            data[local + 8:local + 10] = struct.pack("<H", ct)
        pos += 46 + nlen + elen + clen
    return bytes(data)


def k2b_zip_flag(ctx):
    """APPNOTE 4.4.4: general purpose bit 0 set = the file is encrypted (bit 6: strong
    encryption, implies bit 0).  Archive with a non-directory member having bit 0 => encrypted
    error, no member read, nothing yielded.  No member with bit 0/6 => never that error.
    Replay builds the real ZIP bytes and runs read_archive with the real zipfile."""
    import zipfile as real_zipfile
    from sharepoint2text.parsing.extractors import archive_extractor as ae
    E = _exc()
    N = ctx.params["N"]
    n = ctx.choice("n_members", N + 1)
    infos, rows, members = [], [], []
    for i in range(n):
        fb = ctx.fresh_bv(f"flag_bits{i}", 16)
        d = ctx.fresh_bool(f"is_dir{i}")
        ct = ctx.fresh_int(f"compress_type{i}", 0, 99)
        nm = ZIP_NAMES[ctx.choice(f"name{i}", len(ZIP_NAMES))]
        infos.append(FakeZipInfo(nm, fb, d, ct))
        rows.append((fb, d))
        if ctx.concrete:
            members.append((f"dir{i}/" if d else nm, fb, ct))
    log = []
    out, raised = [], None
    if ctx.concrete:
        real_read = real_zipfile.ZipFile.read

        def logging_read(self, name, pwd=None):
            log.append(getattr(name, "filename", name))
            return real_read(self, name, pwd)
        cm = ctx.stub(real_zipfile.ZipFile, read=logging_read)
        data = _real_zip(members)
    else:
        class ZipMod:
            ZipFile = FakeZip(infos, log)
            BadZipFile = real_zipfile.BadZipFile
        cm = ctx.stub(ae, zipfile=ZipMod)
        data = b"PK\x03\x04" + b"\0" * 60
    with cm:
        try:
            for r in ae.read_archive(io.BytesIO(data), "x.zip"):
                out.append(r)
        except Exception as e:
            raised = e
    is_enc_err = isinstance(raised, E.ExtractionFileEncryptedError)
    mask = 0x2 if ctx.perturb == "flag_bit1" else 0x1
    encrypted = _or([_and([_not(d), (fb & mask) == mask]) for fb, d in rows])
    plain = _and([(fb & (mask | 0x40)) == 0 for fb, d in rows])
    _implies(ctx, encrypted, is_enc_err, "encrypted-zip-not-rejected-as-encrypted", raised=repr(raised)[:100])
    if is_enc_err:
        # decided on this path: which of the two situations are we in
        if not ctx.perturb:     # the twin must be refuted by its own perturbation, not by a known finding
            _implies(ctx, plain, False, "plain-zip-rejected-as-encrypted",
                     cause=repr(getattr(raised, "__cause__", None))[:80], yielded=len(out))
        _implies(ctx, encrypted, not log, "member-read-in-encrypted-zip", reads=list(log))
        _implies(ctx, encrypted, not out, "content-before-encrypted-error", n=len(out))


# =======================================================================================
# K2c / K2d  7z
# =======================================================================================

AES_PREFIX = (0x06, 0xF1, 0x07)      # 7-Zip Methods.txt: 06F107xx = 7zAES


def k2c_7z_coder(ctx):
    from sharepoint2text.parsing.extractors.util import sevenzip as sz
    nf = ctx.params["n_folders"]
    lens = ctx.params["id_lens"]
    folders, ids = [], []
    for f in range(nf):
        nc = ctx.choice(f"n_coders{f}", 3)
        coders = []
        for c in range(nc):
            ln = lens[ctx.choice(f"id_len{f}_{c}", len(lens))]
            cid = ctx.fresh_bytes(f"coder{f}_{c}", ln)
            coders.append((cid, None))
            ids.append(cid)
        folders.append(sz.Folder(coders=coders, unpack_sizes=[]))

    class Self:
        _folders = folders
    try:
        got = sz.SevenZipReader.needs_password(Self())
    except Exception as e:
        ctx.fail("needs_password-raised", exc=type(e).__name__)
    ctx.require(got is True or got is False, "needs_password-not-bool", got=repr(got))
    want = AES_PREFIX + ((0x01,) if ctx.perturb == "aes_exact_id" else ())

    def is_aes(cid):
        if len(cid) < len(want) or (ctx.perturb == "aes_exact_id" and len(cid) != len(want)):
            return False
        return _and([cid[i] == want[i] for i in range(len(want))])
    expected = _or([is_aes(c) for c in ids])
    _expect(ctx, got, expected, "needs_password-differs-from-coder-prefix")


def _num(n):
    assert 0 <= n < 0x80
    return bytes([n])


def _sz_folder(coders):
    out = _num(len(coders))
    for cid, props in coders:
        out += bytes([len(cid) | (0x20 if props is not None else 0)]) + cid
        if props is not None:
            out += _num(len(props)) + props
    for i in range(len(coders) - 1):
        out += _num(i + 1) + _num(i)
    return out


def _sz_streams(packpos, packsize, coders, unpack):
    s = b"\x06" + _num(packpos) + _num(1) + b"\x09" + _num(packsize) + b"\x00"
    s += b"\x07\x0b" + _num(1) + b"\x00" + _sz_folder(coders) + b"\x0c" + \
        b"".join(_num(unpack) for _ in coders) + b"\x00"
    return s


def write_7z(content, name, main, header):
    """7z writer (7zFormat.txt): signature header, packed streams, header; ``main`` = coder list
    of the single folder, ``header`` = None (plain header) or coder list of the EncodedHeader"""
    names = b"\x00" + name.encode("utf-16-le") + b"\x00\x00"
    hdr = b"\x01\x04" + _sz_streams(0, len(content), main, len(content)) + b"\x00"
    hdr += b"\x05" + _num(1) + b"\x11" + _num(len(names)) + names + b"\x00\x00"
    packed = content
    if header is None:
        end = hdr
    else:
        end = b"\x17" + _sz_streams(len(packed), len(hdr), header, len(hdr)) + b"\x00"
        packed += hdr
    sh = struct.pack("<QQI", len(packed), len(end), zlib.crc32(end) & 0xFFFFFFFF)
    return b"7z\xbc\xaf\x27\x1c\x00\x04" + struct.pack("<I", zlib.crc32(sh) & 0xFFFFFFFF) + sh + packed + end


def k2d_7z_end_to_end(ctx):
    """a 7z archive is encrypted when a 7zAES coder occurs in the folder of its files or in the
    folder of its (encoded) header (7z -mhe): rejected with the encrypted error, nothing
    yielded; without any AES coder never that error"""
    from sharepoint2text.parsing.extractors import archive_extractor as ae
    E = _exc()
    COPY = (b"\x00", None)
    sub = bytes([1 + ctx.choice("aes_sub_id", 2)])
    AES = (bytes(AES_PREFIX) + sub, b"\x00\x00")
    chains = [[COPY], [AES], [COPY, AES], [AES, COPY]]
    main = chains[ctx.choice("main_coders", len(chains))]
    hsel = ctx.choice("header", 4)
    header = [None, [COPY], [AES], [COPY, AES]][hsel]
    data = write_7z(b"hello seven zip", "a.txt", main, header)
    site = ctx.choice("site", 2)
    out, raised = [], None
    try:
        if site == 0:
            for r in ae.read_archive(io.BytesIO(data), "x.7z"):
                out.append(r)
        else:
            import sharepoint2text as s2t
            with ctx.stub(s2t, open=lambda *a, **k: io.BytesIO(data)):
                for r in s2t.read_file("x.7z", max_file_size=0):
                    out.append(r)
    except Exception as e:
        raised = e
    is_enc_err = isinstance(raised, E.ExtractionFileEncryptedError)
    aes_main = any(c is AES for c in main)
    aes_hdr = header is not None and any(c is AES for c in header)
    if ctx.perturb == "header_coder_ignored":
        aes_hdr = False
    if aes_main or aes_hdr:
        ctx.require(is_enc_err, "encrypted-7z-not-rejected-as-encrypted",
                    where="header" if aes_hdr else "files", raised=repr(raised)[:120])
        ctx.require(not out, "content-before-encrypted-error")
    else:
        ctx.require(not is_enc_err, "plain-7z-rejected-as-encrypted")
        ctx.require(raised is None and len(out) == 1, "plain-7z-not-extracted", raised=repr(raised)[:120])


# =======================================================================================
# K3  ODF manifest
# =======================================================================================

MANIFEST_NS = "urn:oasis:names:tc:opendocument:xmlns:manifest:1.0"


def _manifest_plain(name, mt):
    """ODF 1.2 part 3, 4.2/4.3: a manifest of an unencrypted package - file entries without an
    encryption-data child; full-path and media-type are free text"""
    return ('<?xml version="1.0" encoding="UTF-8"?>\n'
            '<manifest:manifest xmlns:manifest="' + MANIFEST_NS + '" manifest:version="1.2">\n'
            ' <manifest:file-entry manifest:full-path="/" manifest:version="1.2" '
            'manifest:media-type="application/vnd.oasis.opendocument.text"/>\n'
            ' <manifest:file-entry manifest:full-path="content.xml" manifest:media-type="text/xml"/>\n'
            ' <manifest:file-entry manifest:full-path="') + name + '" manifest:media-type="' + mt + \
        '"/>\n</manifest:manifest>\n'


def _manifest_encrypted(p):
    """ODF 1.2 part 3, 4.4: an encrypted file entry carries an <encryption-data> child (namespace
    prefix ``p`` is the author's choice)"""
    return ('<?xml version="1.0" encoding="UTF-8"?>\n<') + p + ':manifest xmlns:' + p + '="' + MANIFEST_NS + \
        '">\n <' + p + ':file-entry ' + p + ':full-path="/" ' + p + \
        ':media-type="application/vnd.oasis.opendocument.text"/>\n <' + p + ':file-entry ' + p + \
        ':full-path="content.xml" ' + p + ':media-type="text/xml" ' + p + ':size="321">\n  <' + p + \
        ':encryption-data ' + p + ':checksum-type="urn:oasis:names:tc:opendocument:xmlns:manifest:1.0#sha256-1k" ' + \
        p + ':checksum="AAAA">\n   <' + p + ':start-key-generation ' + p + ':key-size="32"/>\n  </' + p + \
        ':encryption-data>\n </' + p + ':file-entry>\n</' + p + ':manifest>\n'


ODT_CONTENT = ('<?xml version="1.0" encoding="UTF-8"?>'
               '<office:document-content xmlns:office="urn:oasis:names:tc:opendocument:xmlns:office:1.0" '
               'xmlns:text="urn:oasis:names:tc:opendocument:xmlns:text:1.0"><office:body><office:text>'
               '<text:p>hello odf</text:p></office:text></office:body></office:document-content>')


def _real_odt(manifest, member):
    import zipfile
    buf = io.BytesIO()
    with zipfile.ZipFile(buf, "w") as z:
        z.writestr("mimetype", "application/vnd.oasis.opendocument.text")
        z.writestr("content.xml", ODT_CONTENT)
        z.writestr("META-INF/manifest.xml", manifest)
        if member and not member.endswith("/") and member not in ("content.xml", "mimetype"):
            z.writestr(member, b"\x89PNG\r\n\x1a\n")
    return buf.getvalue()


class _Decodable:
    def __init__(self, text):
        self._t = text

    def decode(self, *a, **k):
        return self._t


def k3_odf_manifest(ctx):
    enc = _enc_mod()
    E = _exc()
    kind = ctx.params["kind"]
    if kind == "plain":
        name = ctx.fresh_chars("name", ctx.params["name_len"], 0x20, 0x7E)
        mt = ctx.fresh_chars("media_type", ctx.params["mt_len"], 0x20, 0x7E)
        for s_ in (name, mt):
            # attribute values: no markup characters (they would be written as entities)
            if ctx.concrete:
                ctx.assume(not any(ch in '<>&"' for ch in s_))
            elif len(s_):
                ctx.assume(z3.And(*[z3.And(c.z != 60, c.z != 62, c.z != 38, c.z != 34) for c in s_.c]))
        manifest = _manifest_plain(name, mt)
        expected = False
    else:
        p = ctx.fresh_chars("prefix", ctx.params["prefix_len"], 0x61, 0x7A)
        name = ""
        manifest = _manifest_encrypted(p)
        expected = True
    if ctx.perturb in ("plain_expected_encrypted", "encrypted_expected_plain"):
        expected = not expected
    if ctx.concrete:
        # replay through the public API on a real package
        data = _real_odt(str(manifest), str(name))
        got = enc.is_odf_encrypted(io.BytesIO(data))
        from sharepoint2text.parsing.extractors.open_office.odt_extractor import read_odt
        out, raised = [], None
        try:
            for r in read_odt(io.BytesIO(data), "x.odt"):
                out.append(r)
        except Exception as e:
            raised = e
        is_enc_err = isinstance(raised, E.ExtractionFileEncryptedError)
        if expected:
            ctx.require(bool(got), "encrypted-odf-not-detected")
            ctx.require(is_enc_err and not out, "encrypted-odf-not-rejected-by-read_odt", raised=repr(raised)[:100])
        else:
            ctx.require(not got, "plain-odf-detected-as-encrypted", manifest_member=str(name))
            ctx.require(not is_enc_err, "plain-odf-rejected-by-read_odt")
        return
    text = manifest if isinstance(manifest, S.CharStr) else S.CharStr(manifest)

    class Zf:
        def read(self, n):
            if n == "META-INF/manifest.xml":
                return _Decodable(text)
            raise KeyError(n)

        def __enter__(self):
            return self

        def __exit__(self, *a):
            return False

    class ZipMod:
        @staticmethod
        def is_zipfile(f):
            return True
    # the detector hands the manifest text to the XML parser (third party): the parser is
    # replaced by the tree it produces for this manifest grammar - element names resolved
    # against the namespace, attribute values carrying the symbolic strings
    from xml.etree import ElementTree as _ET
    import defusedxml.ElementTree as _DET

    def _parsed(_text):
        q = "{" + MANIFEST_NS + "}"
        root = _ET.Element(q + "manifest")
        e1 = _ET.SubElement(root, q + "file-entry")
        e1.attrib = {q + "full-path": "/", q + "media-type": "application/vnd.oasis.opendocument.text"}
        e2 = _ET.SubElement(root, q + "file-entry")
        e2.attrib = {q + "full-path": "content.xml", q + "media-type": "text/xml"}
        if kind == "plain":
            e3 = _ET.SubElement(root, q + "file-entry")
            e3.attrib = {q + "full-path": name, q + "media-type": mt}
        else:
            ed = _ET.SubElement(e2, q + "encryption-data")
            _ET.SubElement(ed, q + "start-key-generation")
        return root
    with ctx.shadow(enc, zipfile=ZipMod, open_zipfile=lambda f, **k: Zf()), ctx.shadow(_DET, fromstring=_parsed):
        try:
            got = enc.is_odf_encrypted(io.BytesIO(b"PK stand-in"))
        except Exception as e:
            ctx.fail("detector-raised", exc=type(e).__name__, msg=str(e)[:100])
    got = bool(got)
    if expected:
        ctx.require(got, "encrypted-odf-not-detected")
    else:
        ctx.require(not got, "plain-odf-detected-as-encrypted")


def _k3_parts(tier):
    if tier == "quick":
        nl = list(range(0, 25))
        ml = list(range(1, 25))
        pl = [1, 2, 3, 8]
    else:
        nl = list(range(0, 49))
        ml = list(range(1, 49))
        pl = list(range(1, 13))
    parts = [{"kind": "plain", "name_len": n, "mt_len": 0} for n in nl]
    parts += [{"kind": "plain", "name_len": 0, "mt_len": m} for m in ml]
    if tier != "quick":
        parts += [{"kind": "plain", "name_len": n, "mt_len": n} for n in (8, 15, 18, 24)]
    parts += [{"kind": "enc", "prefix_len": k} for k in pl]
    return parts


# =======================================================================================
# K4  ordering in the detector-guarded extractors
# =======================================================================================

DETECTORS = ("is_ooxml_encrypted", "is_odf_encrypted", "is_xls_encrypted", "is_ppt_encrypted")
K4_FIXTURE = {
    "docx": "modern_ms/headings.docx", "pptx": "modern_ms/pptx_table.pptx", "xlsx": "modern_ms/mwe.xlsx",
    "odt": "open_office/sample_document.odt", "odp": "open_office/sample_presentation.odp",
    "ods": "open_office/sample_spreadsheet.ods", "odg": "open_office/drawing.odg",
    "odf": "open_office/formular.odf", "xls": "legacy_ms/mwe.xls", "ppt": "legacy_ms/slide_with_notes.ppt",
}


def _guarded_extractors():
    """{file type: (module, function name, detector name)} discovered from the router registry:
    every registered extractor module that imports one of util.encryption's detectors"""
    import importlib
    from sharepoint2text.parsing import router
    out = {}
    for ft, (modname, fn) in router._EXTRACTOR_REGISTRY.items():
        mod = importlib.import_module(modname)
        dets = [d for d in DETECTORS if d in vars(mod)]
        if dets and (modname, fn) not in [(m.__name__, f) for m, f, _ in out.values()]:
            out[ft] = (mod, fn, dets[0])
    return out


def _fixture_bytes(ft):
    p = os.path.join(FIXTURES, K4_FIXTURE.get(ft, "missing"))
    try:
        with open(p, "rb") as f:
            return f.read(), True
    except OSError:
        return b"not a document at all", False


def _run_site(ctx, site, extractor, data, fname):
    """site 0 direct extractor, 1 read_file, 2 CLI -> (results, raised, cli)"""
    out, raised, cli = [], None, None
    if site == 0:
        try:
            for r in extractor(io.BytesIO(data), fname):
                out.append(r)
        except Exception as e:
            raised = e
    elif site == 1:
        import sharepoint2text as s2t
        with ctx.stub(s2t, open=lambda *a, **k: io.BytesIO(data)):
            try:
                for r in s2t.read_file(fname, max_file_size=0):
                    out.append(r)
            except Exception as e:
                raised = e
    else:
        import tempfile
        from sharepoint2text import cli as climod
        with tempfile.TemporaryDirectory() as td:
            p = os.path.join(td, fname)
            with open(p, "wb") as f:
                f.write(data)
            so, se = io.StringIO(), io.StringIO()
            with contextlib.redirect_stdout(so), contextlib.redirect_stderr(se):
                try:
                    code = climod.main([p])
                except Exception as e:
                    raised = e
                    code = None
            cli = (code, so.getvalue(), se.getvalue())
    return out, raised, cli


def k4_ordering(ctx):
    E = _exc()
    ft = ctx.params["ft"]
    mod, fn, det = _guarded_extractors()[ft]
    data, have = _fixture_bytes(ft)
    encrypted = ctx.fresh_bool("detector_says_encrypted")
    site = ctx.choice("site", 3)
    calls = []

    def detector(file_like):
        calls.append(1)
        return encrypted
    with ctx.stub(mod, **{det: detector}):
        out, raised, cli = _run_site(ctx, site, getattr(mod, fn), data, "x." + ft)
    ctx.require(bool(calls), "detector-not-consulted")
    # `encrypted` is decided on this path iff the detector was consulted
    enc_now = bool(encrypted)
    if ctx.perturb == "verdict_inverted":
        enc_now = not enc_now
    if site == 2:
        code, so, se = cli
        if enc_now:
            ctx.require(code not in (0, None) and so == "", "cli-output-for-encrypted-input", code=code, out=so[:60])
            ctx.require("encrypted" in se.lower() or "password" in se.lower(), "cli-error-does-not-say-encrypted",
                        err=se[:100])
        else:
            ctx.require(not ("encrypted" in se.lower() and "password-protected" in se.lower()),
                        "plain-input-rejected-as-encrypted", err=se[:100])
            if have:
                ctx.require(code == 0, "plain-fixture-not-extracted", err=se[:100])
        return
    is_enc_err = isinstance(raised, E.ExtractionFileEncryptedError)
    if enc_now:
        ctx.require(is_enc_err, "encrypted-input-not-rejected-as-encrypted", raised=repr(raised)[:100])
        ctx.require(not out, "content-before-encrypted-error", n=len(out))
    else:
        ctx.require(not is_enc_err, "plain-input-rejected-as-encrypted")
        if have:
            ctx.require(raised is None and len(out) >= 1, "plain-fixture-not-extracted", raised=repr(raised)[:100])


def _k4_parts(tier):
    return [{"ft": ft} for ft in sorted(_guarded_extractors())]


# ---- PDF ------------------------------------------------------------------------------

class FakePdfReader:
    def __init__(self, is_encrypted, result, raises, log):
        self.is_encrypted = is_encrypted
        self._result, self._raises, self.log = result, raises, log
        self.pages = []

    def decrypt(self, pwd):
        self.log.append(pwd)
        if self._raises:
            raise ValueError("cannot derive key")
        return self._result


def k4p_pdf(ctx):
    """pypdf: decrypt(password) returns PasswordType NOT_DECRYPTED=0 / USER_PASSWORD=1 /
    OWNER_PASSWORD=2.  A PDF needs a non-empty password iff it is encrypted and the empty
    password is neither its user nor its owner password."""
    import sharepoint2text.parsing.extractors.pdf.pdf_extractor as pm
    E = _exc()
    is_enc = ctx.fresh_bool("is_encrypted")
    result = ctx.fresh_int("decrypt_result", 0, 2)
    raises = ctx.flag("decrypt_raises")
    site = ctx.choice("site", 2)
    log = []
    reader = FakePdfReader(is_enc, result, raises, log)
    with ctx.stub(pm, _open_pdf_reader=lambda f: reader):
        out, raised, _ = _run_site(ctx, site, pm.read_pdf, b"%PDF-1.4 stand-in", "x.pdf")
    is_enc_err = isinstance(raised, E.ExtractionFileEncryptedError)
    ctx.require(all(p == "" for p in log), "decrypt-tried-with-non-empty-password", log=log)
    if raises:
        # the empty password could not even be tried: no demand on the error class, but nothing
        # may be yielded for an encrypted file and a plain file is never asked to decrypt
        _implies(ctx, _not(is_enc), not is_enc_err and not log, "plain-pdf-rejected-as-encrypted")
        return
    zero = 1 if ctx.perturb == "user_password_result_rejected" else 0
    needs_password = _and([is_enc, result == zero])
    _expect(ctx, is_enc_err, needs_password, "pdf-encrypted-verdict-differs")
    if is_enc_err:
        ctx.require(not out, "content-before-encrypted-error")
    else:
        ctx.require(raised is None and len(out) == 1, "openable-pdf-not-extracted", raised=repr(raised)[:100])


# ---- EPUB -----------------------------------------------------------------------------

XMLENC = "http://www.w3.org/2001/04/xmlenc#"
_ENC_HEAD = '<?xml version="1.0"?><encryption xmlns="urn:oasis:names:tc:opendocument:xmlns:container" ' \
            'xmlns:enc="' + XMLENC + '">'


def _enc_entry(alg, uri):
    return ('<enc:EncryptedData><enc:EncryptionMethod Algorithm="' + alg + '"/><enc:CipherData>'
            '<enc:CipherReference URI="' + uri + '"/></enc:CipherData></enc:EncryptedData>')


AES_ALG = XMLENC + "aes128-cbc"
IDPF_FONT = "http://www.idpf.org/2008/embedding"
ADOBE_FONT = "http://ns.adobe.com/pdf/enc#RC"
ENCXML = [
    ("empty", _ENC_HEAD + "</encryption>"),
    ("content-aes", _ENC_HEAD + _enc_entry(AES_ALG, "OEBPS/ch1.xhtml") + "</encryption>"),
    ("font-idpf", _ENC_HEAD + _enc_entry(IDPF_FONT, "OEBPS/font.otf") + "</encryption>"),
    ("font-adobe", _ENC_HEAD + _enc_entry(ADOBE_FONT, "OEBPS/font.otf") + "</encryption>"),
    ("font+content", _ENC_HEAD + _enc_entry(IDPF_FONT, "OEBPS/font.otf") + _enc_entry(AES_ALG, "OEBPS/ch1.xhtml")
     + "</encryption>"),
    ("malformed", "<encryption><not closed"),
]


def _real_epub(enc_xml, rights):
    import zipfile
    buf = io.BytesIO()
    with zipfile.ZipFile(buf, "w") as z:
        z.writestr("mimetype", "application/epub+zip")
        z.writestr("META-INF/container.xml",
                   '<?xml version="1.0"?><container version="1.0" '
                   'xmlns="urn:oasis:names:tc:opendocument:xmlns:container"><rootfiles>'
                   '<rootfile full-path="OEBPS/content.opf" media-type="application/oebps-package+xml"/>'
                   '</rootfiles></container>')
        z.writestr("OEBPS/content.opf",
                   '<?xml version="1.0"?><package xmlns="http://www.idpf.org/2007/opf" version="3.0" '
                   'unique-identifier="id"><metadata xmlns:dc="http://purl.org/dc/elements/1.1/">'
                   '<dc:title>T</dc:title><dc:identifier id="id">x</dc:identifier></metadata><manifest>'
                   '<item id="c1" href="ch1.xhtml" media-type="application/xhtml+xml"/>'
                   '<item id="f1" href="font.otf" media-type="font/otf"/></manifest>'
                   '<spine><itemref idref="c1"/></spine></package>')
        z.writestr("OEBPS/ch1.xhtml",
                   '<?xml version="1.0"?><html xmlns="http://www.w3.org/1999/xhtml"><head><title>c</title></head>'
                   '<body><p>hello epub</p></body></html>')
        z.writestr("OEBPS/font.otf", b"OTTO" + b"\0" * 32)
        if enc_xml is not None:
            z.writestr("META-INF/encryption.xml", enc_xml)
        if rights:
            z.writestr("META-INF/rights.xml", '<?xml version="1.0"?><rights xmlns="http://ns.adobe.com/adept"/>')
    return buf.getvalue()


def k4e_epub(ctx):
    """DRM-protected: META-INF/rights.xml present, or META-INF/encryption.xml lists EncryptedData
    for a content document (an encryption algorithm, not font obfuscation)"""
    import sharepoint2text.parsing.extractors.epub_extractor as em
    E = _exc()
    has_enc = ctx.fresh_bool("has_encryption_xml")
    has_rights = ctx.fresh_bool("has_rights_xml")
    v = ctx.choice("encryption_xml", len(ENCXML))
    site = ctx.choice("site", 2)
    vname, xml = ENCXML[v]
    if ctx.concrete:
        # replay on a real package, nothing stubbed but open() for read_file
        data = _real_epub(xml if has_enc else None, has_rights)
        out, raised, _ = _run_site(ctx, site, em.read_epub, data, "x.epub")
    else:
        data = _real_epub(xml, True)      # both members present; presence is answered symbolically

        Base = em._EpubContext

        class Ctx(Base):
            def exists(self, path):
                if path == "META-INF/encryption.xml":
                    return has_enc
                if path == "META-INF/rights.xml":
                    return has_rights
                return Base.exists(self, path)
        with ctx.stub(em, _EpubContext=Ctx):
            out, raised, _ = _run_site(ctx, site, em.read_epub, data, "x.epub")
    is_enc_err = isinstance(raised, E.ExtractionFileEncryptedError)
    content_enc = vname in ("content-aes", "font+content")
    font_only = vname in ("font-idpf", "font-adobe")
    if ctx.perturb == "rights_xml_is_not_drm":
        drm = _and([has_enc, content_enc])
        plain = _or([_not(has_enc), vname == "empty"])
    else:
        drm = _or([has_rights, _and([has_enc, content_enc])])
        plain = _and([_not(has_rights), _or([_not(has_enc), vname == "empty"])])
    fonts = _and([_not(has_rights), has_enc, font_only])
    _implies(ctx, drm, is_enc_err, "drm-epub-not-rejected-as-encrypted", raised=repr(raised)[:100])
    if is_enc_err:
        ctx.require(not out, "content-before-encrypted-error")
        _implies(ctx, plain, False, "plain-epub-rejected-as-encrypted", encryption_xml=vname)
        if EPUB_FONT_OBFUSCATION_IS_PLAIN and not ctx.perturb:
            _implies(ctx, fonts, False, "font-obfuscated-epub-rejected-as-drm", encryption_xml=vname)
    else:
        _implies(ctx, _or([plain, fonts]), raised is None and len(out) == 1, "plain-epub-not-extracted",
                 raised=repr(raised)[:100])


# =======================================================================================
# kernels
# =======================================================================================

def _t_enc(*names):
    return lambda: [getattr(_enc_mod(), n) for n in names]


def _t_doc():
    import sharepoint2text.parsing.extractors.ms_legacy.doc_extractor as dm
    return [dm._DocReader._parse_content, dm.read_doc]


def _t_zip():
    from sharepoint2text.parsing.extractors import archive_extractor as ae
    return [ae._extract_from_zip_optimized, ae.read_archive]


def _t_7z():
    from sharepoint2text.parsing.extractors.util import sevenzip as sz
    from sharepoint2text.parsing.extractors import archive_extractor as ae
    return [sz.SevenZipReader.needs_password, sz.SevenZipReader._apply_decoder,
            sz.SevenZipReader._parse_encoded_header, ae._extract_from_7z_optimized]


def _t_k4():
    return [getattr(m, f) for m, f, _ in _guarded_extractors().values()]


def _t_pdf():
    import sharepoint2text.parsing.extractors.pdf.pdf_extractor as pm
    return [pm.read_pdf]


def _t_epub():
    import sharepoint2text.parsing.extractors.epub_extractor as em
    return [em._is_epub_encrypted, em.read_epub]


_OLE_STUB = "olefile.isOleFile / olefile.OleFileIO -> stand-in container: exists(name) symbolic, openstream() hands " \
            "over the harness-built stream"

KERNELS = [
    Kernel("K1", "XLS FILEPASS walk == 'some record of the symbolic record list has id 0x002F'",
           k1_records, targets=_t_enc("is_xls_encrypted"), parts=_k1_parts,
           bounds={"quick": {"N": 4, "len_max": 2}, "thorough": {"N": 5, "len_max": 3}},
           perturb=[("id_high_byte_ignored", {"n": 2})],
           stubs=[_OLE_STUB],
           symbolic=["record ids (2 bytes each)", "payload bytes", "0..3 trailing bytes", "is_ole, has Workbook, has Book"],
           choices=["record count", "payload length per record", "trailing byte count"],
           outside=["real OLE parsing (olefile)", "more than N records / longer payloads (loop body identical per record)"],
           timeout={"quick": 110, "thorough": 1100}),
    Kernel("K1b", "XLS FILEPASS walk on raw symbolic bytes == reachability reference over offsets",
           k1_raw, targets=_t_enc("is_xls_encrypted"),
           parts=lambda tier: [{"L": L} for L in range(0, (21 if tier == "quick" else 29))],
           perturb=[("len_off_by_one", {"L": 9})],
           stubs=[_OLE_STUB], symbolic=["every byte of the Workbook stream"],
           assumptions=["a record header counts when its four bytes are inside the stream (its payload may be cut off)"],
           outside=["streams longer than the bound"],
           timeout={"quick": 110, "thorough": 1100}),
    Kernel("K2a", "DOC: FibBase.fEncrypted (symbolic wIdent and flag bytes) through read_doc",
           k2a_doc_fib, targets=_t_doc, perturb=["fib_bit9"],
           stubs=[_OLE_STUB, "_DocReader text/image/metadata heuristics after the flag test -> empty results",
                  "struct.Struct('<H'/'<I').unpack_from -> the same little-endian read on symbolic bytes (symbolic runs)"],
           symbolic=["wIdent (2 bytes)", "the 2 flag bytes at FIB offset 0x0A"], choices=["stream length 0x200/0x240"],
           outside=["Word 6/95 files (wIdent 0xA5DC): only the 'plain never rejected' half is demanded"]),
    Kernel("K2b", "ZIP: general purpose bit 0 of symbolic flag_bits through read_archive; nothing read or yielded first",
           k2b_zip_flag, targets=_t_zip,
           bounds={"quick": {"N": 3}, "thorough": {"N": 4}}, perturb=["flag_bit1"],
           stubs=["zipfile.ZipFile -> stand-in: infolist() = fake ZipInfo objects; read() raises what CPython's "
                  "ZipFile.open raises for flag bits 5/6/0 and unsupported compression methods"],
           symbolic=["flag_bits (16 bit) per member", "is_dir per member", "compress_type per member"],
           choices=["member count", "member name from a vocabulary (supported / unsupported / nested archive / in folder)"],
           outside=["real central-directory parsing", "central directory encryption (bit 13)"],
           timeout={"quick": 110, "thorough": 1100}),
    Kernel("K2c", "7z needs_password == some coder id starts with 06 F1 07 (symbolic coder-id bytes)",
           k2c_7z_coder, targets=_t_7z,
           bounds={"quick": {"id_lens": [0, 2, 3, 4]}, "thorough": {"id_lens": [0, 1, 2, 3, 4, 5]}},
           parts=lambda tier: [{"n_folders": f} for f in range(0, 3)],
           perturb=[("aes_exact_id", {"n_folders": 1})], symbolic=["every coder-id byte"],
           choices=["coders per folder 0..2", "coder-id length"],
           outside=["more than 2 folders / 2 coders per folder (any() over a flat generator)"]),
    Kernel("K2d", "7z end to end: AES coder in the files' folder or in the encoded header => encrypted error, nothing yielded",
           k2d_7z_end_to_end, targets=_t_7z, strength="structure", perturb=["header_coder_ignored"],
           choices=["coder chain of the folder", "plain / COPY-encoded / AES-encoded header", "AES sub id",
                    "entry point read_archive / read_file"],
           stubs=["open() inside read_file -> the generated archive"],
           outside=["LZMA-compressed headers and real AES (the 7zAES coder only needs to be *present*)"]),
    Kernel("K3", "ODF: is_odf_encrypted on plain manifests with a symbolic member name / media type, and on "
                 "encrypted manifests with a symbolic namespace prefix",
           k3_odf_manifest, targets=_t_enc("is_odf_encrypted"), parts=_k3_parts,
           perturb=[("plain_expected_encrypted", {"kind": "plain", "name_len": 3, "mt_len": 0}),
                    ("encrypted_expected_plain", {"kind": "enc", "prefix_len": 2})],
           stubs=["zipfile.is_zipfile -> True, open_zipfile -> container whose manifest is the symbolic text "
                  "(symbolic runs); replay builds a real ODT package and also calls read_odt"],
           symbolic=["every character of the member name / media type (printable ASCII without < > & \")",
                     "every character of the namespace prefix"],
           outside=["names longer than the bound, non-ASCII names"],
           timeout={"quick": 110, "thorough": 1100}),
    Kernel("K4", "detector-guarded extractors: encrypted => encrypted error and zero results; plain => never that "
                 "error (direct, read_file, CLI)",
           k4_ordering, targets=_t_k4, parts=_k4_parts, perturb=["verdict_inverted"],
           stubs=["the extractor module's detector -> symbolic boolean", "open() inside read_file -> fixture bytes"],
           symbolic=["detector verdict"], choices=["entry point"],
           outside=["content of the documents (one repository fixture per format)"]),
    Kernel("K4p", "PDF: encrypted error <=> is_encrypted and decrypt('') == 0; nothing yielded first",
           k4p_pdf, targets=_t_pdf, perturb=["user_password_result_rejected"],
           stubs=["_open_pdf_reader -> reader with symbolic is_encrypted / decrypt result, zero pages"],
           symbolic=["reader.is_encrypted", "decrypt('') result in {0,1,2}"], choices=["decrypt raises", "entry point"],
           outside=["pypdf's RC4/AES handling, the AES fallback (C20)", "'same content as the unencrypted original'"]),
    Kernel("K4e", "EPUB: DRM (rights.xml or content EncryptedData) => encrypted error, nothing yielded; plain never",
           k4e_epub, targets=_t_epub, perturb=["rights_xml_is_not_drm"],
           stubs=["_EpubContext.exists for the two META-INF names -> symbolic booleans (symbolic runs); replay builds "
                  "the real package"],
           symbolic=["presence of META-INF/encryption.xml", "presence of META-INF/rights.xml"],
           choices=["content of encryption.xml (6 variants)", "entry point"]),
    Kernel("K5", "OLE stream-name predicates: is_ooxml_encrypted / is_ppt_encrypted with ole.exists symbolic",
           k5_ole_names, targets=_t_enc("is_ooxml_encrypted", "is_ppt_encrypted", "_has_ole_encryption_stream"),
           parts=lambda tier: [{"detector": "is_ooxml_encrypted"}, {"detector": "is_ppt_encrypted"}],
           perturb=[("summary_streams_ignored", {"detector": "is_ppt_encrypted"}),
                    ("any_stream_counts", {"detector": "is_ooxml_encrypted"})],
           stubs=[_OLE_STUB], symbolic=["isOleFile", "exists(name) for the five names and five unrelated names"]),
    # the empty-user-password half of the property rests on the built-in AES; its padding /
    # stream-wrapper kernels are shared with C20 (same harness functions)
    Kernel("K6", "built-in AES stream wrapper: padding removed exactly (shared with C20/K4p, K4w)",
           lambda ctx: (__import__("vf.props.c20", fromlist=["x"]).k4_padding(ctx) if ctx.params.get("which") == "pad"
                        else __import__("vf.props.c20", fromlist=["x"]).k4_wrapper(ctx)),
           targets=lambda: __import__("vf.props.c20", fromlist=["x"])._targets_modes(),
           parts=lambda tier: [{"which": "pad", "max_len": 33 if tier == "quick" else 64},
                               {"which": "wrap", "max_len": 33 if tier == "quick" else 64}],
           symbolic=["content bytes", "iv"], choices=["length"], core=False,
           stubs=["block cipher -> uninterpreted keyed bijection", "secrets.token_bytes -> arbitrary 16 bytes"]),
]

META = {
    "level_text": "Every detection predicate is executed on symbolic container data handed over by stand-ins for "
                  "olefile/zipfile: the real FILEPASS loop on all record lists (<=4 records) and on all byte strings "
                  "(<=20 bytes) against two independent references; the FIB flag, the ZIP flag word, 7z coder ids, OLE "
                  "stream existence, PDF decrypt results and EPUB member presence as symbolic values decided by z3 on "
                  "every path of the real wrappers, which also shows that no result is yielded and no member read before "
                  "the encrypted error; is_odf_encrypted on a grammar of plain manifests with a fully symbolic member "
                  "name / media type (<=24 characters) and of encrypted manifests with a symbolic prefix.",
    "level_note": "Trusted: the stand-ins' model of olefile / zipfile.ZipFile.open / pypdf's PasswordType; one fixture per "
                  "format on the not-encrypted side of K4. Outside: cryptography and 'empty user password => same "
                  "content' (pypdf + C20), real OLE/ZIP/PDF parsing, encrypted members *inside* a plain archive.",
    "technique": "symbolic execution of the real detectors and extractor wrappers on z3 bit-vector / bounded-string "
                 "proxies (symrun), per-path SMT query against reference predicates written from the file-format "
                 "specifications; harness writers (7z, ODF, EPUB) for replay through the public API",
}
