"""C18 - SharePoint listing is complete, exact and fault-contained.

The real SharePointRestClient is driven through ``request_func`` = a fake Graph transport that
serves a *library model* kept by the harness.  The model is generated lazily while the client
walks it (a folder's children are drawn when they are first asked for), every drive item carries
its ``file`` / ``folder`` facets as SYMBOLIC booleans (a dict subclass whose ``in`` / ``get``
answer with a solver-decided fork), so the client's own ``"folder" in item`` / ``"file" in item``
tests partition the libraries.  The oracle is a reference walk of the model written from the
property text; it never looks at how the client got its answer.
"""
import io
import json as _json
from collections import Counter
from datetime import datetime, timedelta, timezone
from urllib.parse import unquote, urlsplit

import z3

from vf.core import Kernel
from vf import symrun as S


def _cm():
    import logging
    import sharepoint2text.sharepoint_io.client as cm
    lg = logging.getLogger(cm.__name__)
    if not lg.handlers:
        lg.addHandler(logging.NullHandler())
        lg.propagate = False
    return cm


def _exc():
    import sharepoint2text.sharepoint_io.exceptions as ex
    return ex


SITE_URL = "https://contoso.sharepoint.com/sites/TeamX/"
SITE_ID = "contoso.sharepoint.com,11111111-aaaa,22222222-bbbb"
TOKEN = "tok-e30.abc"
GRAPH = "https://graph.microsoft.com/v1.0"
TENANT = "tenant-1"

# one name per slot index; characters that need URL quoting, upper-case extension, non-ASCII
NAMES = ["A b.PDF", "c#d%41.docx", "ü+x?.txt", "r&s=t.Pdf"]
T0 = datetime(2024, 3, 1, 12, 0, 0, tzinfo=timezone.utc)


def _iso(dt):
    return dt.strftime("%Y-%m-%dT%H:%M:%SZ")


# ---------------------------------------------------------------------------------------
# library model
# ---------------------------------------------------------------------------------------

class SymItem(dict):
    """drive item as json.loads would hand it over, except that the presence of some keys is a
    symbolic boolean: ``k in item`` / ``item.get(k)`` fork (decided by z3) at the caller's line"""

    def __init__(self, base, sym):
        super().__init__(base)
        self._sym = sym

    def __contains__(self, k):
        if isinstance(k, str) and k in self._sym:
            return bool(self._sym[k][0])
        return dict.__contains__(self, k)

    def get(self, k, default=None):
        if isinstance(k, str) and k in self._sym:
            return self._sym[k][1] if bool(self._sym[k][0]) else default
        return dict.get(self, k, default)

    def __getitem__(self, k):
        if isinstance(k, str) and k in self._sym:
            if bool(self._sym[k][0]):
                return self._sym[k][1]
            raise KeyError(k)
        return dict.__getitem__(self, k)


_JUNK = [None, "a string member", 7, ["file", "folder"]]


class Node:
    def __init__(self, key, depth, idx):
        self.key = key
        self.depth = depth
        self.idx = idx
        self.id = "i" + key.replace(".", "_")
        self.name = NAMES[idx % len(NAMES)]
        self.junk = False          # page member that is not a JSON object
        self.has_file = False
        self.has_folder = False
        self.children = None       # generated on demand
        self.minimal = bool(idx % 2)   # optional fields absent
        self.modified = _iso(T0 + timedelta(seconds=idx - 1))
        self.created = _iso(T0 - timedelta(days=1, seconds=idx - 1))


class Library:
    """symbolic document library.  budget = max number of page members over the whole tree,
    slots = max members per folder, depth = folders at this depth are empty."""

    def __init__(self, ctx, slots=2, depth=2, budget=4, preset=None):
        self.ctx = ctx
        self.slots, self.depth, self.budget = slots, depth, budget
        self.preset = preset
        self.root = Node("r", 0, 0)
        self.root.has_folder = True
        self.by_id = {}
        self.used = 0

    def children(self, node):
        if node.children is not None:
            return node.children
        ctx = self.ctx
        out = []
        if self.preset is not None:
            spec = self.preset
            for i in [int(x) for x in node.key.split(".")[1:]]:
                spec = spec[i][1]
            for i, s in enumerate(spec):
                ch = Node(f"{node.key}.{i}", node.depth + 1, i)
                ch.junk = s[0] == "j"
                ch.has_file = s[0] == "f"
                ch.has_folder = s[0] == "d"
                if ch.has_folder and len(s) < 2:
                    raise AssertionError("preset folder without child list")
                out.append(ch)
        elif node.depth < self.depth:
            top = min(self.slots, self.budget - self.used)
            n = ctx.choice(f"n@{node.key}", top + 1) if top > 0 else 0
            self.used += n
            for i in range(n):
                ch = Node(f"{node.key}.{i}", node.depth + 1, i)
                ch.junk = bool(ctx.choice(f"junk@{ch.key}", 2))
                if not ch.junk:
                    ch.has_file = ctx.fresh_bool(f"file@{ch.key}")
                    ch.has_folder = ctx.fresh_bool(f"folder@{ch.key}")
                    # a Graph driveItem is a file, a folder or neither (package, remote item)
                    ctx.assume(~(ch.has_file & ch.has_folder) if not ctx.concrete
                               else not (ch.has_file and ch.has_folder))
                out.append(ch)
        for ch in out:
            self.by_id[ch.id] = ch
        node.children = out
        return out

    # -- what Graph would send ---------------------------------------------------------------
    def item_obj(self, node):
        if node.junk:
            return _JUNK[node.idx % len(_JUNK)]
        base = {"id": node.id, "name": node.name}
        if not node.minimal:
            base.update({
                "webUrl": "https://contoso.sharepoint.com/sites/Team%20X/Shared%20Documents/" + node.id,
                "@microsoft.graph.downloadUrl": "https://dl.example/" + node.id,
                "size": 100 + node.idx,
                "lastModifiedDateTime": node.modified,
                "createdDateTime": node.created,
                "listItem": {"fields": {"@odata.etag": "e", "Title": "t", "Department": "D" + node.id}},
            })
        file_v = {"mimeType": "application/pdf"} if not node.minimal else {}
        folder_v = {"childCount": 0}
        if self.ctx.concrete or (isinstance(node.has_file, bool) and isinstance(node.has_folder, bool)):
            if node.has_file:
                base["file"] = file_v
            if node.has_folder:
                base["folder"] = folder_v
            return base
        return SymItem(base, {"file": (node.has_file, file_v), "folder": (node.has_folder, folder_v)})

    def resolve(self, path):
        """drive-root relative path -> node or None (what GET root:/path answers)"""
        node = self.root
        for seg in [s for s in path.split("/")]:
            if node.junk or not bool(node.has_folder):
                return None
            for ch in self.children(node):
                if not ch.junk and ch.name == seg:
                    node = ch
                    break
            else:
                return None
        return node


# ---------------------------------------------------------------------------------------
# fake transport (request_func)
# ---------------------------------------------------------------------------------------

class _Text:
    def __init__(self, obj):
        self.obj = obj


class _Body:
    """bytes stand-in that carries a python object with proxies through decode()/json.loads
    (symbolic runs only; concrete replay sends real JSON bytes)"""

    def __init__(self, obj):
        self.obj = obj

    def decode(self, *a, **k):
        return _Text(self.obj)

    def __len__(self):
        return 1


class _JsonShadow:
    """the name ``json`` as seen from client.py in symbolic runs"""
    JSONDecodeError = _json.JSONDecodeError
    dumps = staticmethod(_json.dumps)

    @staticmethod
    def loads(t, *a, **k):
        if isinstance(t, _Text):
            return t.obj
        return _json.loads(t, *a, **k)


class Resp:
    def __init__(self, status, body, legacy=False):
        self.closed = 0
        self.reads = 0
        self._body = body
        self._code = status
        if not legacy:
            self.status = status      # http.client.HTTPResponse style
        # legacy: urllib.response.addinfourl before 3.9 style, only getcode()

    def getcode(self):
        return self._code

    def read(self):
        self.reads += 1
        return self._body

    def close(self):
        self.closed += 1


class _ErrBody(io.BytesIO):
    pass


FAULT_KINDS = [("http", 401), ("http", 404), ("http", 429), ("http", 500), ("http", 503),
               ("url", None), ("badjson", None), ("status", 500), ("status", 300), ("status", None),
               ("nofield", None)]


class Transport:
    def __init__(self, ctx, lib, page_size):
        self.ctx, self.lib, self.page_size = ctx, lib, page_size
        self.log = []            # (method, url)
        self.responses = []      # Resp objects handed out
        self.err_bodies = []
        self.fault_at = None     # request index (may be symbolic)
        self.fault_kind = None
        self.fired = None        # (index, url, kind)
        self.next = {}           # opaque skip token -> (node, offset)
        self.carriers = 0

    # -- plumbing ------------------------------------------------------------------------------
    def _ok(self, obj, status=200):
        sym = self._has_proxy(obj)
        if sym:
            self.carriers += 1
            body = _Body(obj)
        else:
            body = _json.dumps(obj).encode("utf-8")
        r = Resp(status, body, legacy=(len(self.responses) % 3 == 2))
        self.responses.append(r)
        return r

    def _has_proxy(self, obj):
        if isinstance(obj, SymItem):
            return True
        if isinstance(obj, dict):
            return any(self._has_proxy(v) for v in obj.values())
        if isinstance(obj, list):
            return any(self._has_proxy(v) for v in obj)
        return False

    def _http_error(self, url, code, msg="error"):
        from urllib.error import HTTPError
        fp = _ErrBody(_json.dumps({"error": {"code": msg}}).encode())
        self.err_bodies.append(fp)
        return HTTPError(url, code, msg, {}, fp)

    def __call__(self, request, timeout=None):
        url = request.full_url
        i = len(self.log)
        self.log.append((request.get_method(), url))
        if self.fault_kind is not None and self.fired is None and bool(self.fault_at == i):
            self.fired = (i, url, self.fault_kind)
            return self._fault(url, self.fault_kind)
        return self._serve(request, url)

    def _fault(self, url, kind):
        from urllib.error import URLError
        k, code = kind
        if k == "http":
            if code == 404 and "/root:/" in url:
                # a 404 answer to a path lookup is the protocol's "no such folder": not a failure
                self.ctx.assume(False)
            raise self._http_error(url, code, "injected")
        if k == "url":
            raise URLError("injected: connection refused")
        if k == "nofield":
            # token endpoint / site lookup answer 200 with an object that lacks the wanted member
            if not (url.startswith("https://login.") or url.endswith(":/sites/TeamX")):
                self.ctx.assume(False)       # for a listing page that is a legitimate empty answer
            r = Resp(200, b'{"error": "temporarily_unavailable", "id": null, "access_token": ""}')
        elif k == "badjson":
            r = Resp(200, b'{"value": [ {"id": "x", "file": ', legacy=False)
        else:
            r = Resp(code, b'{"error": "injected"}', legacy=(code is None))
        self.responses.append(r)
        return r

    # -- Graph ---------------------------------------------------------------------------------
    def _serve(self, request, url):
        method = request.get_method()
        if url == f"https://login.microsoftonline.com/{TENANT}/oauth2/v2.0/token":
            if method != "POST" or b"grant_type=client_credentials" not in (request.data or b""):
                raise self._http_error(url, 400, "invalid_request")
            return self._ok({"token_type": "Bearer", "expires_in": 3599, "access_token": TOKEN})
        if not url.startswith(GRAPH + "/"):
            raise self._http_error(url, 404, "unknown host")
        if request.get_header("Authorization") != "Bearer " + TOKEN:
            raise self._http_error(url, 401, "InvalidAuthenticationToken")
        if method != "GET":
            raise self._http_error(url, 405, "method")
        rest = url[len(GRAPH):]
        if rest == "/sites/contoso.sharepoint.com:/sites/TeamX":
            return self._ok({"id": SITE_ID, "displayName": "Team X"})
        if rest.startswith("/next/"):
            tok = rest[len("/next/"):]
            if tok not in self.next:
                raise self._http_error(url, 400, "bad skiptoken")
            node, off = self.next[tok]
            return self._page(node, off)
        for prefix in (f"/sites/{SITE_ID}/drive/", f"/sites/{SITE_ID}/drives/drv1/"):
            if rest.startswith(prefix):
                tail = rest[len(prefix):]
                break
        else:
            raise self._http_error(url, 404, "itemNotFound")
        expand = "?$expand=listItem($expand=fields)"
        if tail.endswith("/children" + expand):
            what = tail[:-len("/children" + expand)]
            if what == "root":
                node = self.lib.root
            elif what.startswith("items/") and what[6:] in self.lib.by_id:
                node = self.lib.by_id[what[6:]]
            else:
                raise self._http_error(url, 404, "itemNotFound")
            if node.junk or not bool(node.has_folder):
                raise self._http_error(url, 404, "itemNotFound")   # children of a non-folder
            return self._page(node, 0)
        if tail.startswith("root:/") and "?" not in tail:
            path = unquote(urlsplit(url).path.split("root:/", 1)[1])
            if "#" in url or "?" in url:
                raise self._http_error(url, 400, "unquoted reserved character")
            node = self.lib.resolve(path)
            if node is None:
                raise self._http_error(url, 404, "itemNotFound")
            return self._ok(self.lib.item_obj(node))
        raise self._http_error(url, 400, "BadRequest")

    def _page(self, node, off):
        kids = self.lib.children(node)
        ps = self.page_size
        chunk = kids[off:off + ps]
        page = {"@odata.context": "ctx"}
        if chunk or node.depth % 2 == 0:
            page["value"] = [self.lib.item_obj(k) for k in chunk]
        # (an empty folder at odd depth answers without a "value" member)
        if off + ps < len(kids):
            tok = f"t{len(self.next)}-{node.id}-{off + ps}"
            self.next[tok] = (node, off + ps)
            page["@odata.nextLink"] = f"{GRAPH}/next/{tok}"
        return self._ok(page)


def _client(tr):
    cm = _cm()
    creds = cm.EntraIDAppCredentials(tenant_id=TENANT, client_id="cid", client_secret="s&ecret=1")
    return cm.SharePointRestClient(SITE_URL, creds, request_func=tr, timeout=5.0)


# ---------------------------------------------------------------------------------------
# reference (written from the property text; walks the model, never the client)
# ---------------------------------------------------------------------------------------

def _ref_instant(s):
    """instant named by an ISO-8601 string, None when absent/unparseable"""
    if not s or not isinstance(s, str):
        return None
    try:
        return datetime.fromisoformat(s[:-1] + "+00:00" if s.endswith("Z") else s)
    except ValueError:
        return None


def _ref_match(flt, name, parent, created, modified):
    """property text: after-bounds inclusive, before-bounds exclusive, extension match
    case-insensitive, patterns against the full path"""
    import fnmatch
    for after, before, s in ((flt.get("created_after"), flt.get("created_before"), created),
                             (flt.get("modified_after"), flt.get("modified_before"), modified)):
        if after is not None or before is not None:
            t = _ref_instant(s)
            if t is None:
                return False
            if after is not None and not (t >= after):
                return False
            if before is not None and not (t < before):
                return False
    exts = flt.get("extensions") or []
    if exts and not any(name.lower().endswith(e.lower()) for e in exts):
        return False
    pats = flt.get("path_patterns") or []
    full = f"{parent}/{name}" if parent else name
    if pats and not any(fnmatch.fnmatchcase(full, p) for p in pats):
        return False
    return True


def _ref_walk(lib, node, parent, perturb=None):
    """every file below ``node`` with the path of the folder it lies in"""
    for ch in lib.children(node):
        if ch.junk:
            continue
        if bool(ch.has_folder):
            sub = f"{parent}/{ch.name}" if parent else ch.name
            if perturb == "parent_is_leaf_name":
                sub = ch.name
            if perturb == "folders_listed":
                yield ch, parent
            yield from _ref_walk(lib, ch, sub, perturb)
        elif bool(ch.has_file):
            yield ch, parent


def _ref_listing(lib, flt, perturb=None):
    """expected {file id: (node, parent_path)}: each matching file once"""
    exp = {}
    targets = flt.get("folder_paths") or [None]
    for tp in targets:
        if tp is None:
            start, parent = lib.root, ""
        else:
            start, parent = lib.resolve(tp), tp
            if start is None or start.junk or not bool(start.has_folder):
                continue
        for node, par in _ref_walk(lib, start, parent, perturb):
            modified = None if node.minimal else node.modified
            created = None if node.minimal else node.created
            if _ref_match(flt, node.name, par, created, modified):
                exp[node.id] = (node, par)
    return exp


def _judge_listing(ctx, got, exp, tag=""):
    counts = Counter(m.id for m in got)
    info = dict(listed=[(m.id, m.parent_path) for m in got][:12], expected=sorted(exp)[:12])
    for fid, (node, par) in exp.items():
        c = counts.get(fid, 0)
        ctx.require(c >= 1, tag + "matching-file-missing", file=fid, **info)
        ctx.require(c == 1, tag + "file-listed-more-than-once", file=fid, count=c, **info)
    for fid in counts:
        ctx.require(fid in exp, tag + "non-matching-item-listed", item=fid, **info)
    for m in got:
        node, par = exp[m.id]
        ctx.require(m.name == node.name, tag + "wrong-name", file=m.id, got=m.name)
        ctx.require((m.parent_path or "") == par, tag + "wrong-parent-path", file=m.id,
                    got=m.parent_path, expected=par)
        full = f"{par}/{node.name}" if par else node.name
        ctx.require(m.get_full_path() == full, tag + "wrong-full-path", file=m.id,
                    got=m.get_full_path(), expected=full)


DAY = timedelta(days=1)
FILTERS = {
    "all": None,                       # list_all_files()
    "none": {},                        # list_files_filtered(FileFilter())
    "drive": {"_drive": "drv1"},
    "ext": {"extensions": [".pdf", ".TXT"]},
    "pat": {"path_patterns": ["A b.PDF/*", "*.docx", "c#d%41.docx/[!c]*"]},
    "after": {"modified_after": T0},
    "before": {"created_before": T0 - DAY, "modified_before": T0 + timedelta(seconds=1)},
    "folder": {"folder_paths": ["A b.PDF", "c#d%41.docx/A b.PDF"], "extensions": [".docx", ".pdf"]},
    "folder2": {"folder_paths": ["ü+x?.txt", "no such folder", "A b.PDF/c#d%41.docx"], "_drive": "drv1"},
    "overlap": {"folder_paths": ["A b.PDF", "A b.PDF/A b.PDF"]},
    "k2folder": {"folder_paths": ["c#d%41.docx", "A b.PDF"]},
}


def _call(client, variant):
    cm = _cm()
    f = FILTERS[variant]
    if f is None:
        return client.list_all_files()
    kw = {k: v for k, v in f.items() if not k.startswith("_")}
    return list(client.list_files_filtered(cm.FileFilter(**kw), drive_id=f.get("_drive")))


def _page_size(ctx):
    P = ctx.params
    if "page" in P:
        return ctx.conc(ctx.fresh_int("page_size", P["page"], P["page"]), P["page"], P["page"])
    return ctx.conc(ctx.fresh_int("page_size", 1, P["max_page"]), 1, P["max_page"])


def k1_walk(ctx):
    cm = _cm()
    P = ctx.params
    variant = P["api"]
    lib = Library(ctx, slots=P["slots"], depth=P["depth"], budget=P["budget"])
    tr = Transport(ctx, lib, _page_size(ctx))
    client = _client(tr)
    with ctx.shadow(cm, json=_JsonShadow):
        try:
            got = _call(client, variant)
        except Exception as e:
            got = None
            ctx.fail("healthy-listing-raised", exc=type(e).__name__, msg=str(e)[:160],
                     url=getattr(e, "url", None), requests=[u for _, u in tr.log][-4:])
    exp = _ref_listing(lib, FILTERS[variant] or {}, ctx.perturb)
    _judge_listing(ctx, got, exp)
    ctx.require(all(r.closed >= 1 for r in tr.responses), "response-left-open")


K1_VARIANTS = ("all", "none", "drive", "ext", "pat", "after", "before", "folder", "folder2", "overlap")


def _k1_parts(tier):
    out = []
    if tier == "quick":
        for v in K1_VARIANTS:
            out += [{"api": v, "page": p, "slots": 2, "depth": 3, "budget": 5} for p in (1, 2)]
        out += [{"api": v, "page": p, "slots": 3, "depth": 2, "budget": 4} for v in ("all", "ext") for p in (1, 2, 3)]
    else:
        for v in K1_VARIANTS:
            out += [{"api": v, "page": p, "slots": 2, "depth": 3, "budget": 7} for p in (1, 2)]
            out += [{"api": v, "page": p, "slots": 3, "depth": 3, "budget": 5} for p in (1, 2, 3)]
    return out


# ---------------------------------------------------------------------------------------
# K1b item classification on dicts with SYMBOLIC KEYS
# ---------------------------------------------------------------------------------------

class SymKeyDict(dict):
    """JSON object whose member NAMES are bounded symbolic strings: every lookup compares the
    wanted name with each member name (solver-decided forks at the caller's line)"""

    def __init__(self, entries):
        super().__init__()
        self._e = list(entries)      # [(CharStr key, value)]

    def _find(self, k):
        for kk, v in self._e:
            if len(kk) == len(k) and bool(kk == k):
                return True, v
        return False, None

    def __contains__(self, k):
        return self._find(k)[0]

    def get(self, k, default=None):
        ok, v = self._find(k)
        return v if ok else default

    def __getitem__(self, k):
        ok, v = self._find(k)
        if not ok:
            raise KeyError(k)
        return v

    def __len__(self):
        return len(self._e)

    def __bool__(self):
        return bool(self._e)

    def __iter__(self):
        return iter([k for k, _ in self._e])

    def keys(self):
        return [k for k, _ in self._e]

    def items(self):
        return list(self._e)

    def values(self):
        return [v for _, v in self._e]


KEY_LENGTHS = (2, 4, 6, 8)       # id | file name size | folder webUrl | listItem
_V0 = ["s0", {"mimeType": "m/t"}, 7]
_V1 = ["s1", {"fields": {"Dept": "x", "Title": "t", "@odata.etag": "e"}}, {}]
_NONDICT = [None, "folder", 3, ["file"]]


def _is(key, lit):
    """key == lit as python bool (replay) or z3 Bool"""
    if isinstance(key, str):
        return key == lit
    r = (key == lit)
    if isinstance(r, S.SymBool):
        return r.z
    return z3.BoolVal(bool(r))


def _any(ctx, conds):
    return any(conds) if ctx.concrete else z3.Or(*conds) if conds else z3.BoolVal(False)


def _iff(ctx, observed, cond):
    """requirement 'observed (python bool on this path) <=> cond'"""
    if ctx.concrete:
        return bool(cond) == bool(observed)
    return cond if observed else z3.Not(cond)


def k1b_items(ctx):
    cm = _cm()
    P = ctx.params
    lens = P["lens"]
    # ---- the symbolic page member -------------------------------------------------------------
    nondict = P.get("nondict")
    entries = []
    if nondict is None:
        vals = [_V0[ctx.choice("value0", len(_V0))], _V1[ctx.choice("value1", len(_V1))]]
        for i, n in enumerate(lens):
            entries.append((ctx.fresh_chars(f"key{i}", n, 64, 122), vals[i]))
        if len(lens) == 2 and lens[0] == lens[1]:
            ctx.assume(entries[0][0] != entries[1][0])      # a JSON object has distinct member names
        item = dict(entries) if ctx.concrete else SymKeyDict(entries)
    else:
        item = _NONDICT[nondict]
    neighbour = {"id": "nb", "name": "n.txt", "file": {}}
    junk = list(_NONDICT)            # every kind of non-object member, on every page
    root = "ROOT"
    two_pages = ctx.flag("two_pages")
    pages = {root: {"value": [item] + junk, "@odata.nextLink": "NEXT"} if two_pages
             else {"value": [item] + junk + [neighbour]},
             "NEXT": {"value": junk + [neighbour]}}
    asked = []

    client = _client(lambda *a, **k: (_ for _ in ()).throw(AssertionError("transport used")))

    def get_json(url):
        asked.append(url)
        if url in pages:
            return pages[url]
        return {} if ctx.flag("empty_answer_without_value") else {"value": []}

    parent = ["", "P/Q r"][ctx.choice("parent", 2)]
    with ctx.stub(client, _get_json=get_json, _build_children_url=lambda s, i, d=None: root if i is None else f"CH:{i}"):
        try:
            got = list(client._walk_drive_items("sid", None, parent_path=parent))
        except Exception as e:
            got = None
            ctx.fail("classification-raised", exc=type(e).__name__, msg=str(e)[:120])
    # ---- oracle -------------------------------------------------------------------------------
    keys = [k for k, _ in entries]
    is_folder = _any(ctx, [_is(k, "folder") for k in keys])
    is_file = _any(ctx, [_is(k, "file") for k in keys])
    has_id = _any(ctx, [_is(k, "id") for k, v in entries if v])
    if ctx.concrete:
        want_file = is_file and not is_folder
        want_rec = is_folder and has_id
    else:
        want_file = z3.And(is_file, z3.Not(is_folder))
        want_rec = z3.And(is_folder, has_id)
    if ctx.perturb == "file_wins":
        want_file = is_file
    mine = [m for m in got if m.id != "nb"]
    nb = [m for m in got if m.id == "nb"]
    ctx.require(len(nb) == 1, "neighbour-file-not-listed-once", n=len(nb))
    ctx.require(len(mine) <= 1, "item-listed-twice")
    yielded = len(mine) == 1
    recursed = [u for u in asked if u.startswith("CH:")]
    ctx.require(_iff(ctx, yielded, want_file), "file-classification-differs", yielded=yielded)
    ctx.require(_iff(ctx, bool(recursed), want_rec), "folder-recursion-differs", recursed=recursed)
    ctx.require(not (yielded and recursed), "item-both-listed-and-recursed")
    ctx.require(len(recursed) <= 2, "folder-walked-more-than-once", recursed=recursed)
    if yielded:
        m = mine[0]
        ctx.require(m.parent_path == (parent or None), "wrong-parent-path", got=m.parent_path)
        for attr, name, dflt in (("name", "name", ""), ("size", "size", None)):
            seen = getattr(m, attr)
            for k, v in entries:
                c = _is(k, name)
                ctx.require((not c or seen == v) if ctx.concrete else z3.Implies(c, z3.BoolVal(seen == v)),
                            "field-not-taken-from-item", field=name)
            none = _any(ctx, [_is(k, name) for k in keys])
            ctx.require((none or seen == dflt) if ctx.concrete else z3.Or(none, z3.BoolVal(seen == dflt)),
                        "missing-optional-field-not-defaulted", field=name, got=repr(seen))
        ctx.require(m.last_modified is None and m.created is None and m.download_url is None,
                    "missing-optional-field-not-defaulted", field="dates/downloadUrl")


def _k1b_parts(tier):
    out = [{"lens": [a, b]} for a in KEY_LENGTHS for b in KEY_LENGTHS if a <= b]
    out += [{"lens": [a]} for a in KEY_LENGTHS] + [{"lens": []}]
    out += [{"lens": [], "nondict": i} for i in range(len(_NONDICT))]
    return out


# ---------------------------------------------------------------------------------------
# K2 fault containment
# ---------------------------------------------------------------------------------------

PRESETS = {
    # root: file, folder(file, non-object member, file), item that is neither
    "a": [("f",), ("d", [("f",), ("j",), ("f",)]), ("n",)],
    # root: folder(folder(file, file), file)
    "b": [("d", [("d", [("f",), ("f",)]), ("f",)])],
}
K2_SCENARIOS = [("a", "all"), ("a", "k2folder"), ("b", "drive"), ("b", "k2folder")]
MAX_REQUESTS = 60


def k2_faults(ctx):
    cm, ex = _cm(), _exc()
    P = ctx.params
    if P["lib"] == "sym":
        lib = Library(ctx, slots=2, depth=2, budget=P["budget"])
    else:
        lib = Library(ctx, preset=PRESETS[P["lib"]])
    tr = Transport(ctx, lib, P["page"])
    kind = FAULT_KINDS[ctx.choice("fault_kind", len(FAULT_KINDS))]
    tr.fault_at = ctx.fresh_int("fault_at", 0, MAX_REQUESTS)
    tr.fault_kind = kind
    client = _client(tr)
    variant = P["api"]
    with ctx.shadow(cm, json=_JsonShadow):
        raised = got = None
        try:
            got = _call(client, variant)
        except Exception as e:
            raised = e
        n_first = len(tr.log)
        exp = _ref_listing(lib, FILTERS[variant] or {})
        ctx.require(n_first < MAX_REQUESTS, "harness-bound-on-requests-too-small")
        info = dict(kind=list(kind), fired=tr.fired and list(tr.fired[:2]), requests=n_first,
                    raised=repr(raised)[:160])
        # every response handed out so far has been closed (whatever happened)
        if ctx.perturb == "nothing_closed":
            ctx.require(all(r.closed == 0 for r in tr.responses), "response-left-open", **info)
        ctx.require(all(r.closed >= 1 for r in tr.responses), "response-left-open",
                    open=[i for i, r in enumerate(tr.responses) if not r.closed], **info)
        if tr.fired is None:
            ctx.require(raised is None, "healthy-listing-raised", **info)
            _judge_listing(ctx, got, exp)
        else:
            _, url, (k, code) = tr.fired
            if ctx.perturb == "status_plus_one" and code is not None:
                code += 1
            ctx.require(raised is not None, "failed-request-swallowed", **info)
            ctx.require(isinstance(raised, ex.SharePointError), "error-not-of-client-family", **info)
            if k in ("http", "url", "status"):
                ctx.require(isinstance(raised, ex.SharePointRequestError), "not-a-request-error", **info)
                ctx.require(raised.status_code == (None if k == "url" else code), "request-error-wrong-status",
                            status=raised.status_code, **info)
                ctx.require(raised.url == url, "request-error-wrong-url", url=raised.url, **info)
        # the same client against the healthy transport
        tr.fault_kind = None
        try:
            again = _call(client, variant)
        except Exception as e:
            again = None
            ctx.fail("retry-raised", exc=repr(e)[:160], **info)
        _judge_listing(ctx, again, exp, "retry-")
        ctx.require(all(r.closed >= 1 for r in tr.responses), "retry-response-left-open", **info)


def _k2_parts(tier):
    pages = (1, 2) if tier == "quick" else (1, 2, 3)
    out = [{"lib": l, "api": a, "page": p} for l, a in K2_SCENARIOS for p in pages]
    b = 2 if tier == "quick" else 4
    out += [{"lib": "sym", "api": a, "page": p, "budget": b} for a in ("all", "folder") for p in (1, 2)]
    return out


# ---------------------------------------------------------------------------------------
# K3 FileFilter.matches with abstract instants, symbolic names/extensions, abstract fnmatch
# ---------------------------------------------------------------------------------------

class Inst:
    """abstract instant: a point on a totally ordered time line (what the filter compares)"""

    def __init__(self, t):
        self.t = t

    def __lt__(self, o):
        return self.t < o.t

    def __le__(self, o):
        return self.t <= o.t

    def __gt__(self, o):
        return self.t > o.t

    def __ge__(self, o):
        return self.t >= o.t

    def __eq__(self, o):
        return isinstance(o, Inst) and self.t == o.t

    __hash__ = None


BOUND_NAMES = ("created_after", "created_before", "modified_after", "modified_before")
K3_PARENTS = [None, "", "P", "P/Q r"]
K3_EXTS = [[], [".pdf"], [".TXT", ".Docx"]]


def _z(v):
    return v.z if isinstance(v, (S.SymInt, S.SymBool)) else v


def _low(c):
    return z3.If(z3.And(c >= 65, c <= 90), c + 32, c)


def _ext_ok(ctx, name, exts, case_sensitive=False):
    """property text: extension match is case-insensitive (ASCII letters)"""
    if not exts:
        return True
    if ctx.concrete or isinstance(name, str):
        return any(name.lower().endswith(e.lower()) for e in exts)
    conds = []
    f = (lambda c: c) if case_sensitive else _low
    for e in exts:
        n, m = len(name.c), len(e.c)
        if m > n:
            continue
        cs = [f(_z(name.c[n - m + j])) == f(_z(e.c[j])) for j in range(m)]
        conds.append(z3.And(*cs) if cs else z3.BoolVal(True))
    return z3.Or(*conds) if conds else z3.BoolVal(False)


def k3_matches(ctx):
    cm = _cm()
    P = ctx.params
    mask, mode = P["bounds"], P["mode"]
    sym = not ctx.concrete

    def instant(t):
        return Inst(t) if sym else T0 + timedelta(seconds=t)

    bounds_t = {}
    for bit, nm in enumerate(BOUND_NAMES):
        bounds_t[nm] = ctx.fresh_int(nm, 0, 9) if (mask >> bit) & 1 else None
    parse_table = {}
    fields = {}
    for bit, nm in ((0, "created"), (2, "modified")):
        if (mask >> bit) & 3:
            kind = ctx.choice(nm + "_state", 4)     # absent / empty / unparseable / an instant
        else:
            kind = (0, 3)[ctx.choice(nm + "_state", 2)]   # no bound on it: must not matter
        t = ctx.fresh_int("t_" + nm, 0, 9) if kind == 3 else None
        if kind == 3:
            text = f"@instant:{nm}" if sym else _iso(T0 + timedelta(seconds=t))
            parse_table[text] = Inst(t)
        else:
            text = [None, "", "yesterday-ish"][kind]
        fields[nm] = (kind, t, text)
    real_parse = cm._parse_iso_datetime

    def parse(s):
        return parse_table[s] if s in parse_table else real_parse(s)

    calls = []
    answers = []
    if mode == "ext":
        name = ctx.fresh_chars("name", P["name_len"], 1, 127)
        exts = [ctx.fresh_chars(f"ext{i}", n, 1, 127) for i, n in enumerate(P["ext_lens"])]
        pats, parent = [], K3_PARENTS[1]
    else:
        name = NAMES[ctx.choice("name", 2)]
        exts = K3_EXTS[ctx.choice("exts", len(K3_EXTS))]
        parent = K3_PARENTS[ctx.choice("parent", len(K3_PARENTS))]
        pats = [f"pattern-{i}" for i in range(ctx.choice("n_patterns", 3))]
        answers = [ctx.fresh_bool(f"fnmatch_says{i}") for i in range(len(pats))]

    class FnStub:
        """fnmatch as an uninterpreted predicate of the pattern (arguments recorded)"""
        @staticmethod
        def fnmatch(path, pattern):
            calls.append((path, pattern))
            return answers[pats.index(pattern)]

    flt = cm.FileFilter(extensions=list(exts), path_patterns=list(pats),
                        **{nm: (None if t is None else instant(t)) for nm, t in bounds_t.items()})
    meta = cm.SharePointFileMetadata(name=name, id="f1", web_url="", created=fields["created"][2],
                                     last_modified=fields["modified"][2], parent_path=parent)
    with ctx.shadow(cm, _parse_iso_datetime=parse), ctx.stub(cm, fnmatch=FnStub if mode == "pat" else cm.fnmatch):
        try:
            got = flt.matches(meta)
        except Exception as e:
            got = None
            ctx.fail("matches-raised", exc=type(e).__name__, msg=str(e)[:120])
    ctx.require(got is True or got is False, "matches-not-bool", got=repr(got))
    # ---- oracle -------------------------------------------------------------------------------
    pt = ctx.perturb
    conj = []
    for after, before, nm in (("created_after", "created_before", "created"),
                              ("modified_after", "modified_before", "modified")):
        a, b = bounds_t[after], bounds_t[before]
        kind, t, _ = fields[nm]
        if a is None and b is None:
            continue
        if kind != 3:
            conj.append(False)
            continue
        if a is not None:
            conj.append(_z(t > a) if pt == "after_exclusive" else _z(t >= a))
        if b is not None:
            conj.append(_z(t <= b) if pt == "before_inclusive" else _z(t < b))
    conj.append(_ext_ok(ctx, name, exts, case_sensitive=(pt == "ext_case_sensitive")))
    if pats:
        conj.append(any(answers) if ctx.concrete else z3.Or(*[_z(a) for a in answers]))
    if ctx.concrete:
        expected = all(bool(c) for c in conj)
        ctx.require(expected == got, "filter-verdict-differs-from-spec", got=got, expected=expected)
    else:
        zs = [c if z3.is_expr(c) else z3.BoolVal(bool(c)) for c in conj]
        e = z3.And(*zs) if zs else z3.BoolVal(True)
        ctx.require(e if got else z3.Not(e), "filter-verdict-differs-from-spec", got=got)
    full = f"{parent}/{name}" if parent else name
    if pt == "pattern_on_name":
        full = name
    for path, _ in calls:
        ctx.require(path == full, "pattern-not-applied-to-full-path", got=path, expected=full)


def _k3_parts(tier):
    out = [{"mode": "pat", "bounds": m} for m in range(16)]
    shapes = [(5, [4]), (5, [2, 4]), (3, [4, 3])] if tier == "quick" else \
        [(5, [4]), (6, [2, 4]), (3, [4, 3]), (6, [5, 5]), (8, [4, 5, 3]), (4, [0, 4])]
    for n, el in shapes:
        out += [{"mode": "ext", "bounds": m, "name_len": n, "ext_lens": el} for m in (0, 6, 15)]
    return out


# ---------------------------------------------------------------------------------------
# K3b date bounds through the public filtered listing, real timestamp lexemes
# ---------------------------------------------------------------------------------------

FRACTIONS = [("", 0), (".5", 500000), (".25", 250000), (".123", 123000), (".999999", 999999),
             (".7500000", 750000)]                     # Graph sends up to 7 fractional digits
ZONES = [("Z", 0), ("+00:00", 0), ("+02:00", 120), ("-05:00", -300)]
DELTAS_US = [-1000000, -500000, -250000, -1, 0, 1, 250000, 500000, 1000000]


def k3b_bounds(ctx):
    cm = _cm()
    frac, frac_us = FRACTIONS[ctx.choice("fraction", len(FRACTIONS))]
    zone, zone_min = ZONES[ctx.choice("zone", len(ZONES))]
    which = BOUND_NAMES[ctx.choice("bound", 4)]
    delta = DELTAS_US[ctx.choice("bound_minus_file_time", len(DELTAS_US))]
    text = "2024-03-01T12:00:01" + frac + zone
    # the instant the lexeme names (ISO 8601): wall clock minus offset, fraction included
    true = datetime(2024, 3, 1, 12, 0, 1, tzinfo=timezone.utc) - timedelta(minutes=zone_min) \
        + timedelta(microseconds=frac_us)
    bound = true + timedelta(microseconds=delta)
    lib = Library(ctx, preset=[("f",)])
    node = lib.children(lib.root)[0]
    node.created = node.modified = text
    tr = Transport(ctx, lib, 2)
    client = _client(tr)
    try:
        got = list(client.list_files_filtered(cm.FileFilter(**{which: bound})))
    except Exception as e:
        got = None
        ctx.fail("healthy-listing-raised", exc=repr(e)[:160])
    if which.endswith("_after"):
        want = true >= bound          # inclusive
        if ctx.perturb == "after_exclusive":
            want = true > bound
    else:
        want = true < bound           # exclusive
    info = dict(timestamp=text, bound=bound.isoformat(), which=which, listed=len(got))
    if want:
        ctx.require(len(got) == 1, "matching-file-missing", **info)
    else:
        ctx.require(len(got) == 0, "non-matching-item-listed", **info)


# ---------------------------------------------------------------------------------------
# kernels
# ---------------------------------------------------------------------------------------

def _t_walk():
    c = _cm().SharePointRestClient
    return [c.list_all_files, c.list_files_filtered, c._walk_and_filter, c._get_folder_by_path,
            c._walk_drive_items, c._get_folders_from_url, c._list_items_paginated, c._parse_file_item,
            c._extract_custom_fields, c._build_children_url, c.get_site_id, c.fetch_access_token,
            c._get_json, c._send, _cm().FileFilter.matches, _cm()._parse_iso_datetime]


def _t_items():
    c = _cm().SharePointRestClient
    return [c._walk_drive_items, c._get_folders_from_url, c._list_items_paginated, c._parse_file_item,
            c._extract_custom_fields]


def _t_filter():
    cm = _cm()
    return [cm.FileFilter.matches, cm.SharePointFileMetadata.get_full_path, cm._parse_iso_datetime]


_TRANSPORT_STUB = ("request_func -> fake Graph transport serving the harness's library model (token endpoint, site "
                   "lookup, children listings with opaque @odata.nextLink, path lookups; unknown URLs, children of "
                   "non-folders, wrong bearer token answer 4xx)")

KERNELS = [
    Kernel("K1", "list_all_files / list_files_filtered == reference walk of a symbolic library (exactly once, "
                 "parent paths, filters, paging)",
           k1_walk, targets=_t_walk, parts=_k1_parts,
           perturb=[("parent_is_leaf_name", {"api": "all", "page": 2, "slots": 2, "depth": 3, "budget": 3}),
                    ("folders_listed", {"api": "none", "page": 1, "slots": 2, "depth": 3, "budget": 3})],
           stubs=[_TRANSPORT_STUB,
                  "client.json -> pass-through for pages that carry symbolic items (symbolic runs only; replay "
                  "sends real JSON bytes through the real json.loads)"],
           symbolic=["file facet and folder facet of every drive item (the client's own '\"folder\" in item' / "
                     "'\"file\" in item' tests fork on them)", "page size"],
           choices=["number of members per folder (library generated lazily while the client walks it, "
                    "<= budget members in total)", "member is a JSON object or not", "filter / API variant (per part)"],
           assumptions=["a drive item is a file, a folder or neither - never both (Graph driveItem facets)",
                        "drive items carry id and name; every other field may be missing",
                        "folder_paths are drive-root relative without leading/trailing slash (as documented)"],
           outside=["URL quoting against the real Graph service (the fake transport unquotes with urllib)",
                    "libraries beyond the stated slots/depth/budget", "real HTTP"],
           bounds={"quick": {"max_page": 3}, "thorough": {"max_page": 3}},
           timeout={"quick": 200, "thorough": 1500}),
    Kernel("K1b", "classification of page members whose member NAMES are symbolic strings",
           k1b_items, targets=_t_items, parts=_k1b_parts,
           perturb=[("file_wins", {"lens": [4, 6]})],
           stubs=["client._get_json -> pages built by the harness", "client._build_children_url -> short tokens"],
           symbolic=["every character of the (<= 2) member names of one page member, lengths 2/4/6/8 "
                     "(id, file, name, size, folder, webUrl, listItem all reachable)"],
           choices=["member values (string / object / number)", "non-object members", "one or two pages",
                    "answer without 'value'", "parent path"],
           assumptions=["member names of one JSON object are distinct"],
           outside=["objects with more than 2 members; names outside '@'..'z'"]),
    Kernel("K2", "fault at a symbolic request index: client-family error with status/URL, all responses closed, "
                 "retry on the healthy transport complete",
           k2_faults, targets=_t_walk, parts=_k2_parts,
           perturb=[("nothing_closed", {"lib": "a", "api": "all", "page": 1}),
                    ("status_plus_one", {"lib": "a", "api": "all", "page": 1})],
           stubs=[_TRANSPORT_STUB + " + one injected fault"],
           symbolic=["index of the failing request (compared with the running request counter at every request)",
                     "item facets in the 'sym' scenarios"],
           choices=["fault kind: HTTPError 401/404/429/500/503, URLError, truncated JSON with status 200, "
                    "status 500 / 300 / None without exception, 200 answer of token endpoint / site lookup without the "
                    "wanted member", "library preset or symbolic library, API variant, page size"],
           assumptions=["a 404 answer to a folder path lookup means 'no such folder' (protocol), not a failed request"],
           outside=["exceptions raised by response.read(), time-outs raised as bare OSError, well-formed JSON of the "
                    "wrong shape: not among the fault kinds the property lists",
                    "close() of the body carried by an HTTPError (not a response handed out by the transport)"],
           timeout={"quick": 200, "thorough": 1500}),
    Kernel("K3", "FileFilter.matches == (after <= t < before) & extension (case-insensitive) & pattern on full path",
           k3_matches, targets=_t_filter, parts=_k3_parts,
           perturb=[("before_inclusive", {"mode": "pat", "bounds": 15}),
                    ("after_exclusive", {"mode": "pat", "bounds": 15}),
                    ("pattern_on_name", {"mode": "pat", "bounds": 0}),
                    ("ext_case_sensitive", {"mode": "ext", "bounds": 0, "name_len": 5, "ext_lens": [4]})],
           stubs=["client._parse_iso_datetime -> abstract instant for the harness's timestamps (symbolic runs; replay "
                  "uses real ISO strings and the real parser)",
                  "client.fnmatch -> uninterpreted predicate of the pattern, arguments recorded (mode pat)"],
           symbolic=["all four bounds and both file instants as integers on a time line",
                     "every character of the file name and of each extension (mode ext)",
                     "fnmatch's answer per pattern"],
           choices=["which bounds are set (per part)", "created/modified absent, empty, unparseable or an instant",
                    "parent path absent/empty/one/two segments", "number of patterns"],
           assumptions=["filter bounds and file timestamps are timezone-aware (as in the documented examples)",
                        "ASCII names/extensions (str.lower beyond ASCII not modelled)"],
           outside=["fnmatch's own glob semantics"]),
    Kernel("K3b", "date bounds through list_files_filtered on real timestamp lexemes (fractions, zones)",
           k3b_bounds, targets=lambda: [_cm()._parse_iso_datetime, _cm().FileFilter.matches,
                                        _cm().SharePointRestClient.list_files_filtered],
           strength="structure", core=False, perturb=["after_exclusive"],
           stubs=[_TRANSPORT_STUB],
           choices=["fraction lexeme (none, .5, .25, .123, .999999, .7500000)", "zone lexeme (Z, +00:00, +02:00, -05:00)",
                    "which bound", "bound minus file instant in {0, +-1us, +-0.25s, +-0.5s, +-1s}"]),
]

META = {
    "level_text": "The real SharePointRestClient runs against a fake Graph transport that serves a library model "
                  "generated while the client walks it; every drive item's file/folder facets are symbolic, so the "
                  "client's own membership tests split the libraries and z3 decides each split. On every feasible path "
                  "(all libraries within the slots/depth/budget bound x page sizes x ten API/filter variants) the "
                  "listing is compared with a reference walk: every matching file once, nothing else, correct parent "
                  "and full path. Item classification is repeated on objects whose member names are symbolic strings; "
                  "FileFilter.matches is decided against a reference predicate over abstract instants, symbolic "
                  "names/extensions and an uninterpreted fnmatch; faults are injected at a symbolic request index for "
                  "ten fault kinds, checking the exception family/status/URL, close() on every response and a complete retry.",
    "level_note": "Trusted: the fake transport's reading of the Graph protocol (opaque nextLink, 404 for unknown "
                  "paths), urllib's quote/unquote. Bounds: <= 5 (thorough 7) members per library, depth <= 3, page size "
                  "1..3, <= 2 symbolic member names per object, names/extensions <= 8 ASCII characters.",
    "technique": "symbolic execution of the client methods on proxy drive items (symrun), lazy symbolic environment "
                 "model behind request_func, per-path SMT queries against reference walk / reference predicate, "
                 "fault index as a solver-decided comparison",
}
