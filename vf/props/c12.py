"""C12 - extraction cost bounded by input; the explicit limits hold exactly.

K1  explicit size limits are exact (read_file, 7z archive size, per-member tests of the three
    archive loops, per-entry test) and a refusal precedes any read of the payload
K2  a 7z member above the per-member limit is neither decompressed into memory nor written
K3  amplification arithmetic of the sequence-repetition sites (ODS repeat attributes, ODF
    text:s text:c, 7z number-of-files)
K4  every LZMA/LZMA2 decompress call is output-bounded by the declared unpack size
K5  XML parse sites refuse or bound internal-entity amplification
K6  nested archives (as the router sees them) are never handed on, whatever the spelling
"""
import io
import logging
import os
import sys
import tempfile

import z3

from vf.core import Kernel
from vf import symrun as S

MiB = 1024 * 1024
SIZE_HI = 2 ** 50
# "100 MB" of the property text, read the way the project itself writes it (read_file's
# docstring: "default: 100MB" next to 100 * 1024 * 1024)
DOC_LIMIT_100MB = 100 * MiB


def _ae():
    from sharepoint2text.parsing.extractors import archive_extractor as ae
    return ae


def _sz():
    from sharepoint2text.parsing.extractors.util import sevenzip as sz
    return sz


def _quiet():
    # log records would format (= concretise) symbolic sizes
    logging.disable(logging.CRITICAL)


# ---------------------------------------------------------------------------------------
# small logic layer working on python bools and proxies alike
# ---------------------------------------------------------------------------------------

def _is_sym(x):
    return isinstance(x, (S.SymBool, S.SymInt, S.SymBV, z3.ExprRef))


def _bz(x):
    return x if isinstance(x, z3.ExprRef) else S._zb(x)


def AND(*a):
    if any(_is_sym(x) for x in a):
        return z3.And(*[_bz(x) for x in a])
    return all(bool(x) for x in a)


def OR(*a):
    if any(_is_sym(x) for x in a):
        return z3.Or(*[_bz(x) for x in a])
    return any(bool(x) for x in a)


def NOT(a):
    if _is_sym(a):
        return z3.Not(_bz(a))
    return not a


def IMPL(a, b):
    return OR(NOT(a), b)


def _len(x):
    """``len`` as seen by the code under test in symbolic runs: stand-ins carry a declared
    (symbolic) length"""
    f = getattr(x, "sym_len", None)
    if f is not None:
        return f()
    return len(x)


def _over(ctx, size, limit, twin):
    """THE reading of the property text: a size is 'above' / 'larger than' / 'exceeds' a limit
    iff size > limit (the limit itself is accepted)"""
    if ctx.perturb == twin:
        return size >= limit
    return size > limit


# ---------------------------------------------------------------------------------------
# stand-ins shared by K1/K2
# ---------------------------------------------------------------------------------------

class FakeData(bytes):
    """member payload stand-in: no real content, a declared length (what zipfile / tarfile hand
    over for a member of that size)"""

    def __new__(cls, n):
        o = bytes.__new__(cls, b"")
        o.n = n
        return o

    def sym_len(self):
        return self.n

    def __len__(self):          # concrete replay only (symbolic runs use the len shadow)
        return int(self.n)


class Blob:
    """decompressed-folder stand-in: a declared length, slices give declared lengths"""

    def __init__(self, n):
        self.n = n

    def sym_len(self):
        return self.n

    def __len__(self):
        return int(self.n)

    def __getitem__(self, s):
        if not isinstance(s, slice):
            raise TypeError("Blob supports slices only")
        a = 0 if s.start is None else s.start
        b = self.n if s.stop is None else s.stop
        return Blob(b - a)


def _declared(data):
    return data.n if isinstance(data, (Blob, FakeData)) else len(data)


class SizedStream:
    """io.BytesIO stand-in whose length is a (symbolic) number; reads are recorded"""

    def __init__(self, n, log, head=b""):
        self.n, self.log, self.head, self.pos = n, log, head, 0

    def seek(self, off, whence=0):
        if whence == 2:
            self.log.append(("seek-end",))
            self.pos = self.n + off
        elif whence == 1:
            self.pos = self.pos + off
        else:
            self.pos = off
        return self.pos

    def tell(self):
        return self.pos

    def read(self, k=-1):
        self.log.append(("read", k))
        if isinstance(self.pos, int) and self.pos == 0 and isinstance(k, int) and k >= 0:
            return (self.head + b"\0" * k)[:k]
        return b""


class _RecFile:
    def __init__(self, log, real=None):
        self.log, self.real = log, real

    def __enter__(self):
        return self

    def __exit__(self, *a):
        if self.real is not None:
            self.real.close()
        return False

    def read(self, *a):
        self.log.append(("read",))
        return self.real.read(*a) if self.real is not None else b""


NAME_KINDS = [("{i}_a.txt", True), ("d/{i}_b.txt", True), ("{i}_c.bin", False),
              ("{i}_n.zip", False), (".{i}_h.txt", False)]


def _members(ctx, eligible_only=False):
    """1..N members: name kind by choice, declared size symbolic"""
    N = ctx.params.get("N", 2)
    n = 1 + ctx.choice("n_members", N)
    out = []
    for i in range(n):
        kind = 0 if eligible_only else ctx.choice(f"name_kind{i}", len(NAME_KINDS))
        size = ctx.fresh_int(f"size{i}", 0, SIZE_HI)
        out.append((NAME_KINDS[kind][0].format(i=i), NAME_KINDS[kind][1], size))
    return out


# tar member kinds of the 'tar_kinds' parts.  Only a regular member owns content (of symbolic size);
# a hard / symbolic link names another member (or nothing), its own header declares size 0
TAR_KINDS = ["reg", "dir", "lnk", "sym", "fifo"]


def _tar_members(ctx):
    """1..N tar members: name kind, member kind and (links) the member pointed at are choices.
    Returns ([(name, eligible, size)], {name: (kind, linkname)})"""
    import posixpath
    N = ctx.params.get("N", 2)
    name_set = ctx.params.get("names") or list(range(len(NAME_KINDS)))
    kind_set = ctx.params.get("tkinds") or [0, 1, 2, 3]
    fix = ctx.params.get("fix") or {}

    def pick(name, n):
        return fix[name] if name in fix else ctx.choice(name, n)

    n = 1 + ctx.choice("n_members", N)
    names, kinds = [], []
    for i in range(n):
        nk = name_set[pick(f"name_kind{i}", len(name_set))]
        names.append((NAME_KINDS[nk][0].format(i=i), NAME_KINDS[nk][1]))
        kinds.append(TAR_KINDS[kind_set[pick(f"tar_kind{i}", len(kind_set))]])
    out, meta = [], {}
    for i in range(n):
        nm, eligible = names[i]
        linkname = ""
        if kinds[i] in ("lnk", "sym"):
            others = [j for j in range(n) if j != i]
            t = ctx.choice(f"link_target{i}", n)         # one of the other members, or (last) nothing
            target = names[others[t]][0] if t < len(others) else "missing.txt"
            if kinds[i] == "sym":
                # a symbolic link's name is relative to the directory of the link
                linkname = posixpath.relpath(target, posixpath.dirname(nm) or ".")
            else:
                linkname = target
        size = ctx.fresh_int(f"size{i}", 0, SIZE_HI) if kinds[i] == "reg" else 0
        out.append((nm, eligible, size))
        meta[nm] = (kinds[i], linkname)
    return out, meta


def _rec_extractor(log):
    def get(basename):
        def extractor(file_bytes, path=None):
            log.append(("extract", path))
            yield ("unit", path)
        return extractor
    return get


# ---------------------------------------------------------------------------------------
# K1  explicit limits
# ---------------------------------------------------------------------------------------

def _k1_read_file(ctx):
    import pathlib
    import sharepoint2text as s2t
    from sharepoint2text.parsing.exceptions import ExtractionFileTooLargeError
    live = ctx.params["limits"] == "live"
    size = ctx.fresh_int("file_size", 0, SIZE_HI)
    limit = DOC_LIMIT_100MB if live else ctx.fresh_int("max_file_size", 0, SIZE_HI)
    log = []
    tmp = None
    real_file = ctx.concrete and size <= 4096     # replay small models on a real file
    if real_file:
        tmp = tempfile.mkdtemp(prefix="c12-")
        target = os.path.join(tmp, "x.txt")
        with open(target, "wb") as f:
            f.write(b"a" * size)
    else:
        target = "/nonexistent-c12/x.txt"

    class St:
        st_size = size

    def fake_stat(self, *a, **k):
        log.append(("stat",))
        return St()

    def fake_open(p, mode="r", *a, **k):
        log.append(("open",))
        return _RecFile(log, open(p, mode) if real_file else None)

    def fake_get_extractor(p):
        def extractor(file_like, path=None):
            yield ("unit", len(file_like.getvalue()))
        return extractor

    try:
        stubs = [ctx.stub(s2t, open=fake_open, get_extractor=fake_get_extractor)]
        if not real_file:
            stubs.append(ctx.stub(pathlib.Path, stat=fake_stat))
        for s_ in stubs:
            s_.__enter__()
        try:
            try:
                if live:
                    out = list(s2t.read_file(target))           # documented default applies
                else:
                    out = list(s2t.read_file(target, max_file_size=limit))
                refused = False
            except ExtractionFileTooLargeError:
                out, refused = None, True
            except Exception as e:
                out, refused = None, None
                ctx.fail("other-exception", exc=type(e).__name__, msg=str(e)[:100])
        finally:
            for s_ in reversed(stubs):
                s_.__exit__(None, None, None)
    finally:
        if tmp:
            import shutil
            shutil.rmtree(tmp, ignore_errors=True)
    if ctx.perturb == "zero_is_a_limit":
        expected = _over(ctx, size, limit, None)
    else:
        expected = AND(limit > 0, _over(ctx, size, limit, "limit_ge"))
    info = dict(site="read_file", refused=refused, real_file=bool(real_file))
    if refused:
        ctx.require(expected, "size-at-or-under-limit-refused", **info)
        ctx.require(not any(e[0] in ("open", "read") for e in log), "payload-touched-before-refusal",
                    log=log[:8], **info)
    else:
        ctx.require(NOT(expected), "oversize-accepted", **info)
        ctx.require(out is not None and len(out) == 1 and ("read",) in log, "accepted-file-not-extracted",
                    out=repr(out)[:80], **info)


class _FakeSZ:
    """archive_extractor.SevenZipFile stand-in: lists the given members, extractall writes a
    one-byte file for every member (what the real one does with real content)"""

    def __init__(self, log, members):
        self.log, self.members = log, members

    def __call__(self, file_like, mode="r", password=None):
        self.log.append(("szopen",))
        return self

    def __enter__(self):
        return self

    def __exit__(self, *a):
        return False

    def needs_password(self):
        return False

    def list(self):
        sz = _sz()
        return [sz.FileInfo(filename=nm, uncompressed=size, is_directory=False)
                for nm, _, size in self.members]

    def extractall(self, path):
        self.log.append(("extractall",))
        for nm, _, _ in self.members:
            p = os.path.join(path, nm)
            os.makedirs(os.path.dirname(p), exist_ok=True)
            with open(p, "wb") as f:
                f.write(b"x")


def _k1_7z_size(ctx):
    ae = _ae()
    from sharepoint2text.parsing.exceptions import ExtractionFileTooLargeError
    live = ctx.params["limits"] == "live"
    n = ctx.fresh_int("archive_size", 0, SIZE_HI)
    limit = DOC_LIMIT_100MB if live else ctx.fresh_int("limit_7z", 0, SIZE_HI)
    entry = ctx.choice("entry", 2)              # 0: the 7z routine itself, 1: via read_archive
    log = []
    st = SizedStream(n, log, head=b"7z\xbc\xaf\x27\x1c")
    stubs = {"SevenZipFile": _FakeSZ(log, [])}
    if not live:
        stubs["MAX_7Z_FILE_SIZE"] = limit
    with ctx.stub(ae, **stubs):
        fn = ae._extract_from_7z_optimized if entry == 0 else ae.read_archive
        try:
            list(fn(st, "x.7z"))
            refused = False
        except ExtractionFileTooLargeError:
            refused = True
        except Exception as e:
            refused = None
            ctx.fail("other-exception", exc=type(e).__name__, msg=str(e)[:100])
    expected = _over(ctx, n, limit, "limit_ge")
    info = dict(site="7z_size", entry=entry, refused=refused)
    first_end = next((i for i, e in enumerate(log) if e[0] == "seek-end"), len(log))
    after = log[first_end:]
    if refused:
        ctx.require(expected, "size-at-or-under-limit-refused", **info)
        ctx.require(not any(e[0] in ("read", "szopen", "extractall") for e in after),
                    "payload-touched-before-refusal", log=log[:8], **info)
    else:
        ctx.require(NOT(expected), "oversize-accepted", **info)
        ctx.require(("szopen",) in log, "accepted-archive-not-opened", log=log[:8], **info)


def _k1_entry(ctx):
    """_process_archive_entry: the per-entry test on the length of the data handed over"""
    ae = _ae()
    live = ctx.params["limits"] == "live"
    n = ctx.fresh_int("data_len", 0, SIZE_HI)
    limit = ae.MAX_ARCHIVE_FILE_SIZE if live else ctx.fresh_int("entry_limit", 0, SIZE_HI)
    log = []
    data = bytes(n) if (ctx.concrete and n <= 4096) else FakeData(n)
    stubs = {"_get_file_extractor_cached": _rec_extractor(log)}
    if not live:
        stubs["MAX_ARCHIVE_FILE_SIZE"] = limit
    with ctx.stub(ae, **stubs), ctx.shadow(ae, len=_len):
        try:
            out = list(ae._process_archive_entry("a.txt", data, "x.zip", "a.txt"))
        except Exception as e:
            out = None
            ctx.fail("other-exception", exc=type(e).__name__, msg=str(e)[:100])
    expected = _over(ctx, n, limit, "limit_ge")
    extracted = any(e[0] == "extract" for e in log)
    info = dict(site="entry", extracted=extracted)
    if extracted:
        ctx.require(NOT(expected), "oversize-accepted", **info)
        ctx.require(out == [("unit", "x.zip!/a.txt")], "accepted-entry-not-yielded", out=repr(out)[:80])
    else:
        ctx.require(expected, "size-at-or-under-limit-refused", **info)
        ctx.require(out == [], "skipped-entry-yielded", out=repr(out)[:80])


def _container_stubs(kind, log, members, tar_meta=None):
    """the names zipfile / tarfile / SevenZipFile as seen from archive_extractor"""
    import tarfile as real_tar
    import zipfile as real_zip

    class ZInfo:
        flag_bits = 0

        def __init__(self, nm, size):
            self.filename, self.file_size = nm, size
            # a well-compressing member: the compressed size says nothing about the cost
            self.compress_size = 1

        def is_dir(self):
            return False

    class ZF:
        def __init__(self, file_like, mode="r"):
            log.append(("zip-open",))

        def __enter__(self):
            return self

        def __exit__(self, *a):
            return False

        def infolist(self):
            return [ZInfo(nm, size) for nm, _, size in members]

        def read(self, info):
            log.append(("read", info.filename))
            return FakeData(info.file_size)

    class ZipMod:
        ZipFile = ZF
        BadZipFile = real_zip.BadZipFile

    TYPE_OF = {"reg": real_tar.REGTYPE, "dir": real_tar.DIRTYPE, "lnk": real_tar.LNKTYPE,
               "sym": real_tar.SYMTYPE, "fifo": real_tar.FIFOTYPE}

    class TMember:
        """tarfile.TarInfo stand-in: the header fields and type predicates of the real class"""
        mode, uid, gid, uname, gname, mtime, chksum, devmajor, devminor = 0o644, 0, 0, "", "", 0, 0, 0, 0
        offset = offset_data = 0
        pax_headers = {}
        sparse = None

        def __init__(self, nm, size, kind="reg", linkname=""):
            self.name, self.size, self.type, self.linkname = nm, size, TYPE_OF[kind], linkname

        path = property(lambda self: self.name)
        linkpath = property(lambda self: self.linkname)

        def isreg(self):
            return self.type in real_tar.REGULAR_TYPES

        def isfile(self):
            return self.isreg()

        def isdir(self):
            return self.type == real_tar.DIRTYPE

        def issym(self):
            return self.type == real_tar.SYMTYPE

        def islnk(self):
            return self.type == real_tar.LNKTYPE

        def ischr(self):
            return self.type == real_tar.CHRTYPE

        def isblk(self):
            return self.type == real_tar.BLKTYPE

        def isfifo(self):
            return self.type == real_tar.FIFOTYPE

        def issparse(self):
            return False

        def isdev(self):
            return self.type in (real_tar.CHRTYPE, real_tar.BLKTYPE, real_tar.FIFOTYPE)

    class TExtracted:
        """file object of the member that owns the content; ``opened`` is the member it was asked for"""

        def __init__(self, m, opened):
            self.m, self.opened = m, opened

        def __enter__(self):
            return self

        def __exit__(self, *a):
            return False

        def close(self):
            pass

        def read(self, *a):
            log.append(("read", self.m.name, self.opened.name))
            return FakeData(self.m.size)

    class TF:
        """tarfile.TarFile stand-in; extractfile / _find_link_target / _getmember follow the stdlib
        (3.12): a link's file object is its target's file object, symbolic links are resolved
        against the whole archive relative to the link's directory, hard links against the members
        before the link, an unresolvable link raises KeyError, other members without data give None"""

        def __init__(self):
            self.members = []
            for nm, _, size in members:
                kind, linkname = (tar_meta or {}).get(nm, ("reg", ""))
                self.members.append(TMember(nm, size, kind, linkname))

        def __enter__(self):
            return self

        def __exit__(self, *a):
            return False

        def __iter__(self):
            return iter(self.members)

        def getmembers(self):
            return list(self.members)

        def getnames(self):
            return [m.name for m in self.members]

        def _getmember(self, name, before=None):
            ms = self.members if before is None else self.members[:self.members.index(before)]
            name = os.path.normpath(name)
            for m in reversed(ms):
                if os.path.normpath(m.name) == name:
                    return m
            return None

        def getmember(self, name):
            m = self._getmember(name.rstrip("/"))
            if m is None:
                raise KeyError("filename %r not found" % name)
            return m

        def _find_link_target(self, m):
            if m.issym():
                linkname = "/".join(filter(None, (os.path.dirname(m.name), m.linkname)))
                t = self._getmember(linkname)
            else:
                linkname = m.linkname
                t = self._getmember(linkname, before=m)
            if t is None:
                raise KeyError("linkname %r not found" % linkname)
            return t

        def _open(self, m, opened, depth):
            if depth > 100:
                raise RecursionError("maximum recursion depth exceeded")     # a cycle of symbolic links
            if m.isreg() or m.type not in real_tar.SUPPORTED_TYPES:
                return TExtracted(m, opened)
            if m.islnk() or m.issym():
                return self._open(self._find_link_target(m), opened, depth + 1)
            return None

        def extractfile(self, m):
            if isinstance(m, str):
                m = self.getmember(m)
            log.append(("open-member", m.name))
            return self._open(m, m, 0)

    class TarMod:
        TarError = real_tar.TarError

        @staticmethod
        def open(fileobj=None, mode="r"):
            log.append(("tar-open",))
            return TF()

    if kind == "zip":
        return {"zipfile": ZipMod}
    if kind == "tar":
        return {"tarfile": TarMod}
    return {"SevenZipFile": _FakeSZ(log, members)}


def _k1_members(ctx):
    """the per-member size tests of the zip / tar / 7z loops + the per-entry test behind them"""
    ae = _ae()
    kind = ctx.params["site"]
    live = ctx.params["limits"] == "live"
    tar_meta = None
    if kind == "tar" and ctx.params.get("tar_kinds"):
        members, tar_meta = _tar_members(ctx)
    else:
        members = _members(ctx)
    if live:
        lm, le = ae._config.max_memory_size, ae.MAX_ARCHIVE_FILE_SIZE
    else:
        lm = ctx.fresh_int("member_limit", 0, SIZE_HI)
        le = ae.MAX_ARCHIVE_FILE_SIZE if kind == "7z" else ctx.fresh_int("entry_limit", 0, SIZE_HI)
    log = []
    stubs = _container_stubs(kind, log, members, tar_meta)
    stubs["_get_file_extractor_cached"] = _rec_extractor(log)
    if not live:
        stubs["_config"] = ae.ArchiveConfig(max_memory_size=lm)
        if kind != "7z":
            stubs["MAX_ARCHIVE_FILE_SIZE"] = le
    fn = {"zip": ae._extract_from_zip_optimized, "tar": ae._extract_from_tar_optimized,
          "7z": ae._extract_from_7z_optimized}[kind]
    with ctx.stub(ae, **stubs), ctx.shadow(ae, len=_len):
        try:
            out = list(fn(io.BytesIO(b"\0" * 64), "x." + kind))
        except Exception as e:
            out = None
            ctx.fail("other-exception", exc=type(e).__name__, msg=str(e)[:100])
    size_of = {nm: size for nm, _, size in members}
    tkind = {nm: (tar_meta[nm][0] if tar_meta else "reg") for nm, _, _ in members}
    for nm, eligible, size in members:
        if tkind[nm] != "reg":
            continue
        # the member's content was asked for / delivered: under its own name, or (tar) through a
        # link member that names it - tarfile.extractfile() follows links
        was_read = any(e[0] in ("read", "open-member") and e[1] == nm for e in log)
        via = sorted({e[2] for e in log if e[0] == "read" and e[1] == nm and len(e) > 2 and e[2] != nm})
        extracted = any(e[0] == "extract" and e[1].endswith("!/" + nm) for e in log)
        over_m = _over(ctx, size, lm, "member_ge")
        # what the 7z loop hands to the per-entry test is the extracted file, not the declared size
        over_e = False if kind == "7z" else _over(ctx, size, le, "entry_ge")
        info = dict(site=kind, member=nm, read=was_read, extracted=extracted)
        if tar_meta:
            info.update(read_through=via, tar_kinds=[tkind[n] for n, _, _ in members],
                        linknames=[tar_meta[n][1] for n, _, _ in members])
        if kind != "7z":
            if was_read:
                ctx.require(NOT(over_m), "oversize-member-read", **info)
            elif eligible:
                ctx.require(over_m, "member-within-limit-skipped", **info)
        if extracted:
            ctx.require(AND(NOT(over_m), NOT(over_e)), "oversize-member-extracted", **info)
        elif eligible:
            ctx.require(OR(over_m, over_e), "member-within-limits-not-extracted", **info)
    if not tar_meta:
        return
    # members that own no content (directories, links, fifos): the property does not say whether a
    # link is to be extracted, only that whatever is handed on stays within the limits
    for nm, eligible, _ in members:
        if tkind[nm] == "reg":
            continue
        owners = sorted({e[1] for e in log if e[0] == "read" and len(e) > 2 and e[2] == nm})
        extracted = any(e[0] == "extract" and e[1].endswith("!/" + nm) for e in log)
        info = dict(site=kind, member=nm, member_kind=tkind[nm], linkname=tar_meta[nm][1], content_of=owners,
                    extracted=extracted)
        if ctx.perturb == "links_are_files" and eligible and tkind[nm] in ("lnk", "sym"):
            ctx.require(bool(owners), "link-member-not-read", **info)
        if extracted:
            ctx.require(bool(owners), "member-without-content-extracted", **info)
            for o in owners:
                ctx.require(AND(NOT(_over(ctx, size_of[o], lm, "member_ge")),
                                NOT(_over(ctx, size_of[o], le, "entry_ge"))),
                            "oversize-member-extracted", through=nm, **dict(info, member=o))


def k1_constants(ctx):
    """the live numbers behind the documented limits"""
    import inspect
    import sharepoint2text as s2t
    ae = _ae()
    which = ctx.choice("fact", 3)
    if which == 0:
        ctx.require(ae.MAX_7Z_FILE_SIZE == DOC_LIMIT_100MB, "7z-limit-is-not-100MB", live=ae.MAX_7Z_FILE_SIZE)
    elif which == 1:
        d = inspect.signature(s2t.read_file).parameters["max_file_size"].default
        ctx.require(d == DOC_LIMIT_100MB, "read_file-default-is-not-100MB", live=d)
    else:
        ctx.require(0 < ae._config.max_memory_size <= ae.MAX_ARCHIVE_FILE_SIZE,
                    "per-member-limit-not-positive-or-above-entry-limit",
                    member=ae._config.max_memory_size, entry=ae.MAX_ARCHIVE_FILE_SIZE)


def k1(ctx):
    _quiet()
    site = ctx.params["site"]
    if site == "read_file":
        return _k1_read_file(ctx)
    if site == "7z_size":
        return _k1_7z_size(ctx)
    if site == "entry":
        return _k1_entry(ctx)
    return _k1_members(ctx)


def _k1_parts(tier):
    N = 2 if tier == "quick" else 4
    parts = []
    for lim in ("symbolic", "live"):
        for site in ("read_file", "7z_size", "entry"):
            parts.append({"site": site, "limits": lim})
        for site in ("zip", "tar", "7z"):
            parts.append({"site": site, "limits": lim, "N": N})
        # tar members of every kind (regular, directory, hard link, symbolic link; thorough: fifo),
        # links pointing at another member or at nothing; one part per kind of the first member(s)
        if tier == "quick":
            for k0 in range(4):
                parts.append({"site": "tar", "limits": lim, "N": 2, "tar_kinds": True, "names": [0, 1, 2],
                              "fix": {"tar_kind0": k0}})
        else:
            for k0 in range(5):
                parts.append({"site": "tar", "limits": lim, "N": 2, "tar_kinds": True, "tkinds": [0, 1, 2, 3, 4],
                              "fix": {"tar_kind0": k0}})
                for k1 in range(5):
                    parts.append({"site": "tar", "limits": lim, "N": 3, "tar_kinds": True, "names": [0, 1],
                                  "tkinds": [0, 1, 2, 3, 4], "fix": {"tar_kind0": k0, "tar_kind1": k1}})
    return parts


def _k1_targets():
    import sharepoint2text as s2t
    ae = _ae()
    return [s2t.read_file, ae.read_archive, ae._extract_from_7z_optimized, ae._process_archive_entry,
            ae._extract_from_zip_optimized, ae._extract_from_tar_optimized, ae._process_7z_files_sequential,
            ae._should_skip_file]


# ---------------------------------------------------------------------------------------
# K2  skipped means not decompressed (7z)
# ---------------------------------------------------------------------------------------

def write_7z(files, solid=True, coder="copy", declared=None):
    """minimal 7z writer (one coder per folder, unencoded header).
    files: [(name, bytes)]; solid: one folder for all files, else one folder per file;
    coder: 'copy' | 'lzma2'; declared: optional list overriding the folders' declared unpack sizes
    (and so the last file size of each folder)"""
    import lzma
    import struct
    import zlib

    def num(v):
        # 7z variable length number
        for extra in range(8):
            if v < (1 << (7 * (extra + 1))):
                first = ((0xFF << (8 - extra)) & 0xFF) | (v >> (8 * extra))
                return bytes([first]) + (v & ((1 << (8 * extra)) - 1)).to_bytes(extra, "little")
        return b"\xff" + v.to_bytes(8, "little")

    groups = [files] if solid else [[f] for f in files]
    groups = [g for g in groups if g]
    packs, unpack = [], []
    for g in groups:
        raw = b"".join(d for _, d in g)
        unpack.append(len(raw))
        if coder == "copy":
            packs.append(raw)
        else:
            packs.append(lzma.compress(raw, format=lzma.FORMAT_RAW,
                                       filters=[{"id": lzma.FILTER_LZMA2, "dict_size": 1 << 16}]))
    if declared is not None:
        unpack = list(declared)
    h = bytearray([0x01])                                   # HEADER
    if groups:
        h += bytes([0x04])                                  # MAIN_STREAMS_INFO
        h += bytes([0x06]) + num(0) + num(len(packs)) + bytes([0x09])
        for p in packs:
            h += num(len(p))
        h += bytes([0x00])
        h += bytes([0x07, 0x0B]) + num(len(groups)) + bytes([0x00])
        for _ in groups:
            if coder == "copy":
                h += num(1) + bytes([0x01, 0x00])
            else:
                h += num(1) + bytes([0x21, 0x21]) + num(1) + bytes([0x10])   # LZMA2, 1 property byte
        h += bytes([0x0C])
        for u in unpack:
            h += num(u)
        h += bytes([0x00])
        h += bytes([0x08, 0x0D])                            # SUBSTREAMS_INFO / NUM_UNPACK_STREAM
        for g in groups:
            h += num(len(g))
        h += bytes([0x09])
        for g in groups:
            for _, d in g[:-1]:
                h += num(len(d))
        h += bytes([0x00])
        h += bytes([0x00])
    h += bytes([0x05]) + num(len(files))                    # FILES_INFO
    names = b"".join(nm.encode("utf-16-le") + b"\0\0" for nm, _ in files)
    h += bytes([0x11]) + num(len(names) + 1) + bytes([0x00]) + names
    h += bytes([0x00])
    h += bytes([0x00])
    body = b"".join(packs)
    start = struct.pack("<QQI", len(body), len(h), zlib.crc32(bytes(h)) & 0xFFFFFFFF)
    return (b"7z\xbc\xaf\x27\x1c" + bytes([0, 4]) + struct.pack("<I", zlib.crc32(start) & 0xFFFFFFFF)
            + start + body + bytes(h))


class _RecWriter:
    def __init__(self, path, log):
        self.path, self.log = path, log
        self.f = open(path, "wb")

    def __enter__(self):
        return self

    def __exit__(self, *a):
        self.f.close()
        return False

    def write(self, data):
        self.log.append(("write", os.path.basename(self.path), _declared(data)))
        self.f.write(b"x" if isinstance(data, Blob) else data)

    def close(self):
        self.f.close()


def _rec_open(log):
    def rec_open(path, mode="r", *a, **k):
        if "w" in mode:
            return _RecWriter(path, log)
        return open(path, mode, *a, **k)
    return rec_open


def _k2_judge(ctx, log, members, folders, lm):
    """members: [(name, size)], folders: [[member indexes]]"""
    facet = ctx.params["facet"]
    over = [_over(ctx, size, lm, "member_ge") for _, size in members]
    if facet == "disk":
        for i, (nm, size) in enumerate(members):
            written = any(e[0] == "write" and e[1] == nm for e in log)
            if written:
                ctx.require(NOT(over[i]), "oversize-member-decompressed", facet="disk", member=nm,
                            log=[e[:2] for e in log][:10])
    else:
        for fi, idxs in enumerate(folders):
            if any(e[0] == "decompress" and e[1] == fi for e in log):
                # a folder may be decompressed for the sake of a member that is wanted
                ctx.require(OR(*[NOT(over[i]) for i in idxs]), "oversize-member-decompressed", facet="memory",
                            folder=fi, log=[e[:2] for e in log][:10])
    for i, (nm, size) in enumerate(members):
        extracted = any(e[0] == "extract" and e[1].endswith("!/" + nm) for e in log)
        if extracted:
            ctx.require(NOT(over[i]), "oversize-member-extracted", member=nm)
        else:
            ctx.require(over[i], "member-within-limit-not-extracted", member=nm)


def _k2_fake(ctx):
    """the real SevenZipFile / SevenZipReader.extractall / _extract_files_from_folder /
    _build_file_list on a reader whose header tables are given (member sizes symbolic) and whose
    folder decompression and file writes are recorded"""
    ae, sz = _ae(), _sz()
    layout = ctx.params["layout"]
    N = ctx.params.get("N", 2)
    n = 1 + ctx.choice("n_members", N)
    lm = ctx.fresh_int("member_limit", 0, SIZE_HI)
    sizes = [ctx.fresh_int(f"size{i}", 0, SIZE_HI) for i in range(n)]
    if ctx.params.get("assume_within"):
        for s_ in sizes:
            ctx.assume(s_ <= lm)
    names = [f"m{i}.txt" for i in range(n)]
    groups = [list(range(n))] if layout == "solid" else [[i] for i in range(n)]
    log = []
    rd = object.__new__(sz.SevenZipReader)
    stream = io.BytesIO(b"\0" * 64)
    rd._archive_file = rd._stream = stream
    rd._files, rd._folder_to_files = [], {}
    rd._header_offset = 32
    rd._pack_positions, rd._pack_sizes = [32], [8] * len(groups)
    rd._file_sizes = list(sizes)
    rd._folders = []
    for g in groups:
        tot = sizes[g[0]]
        for i in g[1:]:
            tot = tot + sizes[i]
        rd._folders.append(sz.Folder(coders=[(sz.CODER_COPY, None)], unpack_sizes=[tot], num_streams=len(g)))

    def rec_decompress(folder, pack_pos, pack_sizes, source_file=None):
        fi = next(i for i, f in enumerate(rd._folders) if f is folder)
        log.append(("decompress", fi))
        return Blob(folder.unpack_sizes[-1])

    rd._decompress_folder = rec_decompress
    with ctx.shadow(sz, len=_len):
        rd._build_file_list(n, [False] * n, names, [0] * n)
    with ctx.stub(sz, SevenZipReader=lambda f: rd, open=_rec_open(log)), \
            ctx.stub(ae, _config=ae.ArchiveConfig(max_memory_size=lm),
                     _get_file_extractor_cached=_rec_extractor(log)), \
            ctx.shadow(sz, len=_len), ctx.shadow(ae, len=_len):
        try:
            list(ae._extract_from_7z_optimized(stream, "x.7z"))
        except Exception as e:
            ctx.fail("other-exception", exc=type(e).__name__, msg=str(e)[:100])
    _k2_judge(ctx, log, list(zip(names, sizes)), groups, lm)


def _k2_real(ctx):
    """a real 7z archive (COPY coder, one solid folder) through the public read_archive with the
    real parser, real extractall and real disk writes; the recorders only observe"""
    ae, sz = _ae(), _sz()
    N = ctx.params.get("N", 2)
    lm = 64
    n = 1 + ctx.choice("n_members", N)
    sizes = [lm - 1 + ctx.choice(f"size_class{i}", 3) for i in range(n)]
    if ctx.params.get("assume_within"):
        ctx.assume(all(s_ <= lm for s_ in sizes))
    names = [f"m{i}.txt" for i in range(n)]
    archive = write_7z([(nm, bytes([97 + i]) * s_) for i, (nm, s_) in enumerate(zip(names, sizes))])
    log = []
    real_dec = sz.SevenZipReader._decompress_folder

    def dec_wrap(self, folder, pack_pos, pack_sizes, source_file=None):
        out = real_dec(self, folder, pack_pos, pack_sizes, source_file=source_file)
        fi = next((i for i, f in enumerate(self._folders) if f is folder), None)
        if fi is not None and self._files:
            log.append(("decompress", fi, len(out)))
        return out

    with ctx.stub(sz.SevenZipReader, _decompress_folder=dec_wrap), ctx.stub(sz, open=_rec_open(log)), \
            ctx.stub(ae, _config=ae.ArchiveConfig(max_memory_size=lm),
                     _get_file_extractor_cached=_rec_extractor(log)):
        try:
            list(ae.read_archive(io.BytesIO(archive), "x.7z"))
        except Exception as e:
            ctx.fail("other-exception", exc=type(e).__name__, msg=str(e)[:100])
    _k2_judge(ctx, log, list(zip(names, sizes)), [list(range(n))], lm)


def k2(ctx):
    _quiet()
    if ctx.params["layout"] == "real":
        return _k2_real(ctx)
    return _k2_fake(ctx)


def _k2_parts(tier):
    N = 2 if tier == "quick" else 4
    return [{"layout": lay, "facet": fc, "N": N} for lay in ("split", "solid", "real")
            for fc in ("disk", "memory")]


def _k2_targets():
    ae, sz = _ae(), _sz()
    return [ae._extract_from_7z_optimized, ae._process_7z_files_sequential, sz.SevenZipFile.extractall,
            sz.SevenZipReader.extractall, sz.SevenZipReader._extract_files_from_folder,
            sz.SevenZipReader._build_file_list, sz.SevenZipReader.list]


# ---------------------------------------------------------------------------------------
# K3  amplification arithmetic
# ---------------------------------------------------------------------------------------

NS_TABLE = "urn:oasis:names:tc:opendocument:xmlns:table:1.0"
NS_TEXT = "urn:oasis:names:tc:opendocument:xmlns:text:1.0"
NS_OFFICE = "urn:oasis:names:tc:opendocument:xmlns:office:1.0"
NS_DRAW = "urn:oasis:names:tc:opendocument:xmlns:drawing:1.0"
REPEAT_HI = 10 ** 18 - 1

_ACCT = None


class _Acct:
    """allocation ledger: one entry per executed ``sequence * count`` of repository code"""

    def __init__(self):
        self.events = []        # (file, function, line, blank, len(seq), count, allocated)


def _blank(x):
    """the repeated thing carries no value (None / empty text, nested): what the ODS caps are about"""
    if x is None:
        return True
    if isinstance(x, (list, tuple)):
        return all(_blank(y) for y in x)
    return isinstance(x, (str, bytes)) and len(x) == 0


def _repeat(seq, count):
    """sequence repetition by a counted integer, never materialised: the ledger gets
    len(seq) * max(count, 0); the program continues with min(count, 2) copies (enough for every
    later emptiness / all-None test to come out as on the full sequence)"""
    f = sys._getframe(2)
    fn = f.f_code.co_filename
    site = (fn[len(S.REPO) + 1:] if fn.startswith(S.REPO + "/") else fn, f.f_code.co_name, f.f_lineno,
            _blank(seq))
    if count <= 0:
        _ACCT.events.append(site + (len(seq), count, 0))
        return seq[:0]
    _ACCT.events.append(site + (len(seq), count, len(seq) * count))
    if count == 1:
        return seq[:]
    return seq + seq


_SEQ = (list, tuple, str, bytes)


class RepInt(S.SymInt):
    """symbolic int whose product with a sequence is the counted repetition"""
    __slots__ = ()

    def __mul__(self, o):
        if isinstance(o, _SEQ):
            return _repeat(o, self)
        return S.SymInt.__mul__(self, o)

    def __rmul__(self, o):
        if isinstance(o, _SEQ):
            return _repeat(o, self)
        return S.SymInt.__rmul__(self, o)


class CountInt(int):
    """the same for concrete replay (a real int, so everything else behaves natively)"""

    def __mul__(self, o):
        if isinstance(o, _SEQ):
            return _repeat(o, int(self))
        return int.__mul__(self, o)

    def __rmul__(self, o):
        if isinstance(o, _SEQ):
            return _repeat(o, int(self))
        return int.__rmul__(self, o)


def _int_stub(table):
    """the name ``int`` as seen by the module under test: attribute strings become counted
    integers (markers map to the symbolic variables)"""
    def fake_int(x=0, *a):
        if isinstance(x, str):
            if x in table:
                return table[x]
            return CountInt(int(x, *a))
        return int(x, *a)
    return fake_int


class _Attr:
    """a numeric attribute of the input document: symbolic value, decimal text"""

    def __init__(self, ctx, name, table):
        self.v = ctx.fresh_int(name, -9, REPEAT_HI)
        if ctx.concrete:
            self.text = str(self.v)
        else:
            self.text = "@%s@" % name
            table[self.text] = RepInt(self.v.z)

    def digits(self):
        """length of the decimal text of the value (what the attribute costs in input bytes)"""
        if isinstance(self.v, int):
            return len(str(self.v))
        z = self.v.z
        a = z3.If(z < 0, -z, z)
        d = z3.IntVal(18)
        for k in range(17, 0, -1):
            d = z3.If(a < 10 ** k, z3.IntVal(k), d)
        return S.SymInt(z3.If(z < 0, d + 1, d))


def _xml_bytes(elem, attrs):
    """serialized size of the element with the attributes' decimal texts"""
    from xml.etree import ElementTree as ET
    raw = ET.tostring(elem)
    n = len(raw)
    for a in attrs:
        n = n - len(a.text.encode()) + a.digits()
    return n


KNOWN_ODS_VALUE_REPEAT = "C12-ods-repeat-uncapped"


def _k3_judge(ctx, input_bytes, extra=None, known_class=None):
    """known_class: (finding id, predicate over a ledger event).  While the driver found that known
    finding still reproducing (params['known_active']; its pinned witness is replayed without it on
    every run), events of exactly its class are not judged again: their counterexamples would use up
    the engine's per-part counterexample budget (exploration stops after 60) and the rest of the
    part - where OTHER defects live - would never be visited.  Everything else on the path is
    judged as usual."""
    K = 0 if ctx.perturb == "zero_multiple" else ctx.params["K"]
    excl = None
    if known_class and not ctx.perturb and known_class[0] in (ctx.params.get("known_active") or ()):
        excl = known_class[1]
    judged = 0
    for ev in _ACCT.events:
        (fn, func, line, blank, seqlen, count, alloc) = ev
        if excl is not None and excl(ev):
            ctx.note("event-in-class-of-known-finding:" + known_class[0])
            continue
        judged += 1
        ctx.require(alloc <= K * input_bytes, "allocation-exceeds-multiple-of-input",
                    site=func, file=fn, line=line, blank=blank, K=K, **(extra or {}))
    if not judged:
        ctx.require(True, "no-repetition-outside-known-class")


# ODF 1.2 part 1, 9.1: the elements that may carry a column in a table:table-row, and the elements
# that may stand between table:table and its rows.  Index 0 is the plain form.
ODS_CELL_ELEMS = ["table-cell", "covered-table-cell"]
ODS_ROW_WRAPS = [(), ("table-row-group",), ("table-header-rows",), ("table-rows",),
                 ("table-row-group", "table-row-group"), ("table-row-group", "table-header-rows")]
# content of a cell element.  0..2 as before; the others are further ways for a cell to carry NO
# value (what the property's "declared dimensions" are about: sheet filler in all its spellings)
ODS_CELL_KINDS = ["empty", "string", "float", "empty+comment", "typed-without-value", "empty-paragraph",
                  "empty+span-attributes"]
ODS_VALUELESS = (0, 3, 4, 5, 6)


def _ods_fill_cell(ET, c, kind):
    if kind == 1:
        c.set(f"{{{NS_OFFICE}}}value-type", "string")
        ET.SubElement(c, f"{{{NS_TEXT}}}p").text = "x"
    elif kind == 2:
        c.set(f"{{{NS_OFFICE}}}value-type", "float")
        c.set(f"{{{NS_OFFICE}}}value", "1")
    elif kind == 3:
        # a comment attached to an empty cell: its paragraphs are not the cell's value
        an = ET.SubElement(c, f"{{{NS_OFFICE}}}annotation")
        ET.SubElement(an, f"{{{NS_TEXT}}}p").text = "n"
    elif kind == 4:
        c.set(f"{{{NS_OFFICE}}}value-type", "float")       # declared type, no office:value, no text
    elif kind == 5:
        ET.SubElement(c, f"{{{NS_TEXT}}}p")                 # <text:p/>
    elif kind == 6:
        c.set(f"{{{NS_TABLE}}}number-columns-spanned", "1")
        c.set(f"{{{NS_TABLE}}}number-rows-spanned", "1")


def _k3_ods(ctx):
    """one table:table of ``rows`` rows (each with its own number-rows-repeated) of ``cells`` column
    carrying elements (each with its own number-columns-repeated); element name, content kind and
    the grouping elements around the rows are choices"""
    from xml.etree import ElementTree as ET
    from sharepoint2text.parsing.extractors.open_office import ods_extractor as ods
    table = {}
    ncells = ctx.params.get("cells", 1)
    nrows = ctx.params.get("rows", 1)
    kind_set = ctx.params.get("kinds") or list(range(len(ODS_CELL_KINDS)))
    wrap_set = ctx.params.get("wraps") or list(range(len(ODS_ROW_WRAPS)))
    t = ET.Element(f"{{{NS_TABLE}}}table", {f"{{{NS_TABLE}}}name": "s"})
    attrs, kinds, elems, wraps = [], [], [], []
    fix = ctx.params.get("fix") or {}

    def pick(name, n):
        # a choice, unless the part pins it (partition of the structure space over the pool)
        return fix[name] if name in fix else ctx.choice(name, n)

    for r in range(nrows):
        sfx = "" if r == 0 else f"_r{r}"
        wrap = wrap_set[pick("row_wrap" + sfx, len(wrap_set))]
        wraps.append(wrap)
        parent = t
        for w in ODS_ROW_WRAPS[wrap]:
            parent = ET.SubElement(parent, f"{{{NS_TABLE}}}{w}")
        row = ET.SubElement(parent, f"{{{NS_TABLE}}}table-row")
        a = _Attr(ctx, "row_repeat" + sfx, table)
        attrs.append(a)
        row.set(f"{{{NS_TABLE}}}number-rows-repeated", a.text)
        for i in range(ncells):
            kind = kind_set[pick(f"cell_kind{i}{sfx}", len(kind_set))]
            elem = pick(f"cell_elem{i}{sfx}", len(ODS_CELL_ELEMS))
            kinds.append(kind)
            elems.append(elem)
            c = ET.SubElement(row, f"{{{NS_TABLE}}}{ODS_CELL_ELEMS[elem]}")
            a = _Attr(ctx, f"cell_repeat{i}{sfx}", table)
            attrs.append(a)
            c.set(f"{{{NS_TABLE}}}number-columns-repeated", a.text)
            _ods_fill_cell(ET, c, kind)
    with ctx.stub(ods, int=_int_stub(table)):
        try:
            ods._extract_sheet(None, t, 1, 0)
        except Exception as e:
            ctx.fail("other-exception", exc=type(e).__name__, msg=str(e)[:100])
    _k3_judge(ctx, _xml_bytes(t, attrs),
              {"cell_kinds": [ODS_CELL_KINDS[k] for k in kinds], "cell_elems": [ODS_CELL_ELEMS[e] for e in elems],
               "row_wraps": ["/".join(ODS_ROW_WRAPS[w]) for w in wraps]},
              known_class=(KNOWN_ODS_VALUE_REPEAT, lambda ev: ev[1] == "_extract_sheet" and not ev[3]))


def _k3_text(ctx):
    """text:s text:c=N through the shared ODF text walker (used by ODT/ODP/ODS/ODG/ODF) and through
    the ODT caption reader"""
    from xml.etree import ElementTree as ET
    from sharepoint2text.parsing.extractors.open_office import _shared as sh
    from sharepoint2text.parsing.extractors.open_office import odt_extractor as odt
    table = {}
    driver = ctx.params["driver"]
    p = ET.Element(f"{{{NS_TEXT}}}p")
    p.text = "ab"
    holder = p
    if ctx.flag("inside_span"):
        holder = ET.SubElement(p, f"{{{NS_TEXT}}}span")
    s_ = ET.SubElement(holder, f"{{{NS_TEXT}}}s")
    s_.tail = "cd"
    a = _Attr(ctx, "text_c", table)
    s_.set(f"{{{NS_TEXT}}}c", a.text)
    stub = _int_stub(table)
    with ctx.stub(sh, int=stub), ctx.stub(odt, int=stub):
        try:
            if driver == "shared_text":
                odt._get_text_recursive(p)
            else:
                odt._extract_caption_from_paragraph(p)
        except Exception as e:
            ctx.fail("other-exception", exc=type(e).__name__, msg=str(e)[:100])
    _k3_judge(ctx, _xml_bytes(p, [a]))


class _NumStream:
    """header stream stand-in for the 7z files-info parser: the first number is the declared
    number of files, the property list that follows is empty"""

    def __init__(self, first, nbytes):
        self.first, self.nbytes, self.pos, self.numbers = first, nbytes, 0, 0

    def tell(self):
        return self.pos

    def seek(self, p, whence=0):
        # a header of ``nbytes`` bytes after the declared number
        self.pos = (self.nbytes + p) if whence == 2 else p
        return self.pos

    def read(self, k=-1):
        return b"\0" * max(k, 0)


def _k3_7z(ctx):
    """declared number of files of a 7z header (a 1..9 byte number): three flag/name/attribute
    lists of that length are allocated before anything else of the header is looked at"""
    sz = _sz()
    nf = ctx.fresh_int("num_files", 0, 2 ** 64 - 1)
    rd = object.__new__(sz.SevenZipReader)
    rd._stream = _NumStream(nf, 9)
    rd._files, rd._folders, rd._file_sizes, rd._folder_to_files = [], [], [], {}
    state = {"n": 0}

    def read_number():
        state["n"] += 1
        if state["n"] == 1:
            return CountInt(nf) if ctx.concrete else RepInt(nf.z)
        return 0

    rd._read_number = read_number
    rd._read_uint8 = lambda: sz.PROP_END
    built = []
    rd._build_file_list = lambda n, e, names, attrs: built.append(n)     # a loop over range(num_files)
    try:
        rd._parse_files_info()
    except sz.Bad7zFile:
        pass            # refused before anything was allocated: bounded
    except Exception as e:
        ctx.fail("other-exception", exc=type(e).__name__, msg=str(e)[:100])
    # the smallest archive carrying this header: 32-byte signature header + HEADER, FILES_INFO,
    # the number (<= 9 bytes), END, END
    _k3_judge(ctx, 32 + 2 + 9 + 2)


def k3(ctx):
    global _ACCT
    _quiet()
    _ACCT = _Acct()
    d = ctx.params["driver"]
    if d == "ods_sheet":
        return _k3_ods(ctx)
    if d == "7z_num_files":
        return _k3_7z(ctx)
    return _k3_text(ctx)


K3_DRIVERS = {
    ("sharepoint2text/parsing/extractors/open_office/ods_extractor.py", "_extract_sheet"): "ods_sheet",
    ("sharepoint2text/parsing/extractors/open_office/_shared.py", "_append_element_text"): "shared_text",
    ("sharepoint2text/parsing/extractors/open_office/odt_extractor.py", "_extract_caption_from_paragraph"): "odt_caption",
    ("sharepoint2text/parsing/extractors/util/sevenzip.py", "_parse_files_info"): "7z_num_files",
    # [True] * count of _read_boolean_vector: count is the same declared number of files / streams;
    # reached only after the lists of _parse_files_info exist
    ("sharepoint2text/parsing/extractors/util/sevenzip.py", "_read_boolean_vector"): "7z_num_files",
}


def _repetition_sites():
    """AST scan of the anchored packages: every ``<sequence display or string constant> * <non
    constant>`` (either order) with the enclosing function"""
    import ast
    import glob
    files = sorted(glob.glob(S.REPO + "/sharepoint2text/parsing/extractors/open_office/*.py")) + \
        [S.REPO + "/sharepoint2text/parsing/extractors/util/sevenzip.py",
         S.REPO + "/sharepoint2text/parsing/extractors/archive_extractor.py"]
    out = set()

    def is_seq(n):
        return isinstance(n, (ast.List, ast.Tuple, ast.JoinedStr)) or \
            (isinstance(n, ast.Constant) and isinstance(n.value, (str, bytes)))

    for fn in files:
        tree = ast.parse(open(fn, encoding="utf-8").read())
        for func in ast.walk(tree):
            if not isinstance(func, (ast.FunctionDef, ast.AsyncFunctionDef)):
                continue
            for n in ast.walk(func):
                if isinstance(n, ast.BinOp) and isinstance(n.op, ast.Mult):
                    for a, b in ((n.left, n.right), (n.right, n.left)):
                        if is_seq(a) and not isinstance(b, ast.Constant):
                            out.add((fn[len(S.REPO) + 1:], func.name))
    return out


def k3_sites(ctx):
    """every sequence-repetition site of the anchored modules has a K3 driver"""
    sites = sorted(_repetition_sites())
    ctx.require(bool(sites) or True, "scan")
    i = ctx.choice("site", max(len(sites), 1))
    if not sites:
        return
    ctx.require(sites[i] in K3_DRIVERS, "repetition-site-without-driver", site=list(sites[i]))


def _ods_parts(K, cells, rows=1, kinds=None, wraps=None, split=()):
    """parts of the ODS driver: the choices named in ``split`` are pinned, one part per combination"""
    import itertools
    nk = len(kinds) if kinds else len(ODS_CELL_KINDS)
    nw = len(wraps) if wraps else len(ODS_ROW_WRAPS)
    dom = {"row_wrap": nw, "cell_kind0": nk, "cell_elem0": len(ODS_CELL_ELEMS),
           "cell_kind1": nk, "cell_elem1": len(ODS_CELL_ELEMS), "row_wrap_r1": nw}
    base = {"driver": "ods_sheet", "cells": cells, "K": K}
    if rows != 1:
        base["rows"] = rows
    if kinds:
        base["kinds"] = list(kinds)
    if wraps:
        base["wraps"] = list(wraps)
    out = []
    for combo in itertools.product(*[range(dom[n]) for n in split]):
        p = dict(base)
        if split:
            p["fix"] = dict(zip(split, combo))
        out.append(p)
    return out


def _k3_parts(tier):
    Ks = [4096] if tier == "quick" else [4096, 2 ** 20]
    parts = []
    for K in Ks:
        # a row without any column element, plain or grouped
        parts += _ods_parts(K, 0)
        # one column element: the whole alphabet (7 contents x 2 element names x 6 row groupings)
        parts += _ods_parts(K, 1, split=("cell_elem0",))
        # two column elements: empty / string / float x both element names
        parts += _ods_parts(K, 2, kinds=(0, 1, 2), wraps=(0,), split=("cell_elem0", "cell_kind0"))
        parts += [{"driver": "shared_text", "K": K}, {"driver": "odt_caption", "K": K},
                  {"driver": "7z_num_files", "K": K}]
    if tier == "thorough":
        # two column elements over the whole alphabet
        parts += _ods_parts(4096, 2, split=("row_wrap", "cell_elem0", "cell_kind0"))
        parts += _ods_parts(4096, 3, kinds=(0, 1), wraps=(0,), split=("cell_elem0", "cell_kind0", "cell_elem1"))
        # two rows (each with its own repeat and grouping) of one column element
        parts += _ods_parts(4096, 1, rows=2, kinds=(0, 1, 2), wraps=(0, 1),
                            split=("row_wrap", "cell_elem0", "cell_kind0", "row_wrap_r1"))
    return parts


def _k3_targets():
    from sharepoint2text.parsing.extractors.open_office import _shared as sh
    from sharepoint2text.parsing.extractors.open_office import ods_extractor as ods
    from sharepoint2text.parsing.extractors.open_office import odt_extractor as odt
    sz = _sz()
    return [ods._extract_sheet, ods._extract_cell_value, sh._append_element_text, sh.element_text,
            odt._extract_caption_from_paragraph, sz.SevenZipReader._parse_files_info]


# ---------------------------------------------------------------------------------------
# K4  LZMA output limit
# ---------------------------------------------------------------------------------------

class _StructShadow:
    """the name ``struct`` as seen by sevenzip in symbolic runs: pack('<Q', symbolic) gives the
    eight little-endian bytes as terms"""

    def __getattr__(self, name):
        import struct
        return getattr(struct, name)

    def pack(self, fmt, *vals):
        import struct
        if fmt == "<Q" and len(vals) == 1 and isinstance(vals[0], S.SymInt):
            bv = z3.Int2BV(vals[0].z, 64)
            return S.SymBytes([S.SymBV(z3.Extract(8 * k + 7, 8 * k, bv), 8) for k in range(8)])
        return struct.pack(fmt, *vals)


UNKNOWN_SIZE = 2 ** 64 - 1      # LZMA "alone" header: this size field means "until end marker"


def k4(ctx):
    """model of the decoder used by the oracle (xz file format / liblzma documentation): a
    FORMAT_ALONE stream whose header size field S != 2^64-1 yields at most S bytes; a raw LZMA2
    stream and an ALONE stream with S == 2^64-1 run until their end marker; decompress(max_length=m),
    m >= 0, yields at most m bytes"""
    import lzma as real_lzma
    _quiet()
    sz = _sz()
    coder = ctx.params.get("coder")
    calls = []

    class RecDec:
        def __init__(self, format, memlimit, filters):
            self.format, self.memlimit, self.filters = format, memlimit, filters

        def decompress(self, data, max_length=-1):
            calls.append((self.format, data, max_length))
            return b""

    class FakeLzma:
        FORMAT_ALONE, FORMAT_RAW, FORMAT_XZ, FORMAT_AUTO = (real_lzma.FORMAT_ALONE, real_lzma.FORMAT_RAW,
                                                            real_lzma.FORMAT_XZ, real_lzma.FORMAT_AUTO)
        FILTER_LZMA2, FILTER_LZMA1 = real_lzma.FILTER_LZMA2, real_lzma.FILTER_LZMA1
        LZMAError = real_lzma.LZMAError

        @staticmethod
        def LZMADecompressor(format=real_lzma.FORMAT_AUTO, memlimit=None, filters=None):
            return RecDec(format, memlimit, filters)

    chain = ctx.params.get("chain")
    has_size = True if ctx.params.get("assume_known_size") else ctx.flag("has_unpack_size")
    if chain:
        # a folder with several coders declares one unpack size PER CODER; nothing forces them to
        # agree, so each is its own symbolic number
        sizes = [ctx.fresh_int(f"unpack_size{j}", 0, 2 ** 64 - 1) for j in range(len(chain))] if has_size else []
        declared = None
    else:
        declared = ctx.fresh_int("unpack_size", 0, 2 ** 64 - 1) if has_size else None
        sizes = [declared] if has_size else []
    if ctx.params.get("assume_known_size"):
        ctx.assume(declared != UNKNOWN_SIZE)
    n_lzma = 1
    if chain:
        coders = []
        for j, c in enumerate(chain):
            if c == "lzma":
                coders.append((sz.CODER_LZMA, ctx.fresh_bytes(f"props{j}", 5)))
            elif c == "lzma2":
                coders.append((sz.CODER_LZMA2, bytes([[0, 16, 24, 40][ctx.choice(f"prop_byte{j}", 4)]])))
            else:
                coders.append(({"copy": sz.CODER_COPY, "bcj": sz.CODER_BCJ}[c], None))
        n_lzma = sum(1 for c in chain if c in ("lzma", "lzma2"))
        folder = sz.Folder(coders=coders, unpack_sizes=list(sizes))
        if has_size:
            # the size the per-member guards (K1/K2) get to see for this folder: what the real
            # listing code derives from the folder (one member, no substream sizes in the header)
            ls = object.__new__(sz.SevenZipReader)
            ls._folders, ls._file_sizes = [folder], []
            ls._read_uint8 = lambda: sz.PROP_END
            try:
                ls._parse_substreams_info()
            except Exception as e:
                return ctx.fail("other-exception", exc=type(e).__name__, msg=str(e)[:100], where="listing")
            declared = 0
            for v in ls._file_sizes:
                declared = declared + v
    elif coder == "lzma":
        props = ctx.fresh_bytes("props", 5)
        folder = sz.Folder(coders=[(sz.CODER_LZMA, props)], unpack_sizes=sizes)
    elif coder == "lzma2":
        b = ctx.conc(ctx.fresh_int("prop_byte", 0, 255), 0, 255)
        folder = sz.Folder(coders=[(sz.CODER_LZMA2, bytes([b]))], unpack_sizes=sizes)
    else:   # BCJ in front of LZMA2 (the usual executable filter chain)
        b = ctx.conc(ctx.fresh_int("prop_byte", 0, 255), 0, 255)
        folder = sz.Folder(coders=[(sz.CODER_BCJ, None), (sz.CODER_LZMA2, bytes([b]))], unpack_sizes=sizes * 2)
    payload = b"\x01\x02\x03\x04"
    rd = object.__new__(sz.SevenZipReader)
    rd._archive_file = io.BytesIO(b"\0" * 32 + payload)
    with ctx.stub(sz, lzma=FakeLzma), ctx.shadow(sz, struct=_StructShadow(), len=_len):
        try:
            rd._decompress_folder(folder, 32, [len(payload)])
        except sz.Bad7zFile:
            return ctx.require(True, "rejected")
        except Exception as e:
            return ctx.fail("other-exception", exc=type(e).__name__, msg=str(e)[:100])
    ctx.require(len(calls) == n_lzma, "decoder-not-called-once", n=len(calls), expected=n_lzma)
    for fmt, data, max_length in calls:
        bounds = []                       # list of (guard, bound)
        if isinstance(max_length, (int, S.SymInt)) and not isinstance(max_length, bool) \
                and ctx.perturb != "bounds_ignored":
            if isinstance(max_length, S.SymInt) or max_length >= 0:
                bounds.append((max_length >= 0, max_length))
        if fmt == real_lzma.FORMAT_ALONE and ctx.perturb != "bounds_ignored":
            hdr = S._from_bytes(data[5:13], "little")
            bounds.append((hdr != UNKNOWN_SIZE, hdr))
        info = dict(coder=coder if not chain else "+".join(chain), format=fmt, max_length=repr(max_length))
        ctx.require(OR(*[g for g, _ in bounds]) if bounds else False, "decompress-output-unbounded", **info)
        if declared is not None:
            lim = declared - 1 if ctx.perturb == "declared_minus_one" else declared
            ctx.require(OR(*[AND(g, bnd <= lim) for g, bnd in bounds]) if bounds else False,
                        "decompress-output-exceeds-declared-size", **info)


def _k4_parts(tier):
    # 'assume_known_size': the sub-space in which the LZMA-alone header carries the declared size
    parts = [{"coder": "lzma"}, {"coder": "lzma", "assume_known_size": True}, {"coder": "lzma2"},
             {"coder": "bcj+lzma2"}]
    # coder chains whose per-coder declared sizes are independent: every position of the LZMA-type
    # coder among pass-through coders, and two LZMA-type coders in a row
    chains = [[x, z] for z in ("lzma2", "lzma") for x in ("copy", "bcj")] + \
             [[z, x] for z in ("lzma2", "lzma") for x in ("copy", "bcj")] + [["lzma2", "lzma2"], ["lzma", "lzma2"]]
    if tier == "thorough":
        chains += [["bcj", "copy", "lzma2"], ["copy", "lzma2", "bcj"], ["lzma2", "copy", "bcj"], ["bcj", "lzma", "copy"],
                   ["lzma2", "bcj", "lzma"]]
    return parts + [{"chain": c} for c in chains]


def _k4_targets():
    sz = _sz()
    return [sz.SevenZipReader._decompress_folder, sz.SevenZipReader._apply_decoder,
            sz.SevenZipReader._decompress_lzma, sz.SevenZipReader._decompress_lzma2]


# ---------------------------------------------------------------------------------------

# =======================================================================================
# K5  XML parse sites: entity declarations must not amplify
# =======================================================================================

def _xml_parse_sites():
    """functions of the repository that call an XML parser entry point (AST scan, so a new
    parse site joins automatically)"""
    import ast
    import importlib
    import os
    import pkgutil
    import sharepoint2text
    sites = []
    root = os.path.dirname(sharepoint2text.__file__)
    for dirpath, _, files in os.walk(root):
        if "tests" in dirpath:
            continue
        for fn in files:
            if not fn.endswith(".py"):
                continue
            path = os.path.join(dirpath, fn)
            try:
                tree = ast.parse(open(path, encoding="utf-8").read())
            except Exception:
                continue
            for node in ast.walk(tree):
                if isinstance(node, ast.FunctionDef):
                    for c in ast.walk(node):
                        if isinstance(c, ast.Call) and isinstance(c.func, ast.Attribute) and \
                                c.func.attr in ("fromstring", "XML", "parse", "iterparse", "fromstringlist") and \
                                isinstance(c.func.value, ast.Name) and c.func.value.id in ("ET", "ElementTree", "etree"):
                            mod = path[len(os.path.dirname(root)) + 1:-3].replace(os.sep, ".")
                            sites.append((mod, node.name))
    return sorted(set(sites))


def k5_xml_entities(ctx):
    """every XML parse site of the repository, fed a small document that declares nested
    internal entities: the parsed text must stay within a fixed multiple of the input (or the
    document is refused)"""
    import importlib
    sites = _xml_parse_sites()
    si = ctx.choice("site", len(sites))
    modname, fname = sites[si]
    depth = 1 + ctx.choice("entity_nesting", 3)
    fan = [2, 10, 30][ctx.choice("fanout", 3)]
    decl = ['<!ENTITY e0 "' + "x" * 20 + '">']
    for d in range(1, depth):
        decl.append('<!ENTITY e%d "%s">' % (d, ("&e%d;" % (d - 1)) * fan))
    xml = ('<?xml version="1.0"?><!DOCTYPE r [' + "".join(decl) + ']><r xmlns:manifest="urn:x">' +
           ("&e%d;" % (depth - 1)) * fan + "</r>")
    mod = importlib.import_module(modname)
    fn = getattr(mod, fname)

    class FakeZip:
        def read(self, path):
            return xml.encode()
    K = 4 if ctx.perturb != "no_bound" else 0
    try:
        if fname == "read_zip_xml_root":
            root = fn(FakeZip(), "content.xml")
        elif fname == "_manifest_declares_encryption":
            fn(xml)
            ctx.require(True, "bounded")
            return          # returns a bool only; nothing is materialised for the caller
        else:
            ctx.fail("unknown-xml-parse-site-no-driver", site=f"{modname}.{fname}")
            return
    except Exception:
        if ctx.perturb == "no_bound":
            ctx.fail("twin")
        ctx.require(True, "refused")
        return              # refused: bounded
    total = sum(len(t) for t in root.itertext())
    ctx.require(total <= K * len(xml), "xml-entity-amplification", site=f"{modname}.{fname}", input_bytes=len(xml),
                text_chars=total, nesting=depth, fanout=fan)


# =======================================================================================
# K6  nested archives are not recursed into, however their extension is spelled
# =======================================================================================

# name suffixes the router hands to read_archive (extension table, aliases, compound extensions and
# the MIME fallback through the platform's mimetypes tables); part 'scan' checks the list is complete
ARCHIVE_SUFFIXES = [".zip", ".tar", ".tgz", ".tbz2", ".txz", ".7z", ".gz", ".bz2", ".xz", ".tar.gz", ".tar.bz2",
                    ".tar.xz", ".taz", ".tz", ".tar.br", ".zip.br", ".gz.br", ".xz.br"]
KNOWN_NESTED_MIME = "C12-nested-archive-guard-misses-mime-routed-names"


def _routed_to_archive(name):
    """the real router's verdict for a member name"""
    from sharepoint2text.parsing import router
    try:
        return router.get_extractor(name) is _ae().read_archive
    except Exception:
        return False


def _probe_archive_suffixes():
    import mimetypes
    from sharepoint2text.parsing import router
    mimetypes.init()
    cands = set(router._SUPPORTED_EXTENSIONS) | set(mimetypes.types_map) | set(mimetypes.common_types) | \
        set(mimetypes.suffix_map) | set(mimetypes.encodings_map)
    cands |= {a + b for a in list(cands) for b in mimetypes.encodings_map}
    return sorted(e for e in cands if _routed_to_archive("a" + e))


def k6_nested(ctx):
    """one small member whose name the real router routes to read_archive, in each of the three
    container loops: it must not be handed to an extractor (recursing multiplies the cost with every
    level of nesting, each member staying under the per-member limit)"""
    _quiet()
    ae = _ae()
    from sharepoint2text.parsing import router
    kind = ctx.params["site"]
    if kind == "scan":
        missing = [e for e in _probe_archive_suffixes() if not any(e.endswith(s_) for s_ in ARCHIVE_SUFFIXES)]
        return ctx.require(not missing, "archive-suffix-without-driver", suffixes=missing[:8])
    # parts: the suffixes of the extension tables / those only the MIME fallback knows (a part stops
    # after 60 counterexamples; one group must not keep the other from being explored)
    group = {"extension": ARCHIVE_SUFFIXES[:12], "mime": ARCHIVE_SUFFIXES[12:]}.get(ctx.params.get("group"),
                                                                                    ARCHIVE_SUFFIXES)
    suffix = group[ctx.choice("suffix", len(group))]
    # spelling: every letter of the suffix in either case
    chars = []
    for j, ch in enumerate(suffix):
        chars.append(ch.upper() if ch.isalpha() and ctx.flag(f"upper{j}") else ch)
    stems = ["part1", "d/part1", "Backup.2024"]
    stem = stems[ctx.params["stem"] if "stem" in ctx.params else ctx.choice("stem", len(stems))]
    name = stem + "".join(chars)
    basename = os.path.basename(name)
    ctx.assume(_routed_to_archive(basename))            # the router decides what an archive is
    via_mime = router._file_type_from_extension(basename.lower()) is None
    log = []
    members = [(name, False, 10)]
    stubs = _container_stubs(kind, log, members)
    stubs["_get_file_extractor_cached"] = _rec_extractor(log)
    fn = {"zip": ae._extract_from_zip_optimized, "tar": ae._extract_from_tar_optimized,
          "7z": ae._extract_from_7z_optimized}[kind]
    with ctx.stub(ae, **stubs):
        try:
            list(fn(io.BytesIO(b"\0" * 64), "x." + kind))
        except Exception as e:
            ctx.fail("other-exception", exc=type(e).__name__, msg=str(e)[:100])
    extracted = any(e[0] == "extract" for e in log)
    info = dict(site=kind, member=name, suffix=suffix, routed_by="mime-fallback" if via_mime else "extension",
                extracted=extracted)
    if ctx.perturb == "archives_are_documents":
        return ctx.require(extracted, "archive-member-not-extracted", **info)
    if via_mime and not ctx.perturb and KNOWN_NESTED_MIME in (ctx.params.get("known_active") or ()):
        ctx.note("path-in-class-of-known-finding:" + KNOWN_NESTED_MIME)
        return ctx.require(True, "excluded-known-class")
    ctx.require(not extracted, "nested-archive-extracted", **info)


def _k6_parts(tier):
    return [{"site": s_, "stem": st, "group": g} for s_ in ("zip", "tar", "7z")
            for st in range(2 if tier == "quick" else 3) for g in ("extension", "mime")] + [{"site": "scan"}]


KERNELS = [
    Kernel("K1", "explicit size limits are exact (refuse <=> size > limit; 0 disables read_file's check) and a "
                 "refusal precedes any read", k1, targets=_k1_targets, parts=_k1_parts,
           bounds={"quick": {"N": 2}, "thorough": {"N": 4}},
           perturb=[("limit_ge", {"site": "read_file", "limits": "symbolic"}),
                    ("zero_is_a_limit", {"site": "read_file", "limits": "symbolic"}),
                    ("limit_ge", {"site": "7z_size", "limits": "live"}),
                    ("limit_ge", {"site": "entry", "limits": "symbolic"}),
                    ("member_ge", {"site": "zip", "limits": "symbolic"}),
                    ("member_ge", {"site": "tar", "limits": "live"}),
                    ("member_ge", {"site": "7z", "limits": "symbolic"}),
                    ("entry_ge", {"site": "zip", "limits": "symbolic"}),
                    ("member_ge", {"site": "tar", "limits": "symbolic", "N": 2, "tar_kinds": True,
                                   "names": [0, 1, 2], "fix": {"tar_kind0": 3}}),
                    ("links_are_files", {"site": "tar", "limits": "symbolic", "N": 2, "tar_kinds": True,
                                         "names": [0, 1, 2], "fix": {"tar_kind0": 2}})],
           stubs=["pathlib.Path.stat -> st_size symbolic (replay: a real file when the model's size <= 4096)",
                  "open / get_extractor as seen from sharepoint2text -> recorders",
                  "stream handed to the 7z routine -> stand-in with symbolic length, reads recorded",
                  "zipfile / tarfile / SevenZipFile as seen from archive_extractor -> containers listing 1..N "
                  "members of symbolic declared size; member reads recorded and answered with a payload stand-in of "
                  "the declared length",
                  "tar (parts 'tar_kinds'): TarInfo stand-in with the full header interface (type, size, linkname, "
                  "isreg/isfile/isdir/issym/islnk/isdev ...); extractfile() follows hard and symbolic links to the "
                  "member that owns the content as the stdlib does (unresolvable link: KeyError, link cycle: "
                  "RecursionError, directory / fifo: None); every read records the owner of the content delivered",
                  "_get_file_extractor_cached -> recording extractor",
                  "_config / MAX_7Z_FILE_SIZE / MAX_ARCHIVE_FILE_SIZE -> symbolic limits (parts 'symbolic'); live "
                  "values (parts 'live')"],
           symbolic=["file size, max_file_size", "7z archive size, 7z limit", "entry data length, entry limit",
                     "declared size of every member, per-member limit, per-entry limit"],
           choices=["entry point (7z routine / read_archive)", "number of members", "member name kind (supported, "
                    "in a sub directory, unsupported, nested archive, hidden)",
                    "tar member kind: regular / directory / hard link / symbolic link (thorough: fifo)",
                    "member a link points at (any other member, or nothing)"],
           assumptions=["'100 MB' is 100 * 2^20 bytes, the project's own usage in read_file's docstring",
                        "sizes and limits are integers in [0, 2^50]",
                        "zipfile / tarfile return at most the declared size for a member (stdlib behaviour)",
                        "a tar link member declares size 0 and delivers the content of the member it resolves to; the "
                        "property does not say whether links are to be extracted, only that no content above the "
                        "per-member limit is read or handed on, whichever member name it is asked for under"],
           outside=["negative max_file_size (undocumented)", "what zipfile / tarfile do with forged size fields"],
           timeout={"quick": 100, "thorough": 900}),
    Kernel("K1c", "the live constants are the documented ones (7z limit and read_file default 100 MB; per-member "
                  "limit positive and not above the per-entry limit)", k1_constants, targets=_k1_targets,
           strength="structure", core=False, choices=["fact"]),
    Kernel("K2", "7z: a member above the per-member limit is neither decompressed into memory nor written to disk",
           k2, targets=_k2_targets, parts=_k2_parts,
           bounds={"quick": {"N": 2}, "thorough": {"N": 4}},
           perturb=[("member_ge", {"layout": "split", "facet": "disk", "assume_within": True}),
                    ("member_ge", {"layout": "solid", "facet": "memory", "assume_within": True}),
                    ("member_ge", {"layout": "real", "facet": "disk", "assume_within": True})],
           stubs=["SevenZipReader(...) -> a real reader object whose header tables are set by the harness (file sizes "
                  "symbolic, folders solid or one per member); its file list is built by the real _build_file_list",
                  "reader._decompress_folder -> recorder returning a stand-in of the folder's declared size",
                  "open as seen from sevenzip -> recorder for 'wb' (writes one byte so that the caller finds the file)",
                  "_config -> symbolic per-member limit", "_get_file_extractor_cached -> recording extractor",
                  "part 'real': nothing replaced but _config (limit 64) and the extractor; _decompress_folder and open "
                  "are wrapped by observers; the archive is a real COPY-coder 7z written by the harness"],
           symbolic=["declared size of every member", "per-member limit"],
           choices=["number of members", "folder layout", "part 'real': size class limit-1 / limit / limit+1 per member"],
           assumptions=["a folder may be decompressed when at least one of its members is within the limit (solid "
                        "archives cannot be read member-wise)"],
           outside=["archives with several folders in real bytes (C10: every folder is decoded from the first pack "
                    "position)"],
           timeout={"quick": 100, "thorough": 900}),
    Kernel("K3", "sequence-repetition sites: references / characters allocated <= K * input bytes",
           k3, targets=_k3_targets, parts=_k3_parts,
           perturb=[("zero_multiple", {"driver": "ods_sheet", "cells": 1, "K": 4096, "fix": None, "kinds": None,
                                       "wraps": None, "rows": 1}),
                    ("zero_multiple", {"driver": "shared_text", "K": 4096})],
           stubs=["int as seen from ods_extractor / _shared / odt_extractor -> attribute texts become counted integers: "
                  "``sequence * n`` books len(sequence)*max(n,0) in a ledger and continues with min(n,2) copies",
                  "7z: _read_number -> the declared number of files (symbolic), empty property list, "
                  "_build_file_list (a loop over range(number of files)) not run"],
           symbolic=["table:number-rows-repeated, table:number-columns-repeated of every cell", "text:c",
                     "7z number of files"],
           choices=["number of column elements per row (0..2, thorough 3) and of rows (thorough 2)",
                    "column element name: table:table-cell / table:covered-table-cell",
                    "cell content: empty / string / float / empty with a comment / declared type without value / "
                    "empty paragraph / empty with span attributes",
                    "elements between table:table and the row: none / table-row-group / table-header-rows / "
                    "table-rows / two nested groups",
                    "text:s directly in text:p or inside text:span"],
           assumptions=["'a fixed multiple' is read generously: K = 4096 references (32 KiB) or characters per input "
                        "byte (thorough also 2^20); input bytes = serialized size of the element carrying the "
                        "attribute (7z: smallest archive with that header)",
                        "attribute values are decimal integers in [-9, 10^18)",
                        "while the known finding C12-ods-repeat-uncapped still reproduces (pinned witness, replayed on "
                        "every run) ledger entries of exactly its class - _extract_sheet repeating a sequence that "
                        "carries a value - are not judged again, so that its counterexamples do not exhaust the "
                        "per-part counterexample budget before the value-less structures are reached"],
           outside=["the padding loop of _extract_sheet (rows x columns, proportional to the product of the two "
                    "repeats) is not booked separately", "measured memory / time"],
           timeout={"quick": 100, "thorough": 900}),
    Kernel("K3s", "every sequence-repetition site of the ODF extractors, sevenzip and archive_extractor has a K3 driver",
           k3_sites, targets=_k3_targets, strength="structure", core=False, choices=["site found by AST scan"]),
    Kernel("K4", "every LZMA / LZMA2 decompress call is output-bounded by the folder's declared unpack size",
           k4, targets=_k4_targets, parts=_k4_parts,
           perturb=[("bounds_ignored", {"coder": "lzma2"}), ("declared_minus_one", {"coder": "lzma", "assume_known_size": True}),
                    ("declared_minus_one", {"chain": ["bcj", "lzma2"]})],
           stubs=["lzma as seen from sevenzip -> LZMADecompressor recording format, filters and the arguments of "
                  "decompress()", "struct.pack('<Q', symbolic) -> eight byte terms (symbolic runs)"],
           symbolic=["declared unpack size in [0, 2^64)", "the five LZMA property bytes",
                     "LZMA2 property byte (all 256 values)"],
           choices=["unpack size present / absent"],
           assumptions=["decoder model: an LZMA-alone header with size field S != 2^64-1 bounds the output to S; raw "
                        "LZMA2 and S == 2^64-1 run to the end marker; decompress(max_length=m>=0) bounds it to m",
                        "the size guards (K1/K2) test declared sizes, so they bound memory only if the decoder's "
                        "output cannot exceed what is declared"],
           outside=["dictionary memory allocated by liblzma for the declared dictionary size"],
           timeout={"quick": 100, "thorough": 600}),
    Kernel("K6", "a member the router would hand to read_archive is not extracted from inside an archive, however its "
                 "extension is spelled", k6_nested,
           targets=lambda: [_ae()._should_skip_file, _ae()._extract_from_zip_optimized, _ae()._extract_from_tar_optimized,
                            _ae()._extract_from_7z_optimized, _ae()._process_7z_files_sequential],
           parts=_k6_parts, strength="structure", core=False,
           perturb=[("archives_are_documents", {"site": "zip", "stem": 0, "group": "extension"})],
           stubs=["zipfile / tarfile / SevenZipFile as seen from archive_extractor -> containers listing one 10-byte "
                  "member", "_get_file_extractor_cached -> recording extractor; the router functions are the real ones"],
           choices=["archive suffix (all the router routes to read_archive, incl. the MIME fallback; part 'scan' probes "
                    "the router and the platform mimetypes tables for suffixes missing from the list)",
                    "upper / lower case of every letter of the suffix", "stem: plain / in a sub directory / dotted",
                    "container loop zip / tar / 7z"],
           assumptions=["what counts as an archive is the real router's verdict (get_extractor(name) is read_archive); "
                        "recursing into such a member is what the nested-archive guard exists to prevent"],
           outside=["archives disguised under a document extension (content sniffing)"],
           timeout={"quick": 100, "thorough": 300}),
    Kernel("K5", "XML parse sites refuse or bound internal-entity amplification", k5_xml_entities,
           targets=lambda: [__import__("sharepoint2text.parsing.extractors.util.zip_utils", fromlist=["x"]).read_zip_xml_root],
           strength="structure", core=False, perturb=["no_bound"],
           choices=["parse site (AST scan of the repository)", "entity nesting depth 1..3", "fan-out 2/10/30"],
           outside=["external entities / network DTDs (not resolvable in this sandbox)"]),
]

META = {
    "level_text": "The real read_file prologue, the 7z size prologue, the per-member tests of the zip/tar/7z loops and "
                  "the per-entry test run on symbolic sizes AND symbolic limits; z3 decides on every path that the "
                  "outcome is 'refuse <=> size > limit' (limit accepted, 0 disables read_file's check) and that no "
                  "payload read precedes a refusal. The real 7z extractall/_extract_files_from_folder run on a reader "
                  "with symbolic member sizes and recorded decompression/writes; repeat attributes, text:c and the 7z "
                  "file count are symbolic integers whose products with sequences are booked instead of materialised, "
                  "and z3 searches for a count whose allocation exceeds K times the input bytes; the LZMA decoders are "
                  "run with a symbolic declared size against a recording decoder.",
    "level_note": "Claimed for the 'explicit limits hold exactly' sentence and for the repetition sites of repository "
                  "code. Not decided: the general cost sentence (measured memory/time, olefile, defusedxml, PDF "
                  "loops). Trusted: zipfile/tarfile deliver at most the declared member size; the decoder model of "
                  "liblzma stated in K4.",
    "technique": "symbolic execution of the real size tests on z3 Int proxies (symrun) with both operands symbolic, "
                 "recording stand-ins for streams/containers, counted sequence repetition for amplification "
                 "arithmetic, per-path SMT queries against reference predicates",
}
