"""C07 - routing: is_supported_file == get_extractor succeeds; extension decides."""
import os
import re

import z3

from vf.core import Kernel
from vf import symrun as S


def _router():
    from sharepoint2text.parsing import router
    return router


# My reading of README "Supported Formats": extension -> extractor function.  The set of
# extensions is cross-checked against the README tables at run time (_readme_exts).
DOC_SPEC = {
    "doc": "read_doc", "dot": "read_doc", "xls": "read_xls", "xlt": "read_xls",
    "ppt": "read_ppt", "pot": "read_ppt", "pps": "read_ppt", "rtf": "read_rtf",
    "docx": "read_docx", "docm": "read_docx", "dotx": "read_docx", "dotm": "read_docx",
    "xlsx": "read_xlsx", "xlsm": "read_xlsx", "xltx": "read_xlsx", "xltm": "read_xlsx",
    "pptx": "read_pptx", "pptm": "read_pptx", "potx": "read_pptx", "potm": "read_pptx",
    "ppsx": "read_pptx", "ppsm": "read_pptx",
    "odt": "read_odt", "ott": "read_odt", "odp": "read_odp", "otp": "read_odp",
    "ods": "read_ods", "ots": "read_ods", "odg": "read_odg", "odf": "read_odf",
    "eml": "read_eml_format_mail", "msg": "read_msg_format_mail", "mbox": "read_mbox_format_mail",
    "txt": "read_plain_text", "md": "read_plain_text", "csv": "read_plain_text",
    "tsv": "read_plain_text", "json": "read_plain_text",
    "pdf": "read_pdf", "html": "read_html", "htm": "read_html", "mhtml": "read_mhtml",
    "mht": "read_mhtml", "epub": "read_epub",
    "zip": "read_archive", "7z": "read_archive", "tar": "read_archive", "tgz": "read_archive",
    "gz": "read_archive", "tbz2": "read_archive", "bz2": "read_archive", "txz": "read_archive",
    "xz": "read_archive",
}
COMPOUND_SPEC = {".tar.gz": "read_archive", ".tar.bz2": "read_archive", ".tar.xz": "read_archive"}


def _readme_exts():
    txt = open("/repo/README.md", encoding="utf-8").read()
    a = txt.index("## Supported Formats")
    b = txt.index("## Installation")
    exts = set()
    for line in txt[a:b].splitlines():
        if line.startswith("|"):
            cells = [c.strip() for c in line.strip("|").split("|")]
            if len(cells) >= 2:
                exts.update(re.findall(r"`(\.[A-Za-z0-9.]+)`", cells[1]))
    return exts


# ---------------------------------------------------------------------------------------
# models of the environment
# ---------------------------------------------------------------------------------------

class _OsShadow:
    """the name ``os`` as seen from router: splitext runs the stdlib's own algorithm
    (genericpath._splitext with posix separators) on the bounded symbolic string"""
    class path:
        @staticmethod
        def splitext(p):
            import genericpath
            return genericpath._splitext(p, "/", None, ".")


def _mime_classes(r, all_keys=False):
    keys = list(r.MIME_TYPE_MAPPING)
    rep = keys if all_keys else sorted({keys[0], keys[-1], keys[len(keys) // 2]} |
                                       ({"application/pdf", "text/plain"} & set(keys)))
    return [None, ""] + rep + ["x-unknown/type", keys[0].upper(), " " + keys[1]]


class MimeStub:
    """mimetypes stand-in: guess_type returns an arbitrary member of the classes of answers the
    router can distinguish (None, empty, each mapped type, unmapped, case/space variants),
    chosen independently per distinct argument (= quantification over MIME databases)"""

    def __init__(self, ctx, r, all_keys=False):
        self.ctx = ctx
        self.classes = _mime_classes(r, all_keys)
        self.seen = []

    def guess_type(self, arg, strict=True):
        for a, res in self.seen:
            if a is arg or (isinstance(a, str) and isinstance(arg, str) and a == arg) or \
                    (isinstance(a, S.CharStr) and isinstance(arg, S.CharStr) and len(a.c) == len(arg.c)
                     and all((x is y) or (isinstance(x, int) and isinstance(y, int) and x == y) or
                             (isinstance(x, S.SymInt) and isinstance(y, S.SymInt) and x.z.eq(y.z))
                             for x, y in zip(a.c, arg.c))):
                return res
        k = len(self.seen)
        # second component: the encoding suffix mimetypes strips before guessing (x.pdf.br -> ('application/pdf', 'br'))
        # (two extra answer classes rather than the full product: nothing / a mapped type, each with an encoding)
        pairs = [(c, None) for c in self.classes] + [(None, "br"), (self.classes[2], "br")]
        res = pairs[self.ctx.choice(f"mime_answer{k}", len(pairs))]
        self.seen.append((arg, res))
        return res


def _shadows(ctx, r, mime):
    return dict(os=_OsShadow, mimetypes=mime,
                _EXTRACTOR_REGISTRY=S.SymMap(r._EXTRACTOR_REGISTRY),
                _EXTENSION_ALIASES=S.SymMap(r._EXTENSION_ALIASES),
                _COMPOUND_EXTENSIONS=S.SymMap(r._COMPOUND_EXTENSIONS),
                _SUPPORTED_EXTENSIONS=S.SymSet(sorted(r._SUPPORTED_EXTENSIONS)))


def _spec_expected(L, perturb):
    """documented extractor for a lower-cased path, or None when the trailing extension is
    not documented.  Runs on python str and on CharStr alike (comparisons fork)."""
    for c, f in COMPOUND_SPEC.items():
        if L.endswith(c):
            return f
    # trailing extension: after the last dot of the last path component, ignoring leading dots
    comp = L[L.rfind("/") + 1:]
    i = 0
    while i < len(comp) and comp[i:i + 1] == ".":
        i += 1
    stem = comp[i:]
    d = stem.rfind(".")
    if d < 0:
        return None
    e = stem[d + 1:]
    for k, f in DOC_SPEC.items():
        if len(k) == len(e) and e == k:
            if perturb == "spec_gz_unsupported" and k == "gz":
                return "nothing"
            return f
    return None


def k1_route(ctx):
    r = _router()
    from sharepoint2text.parsing.exceptions import ExtractionFileFormatNotSupportedError
    n = ctx.params["len"]
    fixed = ctx.params.get("fixed")
    if fixed is not None:
        # every MIME key against fixed paths whose extension is unknown / absent
        p = S.CharStr(fixed) if not ctx.concrete else fixed
    else:
        p = ctx.fresh_chars("path", n)
        dot = ctx.params.get("last_dot")
        if dot is not None and not ctx.concrete:
            # partition of the input space by the position of the last dot (-1: no dot)
            for i in range(n):
                if i == dot:
                    ctx.assume(p.c[i] == 46)
                elif i > dot:
                    ctx.assume(p.c[i] != 46)
    mime = MimeStub(ctx, r, all_keys=fixed is not None)
    if ctx.concrete:
        cm = ctx.stub(r, mimetypes=mime)
    else:
        cm = ctx.shadow(r, **_shadows(ctx, r, mime))
    with cm:
        sup = r.is_supported_file(p)
        try:
            fn = r.get_extractor(p)
            ok, name = True, fn.__name__
        except ExtractionFileFormatNotSupportedError:
            ok, name = False, None
        except Exception as e:
            ok, name = None, None
            ctx.fail("other-exception-from-get_extractor", exc=type(e).__name__, msg=str(e)[:80])
    ctx.require(sup is True or sup is False, "is_supported_file-not-bool", got=repr(sup))
    ctx.require(bool(sup) == ok, "is_supported_file-disagrees-with-get_extractor", supported=bool(sup),
                extractor=name)
    # documented extensions reach the documented extractor whatever the MIME oracle says and
    # whatever the letter case (the spec is evaluated on the lower-cased path)
    exp = _spec_expected(p.lower(), ctx.perturb)
    if exp is not None:
        ctx.require(name == exp, "documented-extension-misrouted", expected=exp, got=name)


def _k1_parts(tier):
    top = 8 if tier == "quick" else 12
    parts = []
    for n in range(0, top + 1):
        if n < 5:
            parts.append({"len": n})
        else:
            parts += [{"len": n, "last_dot": d} for d in range(-1, n)]
    parts += [{"len": 0, "fixed": f} for f in ("x.unknownext", "noext", "dir.d/noext", ".hidden", "a.b.", "")]
    return parts


def k1_tables(ctx):
    """table-level facts read from the live module: every alias points at a registry key, every
    MIME value is a registry key, every registry target is importable and callable, README
    extension set == DOC_SPEC == router tables"""
    import importlib
    r = _router()
    which = ctx.choice("fact", 5)
    if which == 0:
        bad = [a for a, b in r._EXTENSION_ALIASES.items() if b not in r._EXTRACTOR_REGISTRY]
        ctx.require(not bad, "alias-to-missing-registry-key", bad=bad)
    elif which == 1:
        bad = [m for m, t in r.MIME_TYPE_MAPPING.items() if t not in r._EXTRACTOR_REGISTRY]
        ctx.require(not bad, "mime-value-not-a-registry-key", bad=bad)
    elif which == 2:
        bad = []
        for ft, (mod, fn) in r._EXTRACTOR_REGISTRY.items():
            try:
                f = getattr(importlib.import_module(mod), fn)
                if not callable(f):
                    bad.append(ft)
            except Exception:
                bad.append(ft)
        ctx.require(not bad, "registry-target-not-importable", bad=bad)
    elif which == 3:
        readme = {e[1:] for e in _readme_exts() if e.count(".") == 1}
        ctx.require(readme == set(DOC_SPEC), "harness-spec-differs-from-README",
                    only_readme=sorted(readme - set(DOC_SPEC)), only_spec=sorted(set(DOC_SPEC) - readme))
    else:
        known = set(r._EXTRACTOR_REGISTRY) | set(r._EXTENSION_ALIASES)
        ctx.require(set(DOC_SPEC) <= known, "documented-extension-unknown-to-router",
                    missing=sorted(set(DOC_SPEC) - known))


def k2_dispatch(ctx):
    """read_file / archive member / attachment dispatch use the same routing decision"""
    import io
    import sharepoint2text as s2t
    from sharepoint2text.parsing.extractors import archive_extractor as ae
    r = _router()
    names = ["a.pdf", "A.PDF", "x.tar.gz", "b.gz", "c.htm", "d.unknown", "e", ".docx", "f.DOCX", "g.mht"]
    nm = names[ctx.choice("name", len(names))]
    site = ctx.choice("site", 2)
    try:
        expected = r.get_extractor(nm)
    except Exception as e:
        expected = type(e)
    if site == 0:
        seen, got = [], []
        real = r.get_extractor

        def spy(path):
            seen.append(path)
            res = real(path)
            got.append(res)
            return lambda f, pth: iter(())

        with ctx.stub(s2t, get_extractor=spy, open=lambda *a, **k: io.BytesIO(b"")):
            try:
                list(s2t.read_file(nm, max_file_size=0))
                out = "ok"
            except Exception as e:
                out = type(e)
        ctx.require(seen == [nm], "read_file-routes-on-different-string", seen=seen, name=nm)
        if isinstance(expected, type):
            ctx.require(out is expected, "read_file-unsupported-error-differs", got=repr(out))
        else:
            ctx.require(got and got[0] is expected and out == "ok", "read_file-dispatch-differs", got=repr(out))
    else:
        ae._is_supported_file_cached.cache_clear()
        ae._get_file_extractor_cached.cache_clear()
        sup = ae._is_supported_file_cached(nm)
        ctx.require(sup == callable(expected) and not isinstance(expected, type) or
                    (not sup and isinstance(expected, type)), "archive-support-test-differs", name=nm)
        if sup:
            ctx.require(ae._get_file_extractor_cached(nm) is expected, "archive-dispatch-differs", name=nm)


# ---------------------------------------------------------------------------------------
# K3: the decision is a function of (path, MIME configuration) - not of what was asked before
# ---------------------------------------------------------------------------------------

class _FixedMime:
    def __init__(self, answer):
        self.answer = answer

    def guess_type(self, arg, strict=True):
        return (self.answer, None)


def k3_history(ctx):
    """one path asked under configuration A, then under B, then under A again: at every step the two entry
    points agree with each other, and step 3 answers as step 1 did"""
    r = _router()
    from sharepoint2text.parsing.exceptions import ExtractionFileFormatNotSupportedError
    paths = ["memo.note", "x.text", "dir/y.unknownext", "noext", "a.pdf", "Q.TXT", "z.tar.gz"]
    p = paths[ctx.choice("path", len(paths))]
    classes = _mime_classes(r)
    a = classes[ctx.choice("config_a", len(classes))]
    b = classes[ctx.choice("config_b", len(classes))]

    def ask(answer):
        with ctx.stub(r, mimetypes=_FixedMime(answer)):
            sup = r.is_supported_file(p)
            try:
                fn = r.get_extractor(p).__name__
            except ExtractionFileFormatNotSupportedError:
                fn = None
        return sup, fn

    steps = [ask(a), ask(b), ask(a)]
    for i, (sup, fn) in enumerate(steps):
        ctx.require(bool(sup) == (fn is not None), "is_supported_file-disagrees-with-get_extractor", step=i, path=p,
                    supported=bool(sup), extractor=fn, config_a=repr(a), config_b=repr(b))
    if ctx.perturb == "expect_b_sticks":
        ctx.require(steps[2] == steps[1], "decision-depends-on-history", path=p)
        return
    ctx.require(steps[2] == steps[0], "decision-depends-on-history", path=p, first=repr(steps[0]), third=repr(steps[2]),
                config_a=repr(a), config_b=repr(b))


def _targets():
    r = _router()
    return [r.is_supported_file, r.get_extractor, r._file_type_from_extension, r._get_extractor]


KERNELS = [
    Kernel("K1", "is_supported_file <=> get_extractor returns; only the not-supported error; documented "
                 "extensions reach the documented extractor under every MIME oracle",
           k1_route, targets=_targets,
           parts=_k1_parts,
           perturb=[("spec_gz_unsupported", {"len": 4})],
           stubs=["mimetypes.guess_type -> arbitrary answer per distinct argument from the classes the router can "
                  "distinguish (None, '', each mapped type, unmapped, case/space variants), with or without an encoding "
                  "suffix reported (second component)",
                  "os.path.splitext -> stdlib genericpath._splitext run on the symbolic string (posix separators)"],
           symbolic=["every character of the path (ASCII 1..127), lower-casing exact"],
           choices=["MIME answer class"],
           assumptions=["tables (_EXTRACTOR_REGISTRY, aliases, compound, MIME map) are read from the live module "
                        "and wrapped as lookup proxies; lookups fork per key"],
           outside=["paths longer than the bound; non-ASCII characters (str.lower beyond ASCII)",
                    "behaviour of the real mimetypes module (replaced by the arbitrary oracle)"],
           timeout={"quick": 280, "thorough": 2400}, max_depth=400),
    Kernel("K1t", "table facts: aliases/MIME values are registry keys, targets importable, README == spec == tables",
           k1_tables, targets=_targets, strength="structure", core=False),
    Kernel("K3", "the routing decision is a function of (path, MIME configuration): same path asked again under another "
                 "configuration and back",
           k3_history, targets=_targets, strength="structure", perturb=["expect_b_sticks"],
           choices=["path from a vocabulary (MIME-routed unknown extensions, no extension, documented extensions)",
                    "MIME answer class of configuration A and of configuration B"],
           stubs=["mimetypes -> fixed answer per configuration"]),
    Kernel("K2", "read_file and archive-member dispatch route on the same string as get_extractor",
           k2_dispatch, targets=lambda: [__import__("sharepoint2text").read_file],
           strength="structure", core=False, choices=["file name from a vocabulary", "call site"]),
]

META = {
    "level_text": "The real is_supported_file/get_extractor/_file_type_from_extension/_get_extractor are executed on "
                  "a path whose every character is symbolic (all ASCII strings up to length 8, thorough 12), with the "
                  "MIME database replaced by an arbitrary oracle; z3 decides on every path that the two entry points "
                  "agree, that only the not-supported error escapes, and that each documented extension/alias/compound "
                  "form reaches the documented extractor independently of the MIME answer and of letter case.",
    "level_note": "Trusted: z3 model of posixpath.splitext (differentially validated), README reading in DOC_SPEC "
                  "(cross-checked against the README tables at run time). Outside: non-ASCII case folding, longer paths.",
    "technique": "symbolic execution of the router functions on z3 String proxies (symrun collect mode), table "
                 "lookups as per-key forks, per-path SMT query against a documented-extension spec",
}
