"""C06 - extraction is a deterministic, side-effect-free function; observers are idempotent.

K1  observer idempotence on small content instances of every content type (symbolic ints /
    bools / characters where the observers branch on them), every sequence of <= 3 observers
K2  set-to-sequence sites located by AST scan, iteration order as a symbolic permutation,
    replay through the public readers under different PYTHONHASHSEED values
K3  stream handling: position restored where promised, parsers started at offset 0, never
    written; stand-in stream with symbolic position
K4  public readers leave the caller's buffer unchanged and do not depend on its position
"""
import base64
import dataclasses
import io
import os

import z3

from vf.core import Kernel
from vf import symrun as S


def _dt():
    from sharepoint2text.parsing.extractors import data_types
    return data_types


# =======================================================================================
# comparison of observed values (python values and proxies alike)
# =======================================================================================

_PROXY = (S.SymInt, S.SymBool, S.SymBV, S.CharStr)


def view(x):
    """canonical plain structure of anything an observer returns"""
    if x is None or isinstance(x, _PROXY) or isinstance(x, (str, int, float, bool, bytes)):
        return x
    if isinstance(x, bytearray):
        return bytes(x)
    if isinstance(x, io.BytesIO):
        return {"__bytesio__": x.getvalue()}
    if dataclasses.is_dataclass(x) and not isinstance(x, type):
        d = {"__class__": type(x).__name__}
        for f in dataclasses.fields(x):
            d[f.name] = view(getattr(x, f.name))
        return d
    if isinstance(x, dict):
        return {str(k): view(v) for k, v in x.items()}
    if isinstance(x, (list, tuple)):
        return [view(v) for v in x]
    if isinstance(x, (set, frozenset)):
        return {"__set__": sorted(repr(v) for v in x)}
    return {"__object__": type(x).__name__, "repr": repr(x)}


class Cmp:
    """structural equality of two views: definite differences (python level) and symbolic
    conditions (z3) are collected separately"""

    def __init__(self):
        self.diffs = []
        self.conds = []

    def leaf(self, a, b, path):
        if a is b:
            return
        if isinstance(a, S.CharStr) or isinstance(b, S.CharStr):
            if isinstance(a, S.CharStr) and isinstance(b, (S.CharStr, str)):
                r = S.CharStr.__eq__(a, b)
            elif isinstance(a, str):
                r = S.CharStr.__eq__(b, a)
            else:
                r = False
        elif isinstance(a, _PROXY) or isinstance(b, _PROXY):
            p, q = (a, b) if isinstance(a, _PROXY) else (b, a)
            if q is None or isinstance(q, (str, bytes, float, list, dict)):
                r = False
            else:
                r = p.__eq__(q)
                if r is NotImplemented:
                    r = False
        else:
            r = type(a) is type(b) and a == b
        if r is True:
            return
        if r is False:
            self.diffs.append(path)
        else:
            self.conds.append((path, r.z if isinstance(r, S.SymBool) else r))

    def walk(self, a, b, path=""):
        if a is b:
            return
        if isinstance(a, dict) and isinstance(b, dict):
            if set(a) != set(b):
                self.diffs.append(path + "{keys}")
                return
            for k in a:
                self.walk(a[k], b[k], path + "/" + str(k))
        elif isinstance(a, (list, tuple)) and isinstance(b, (list, tuple)):
            if len(a) != len(b):
                self.diffs.append(path + "[len]")
                return
            for i, (x, y) in enumerate(zip(a, b)):
                self.walk(x, y, path + "/%d" % i)
        else:
            self.leaf(a, b, path)

    def result(self):
        """python bool or z3 Bool"""
        if self.diffs:
            return False
        if not self.conds:
            return True
        zs = [c for _, c in self.conds]
        return z3.And(*zs) if len(zs) > 1 else zs[0]

    def where(self):
        return (self.diffs + [p + " (symbolic)" for p, c in self.conds
                              if not z3.is_true(z3.simplify(c))])[:6]


def same(a, b):
    c = Cmp()
    c.walk(a, b)
    return c.result(), c.where()


def _mask_image_unit_name(v):
    """view / JSON with the unit_name of OpenDocumentImage objects removed (class of the known
    ODT finding: iterate_units writes image.unit_name)"""
    if isinstance(v, dict):
        odi = v.get("__class__") == "OpenDocumentImage" or v.get("_type") == "OpenDocumentImage"
        return {k: _mask_image_unit_name(x) for k, x in v.items() if not (odi and k == "unit_name")}
    if isinstance(v, (list, tuple)):
        return [_mask_image_unit_name(x) for x in v]
    return v


# =======================================================================================
# K1: instances
# =======================================================================================

class G:
    """draws the parameters of one instance.  size 0: fixed maximal structure, only the symbolic
    values vary; size >= 1: element counts and vocabulary entries are choices"""

    def __init__(self, ctx, size):
        self.ctx = ctx
        self.sz = size

    def count(self, name, limit):
        if self.sz == 0 or limit <= 0:
            return max(limit, 0)
        return self.ctx.choice(name, limit + 1)

    def pick(self, name, options, tiny=None):
        if self.sz == 0 and tiny is not None:
            return options[tiny]
        return options[self.ctx.choice(name, len(options))]

    def int(self, name, lo, hi):
        return self.ctx.fresh_int(name, lo, hi)

    def opt_int(self, name, lo, hi):
        """None or a symbolic int"""
        if self.ctx.flag(name + "_is_none"):
            return None
        return self.ctx.fresh_int(name, lo, hi)

    def bool(self, name):
        return self.ctx.fresh_bool(name)

    def chars(self, name, maxlen, lo, hi):
        n = self.ctx.choice(name + "_len", maxlen + 1)
        return self.ctx.fresh_chars(name, n, lo, hi)


PNG = b"\x89PNG\r\n\x1a\n" + b"\x00" * 8
TABLE = [["h1", "h2"], ["a", "b"]]


def _tables(g, name, limit):
    n = g.count(name, limit)
    return [[["h1", "h2"], ["a%d" % i, "b"]] if i % 2 == 0 else [] for i in range(n)]


def spec_email(g):
    dt = _dt()
    plain = g.chars("body_plain", 1 if g.sz == 0 else 2, 32, 33)      # ' ' or '!'
    html = g.chars("body_html", 1, 32, 33)
    n_att = g.count("attachments", 0 if g.sz == 0 else 1)
    supported = [g.ctx.flag("attachment%d_supported" % i) for i in range(n_att)]

    def make():
        return dt.EmailContent(
            from_email=dt.EmailAddress("n", "a@b.c"), subject=" subj ", body_plain=plain, body_html=html,
            to_emails=[dt.EmailAddress("", "x@y.z")],
            attachments=[dt.EmailAttachment("a%d.txt" % i, "text/plain", io.BytesIO(b"attached text %d" % i), s)
                         for i, s in enumerate(supported)],
            metadata=dt.EmailMetadata(filename="m.eml", date="d", message_id="<1>"))
    return make


def spec_plain(g):
    dt = _dt()
    content = g.chars("content", 2, 32, 33)
    fn = g.pick("filename", [None, "a.txt"], 1)

    def make():
        return dt.PlainTextContent(content=content, metadata=dt.FileMetadataInterface(filename=fn))
    return make


def spec_html(g):
    dt = _dt()
    content = g.chars("content", 2, 32, 33)
    tabs = _tables(g, "tables", 2)

    def make():
        return dt.HtmlContent(content=content, tables=[[list(r) for r in t] for t in tabs],
                              headings=[{"level": "h1", "text": "H"}], links=[{"text": "l", "href": "u"}],
                              metadata=dt.HtmlMetadata(title="T"))
    return make


def _doc_images(g, limit):
    out = []
    for i in range(g.count("images", limit)):
        out.append(dict(image_number=g.int("img%d_number" % i, 0, 3), caption=g.pick("img%d_caption" % i, ["", "cap1"], i % 2),
                        width=g.opt_int("img%d_width" % i, -1, 2), height=g.int("img%d_height" % i, -1, 2),
                        unit_number=g.opt_int("img%d_unit" % i, 0, 3)))
    return out


def spec_doc(g):
    dt = _dt()
    texts = ["Chapter 1\nbody cap1\nh1 h2 a0 b\nSubsection a\nmore\nChapter 2\nlast", "", "plain line cap1",
             "Intro\nx\nChapter 2\ny"]
    text = g.pick("main_text", texts, 0)
    tabs = _tables(g, "tables", 1 if g.sz < 2 else 2)
    title = g.pick("title", ["", "T"], 1)
    imgs = _doc_images(g, 1 if g.sz < 2 else 2)

    def make():
        return dt.DocContent(main_text=text, footnotes="f", tables=[[list(r) for r in t] for t in tabs],
                             images=[dt.DocImage(content_type=" image/png ", data=PNG, size_bytes=len(PNG), **i) for i in imgs],
                             metadata=dt.DocMetadata(title=title, num_pages=1))
    return make


def spec_docx(g):
    dt = _dt()
    styles = [None, "Heading 1", "Heading 2", "Normal"]
    n = g.count("paragraphs", 2 if g.sz < 2 else 3)
    paras = []
    for i in range(n):
        paras.append((g.pick("para%d_style" % i, styles, (1, 0, 2)[i % 3]), g.pick("para%d_text" % i, ["t%d" % i, ""], i % 2),
                      g.bool("para%d_page_break" % i)))
    imgs = []
    for i in range(g.count("images", 1 if g.sz < 2 else 2)):
        anchored = True if g.sz == 0 else g.ctx.flag("img%d_anchored" % i)
        imgs.append(dict(anchor_paragraph_indices=[g.int("img%d_anchor" % i, 0, max(n, 1))] if anchored else [],
                         width=g.opt_int("img%d_width" % i, -1, 2), has_data=g.pick("img%d_has_data" % i, [True, False], 0)))
    tabs = _tables(g, "tables", 1 if g.sz < 2 else 2)
    anchors_ok = g.pick("table_anchors_given", [True, False], 0)
    tab_anchors = [g.int("table%d_anchor" % i, 0, max(n, 1)) for i in range(len(tabs))] if anchors_ok else [0] * (len(tabs) + 1)
    title = g.pick("title", ["", "T"], 1)

    def make():
        return dt.DocxContent(
            metadata=dt.DocxMetadata(title=title, revision=3),
            paragraphs=[dt.DocxParagraph(text=t, style=s, has_page_break=b, runs=[dt.DocxRun(text=t, bold=True)])
                        for s, t, b in paras],
            tables=[[list(r) for r in t] for t in tabs], table_anchor_paragraph_indices=list(tab_anchors),
            headers=[dt.DocxHeaderFooter("default", "hdr")],
            images=[dt.DocxImage(rel_id="rId%d" % k, filename="i.png", content_type="image/png ",
                                 data=io.BytesIO(PNG) if i["has_data"] else None, width=i["width"], height=1,
                                 image_index=k + 1, caption=" c ", anchor_paragraph_indices=list(i["anchor_paragraph_indices"]))
                    for k, i in enumerate(imgs)],
            styles=["Normal"], formulas=[dt.DocxFormula("x", True)], full_text="full text")
    return make


def spec_pdf(g):
    dt = _dt()
    pages = []
    for p in range(g.count("pages", 2)):
        imgs = [dict(index=g.int("p%d_img%d_index" % (p, i), 0, 3), width=g.int("p%d_img%d_width" % (p, i), -1, 2),
                     height=g.int("p%d_img%d_height" % (p, i), -1, 2), unit_name=g.opt_int("p%d_img%d_unit" % (p, i), 0, 3))
                for i in range(g.count("p%d_images" % p, 1 if g.sz < 2 else 2))]
        pages.append((g.pick("p%d_text" % p, [" page text ", ""], 0), imgs, _tables(g, "p%d_tables" % p, 1 if g.sz < 2 else 2)))

    def make():
        return dt.PdfContent(pages=[dt.PdfPage(text=t, images=[dt.PdfImage(name="Im", caption=" c ", data=PNG,
                                                                           content_type=" image/png", **i) for i in imgs],
                                               tables=[[list(r) for r in tb] for tb in tabs]) for t, imgs, tabs in pages],
                             metadata=dt.PdfMetadata(total_pages=len(pages)))
    return make


def spec_ppt(g):
    dt = _dt()
    slides = []
    for s in range(g.count("slides", 2)):
        imgs = [dict(slide_number=g.int("s%d_img%d_slide" % (s, i), -1, 2), width=g.opt_int("s%d_img%d_width" % (s, i), -1, 2))
                for i in range(g.count("s%d_images" % s, 1))]
        slides.append((g.int("s%d_number" % s, 0, 3), g.pick("s%d_title" % s, ["Title", None, ""], 0), imgs))

    def make():
        return dt.PptContent(metadata=dt.PptMetadata(title="T", num_slides=len(slides)),
                             slides=[dt.PptSlideContent(slide_number=n, title=t, body_text=["b1", " b2 "], other_text=["o"],
                                                        all_text=[dt.PptTextBlock("b1", 1, is_body=True)], notes=["n"],
                                                        images=[dt.PptImage(image_index=k + 1, content_type="image/png",
                                                                            data=PNG, size_bytes=len(PNG), height=1, **i)
                                                                for k, i in enumerate(imgs)])
                                     for n, t, imgs in slides],
                             master_text=["m"], all_text=["b1"], streams=[["x"]])
    return make


def spec_pptx(g):
    dt = _dt()
    slides = []
    for s in range(g.count("slides", 2)):
        forms = [g.bool("s%d_formula%d_display" % (s, i)) for i in range(g.count("s%d_formulas" % s, 1 if g.sz < 2 else 2))]
        imgs = [dict(width=g.opt_int("s%d_img%d_width" % (s, i), -1, 2), description=g.pick("s%d_img%d_desc" % (s, i), ["alt", ""], 0))
                for i in range(g.count("s%d_images" % s, 1))]
        slides.append((g.pick("s%d_base_text" % s, ["base ", ""], 0), forms, imgs, _tables(g, "s%d_tables" % s, 1)))

    def make():
        return dt.PptxContent(
            metadata=dt.PptxMetadata(title="T", revision=2),
            slides=[dt.PptxSlide(slide_number=k + 1, title="t", content_placeholders=["c"], tables=[[list(r) for r in tb] for tb in tabs],
                                 images=[dt.PptxImage(image_index=j + 1, filename="i.png", content_type="image/png", blob=PNG,
                                                      height=1, caption="cap", slide_number=k + 1, **i) for j, i in enumerate(imgs)],
                                 formulas=[dt.PptxFormula("x^2", d) for d in forms], comments=[dt.PptxComment("a", "c", "d")],
                                 text="t", base_text=bt) for k, (bt, forms, imgs, tabs) in enumerate(slides)])
    return make


def spec_xls(g):
    dt = _dt()
    sheets = []
    for s in range(g.count("sheets", 2)):
        rows = g.pick("sheet%d_rows" % s, [[{"A": 1, "B": None}, {"A": "x", "B": 2.5}], [], [{"A": None}]], 0)
        sheets.append((rows, g.pick("sheet%d_text" % s, [" A B ", ""], 0)))
    imgs = [dict(width=g.opt_int("img%d_width" % i, -1, 2), height=g.opt_int("img%d_height" % i, -1, 2))
            for i in range(g.count("images", 1 if g.sz < 2 else 2))]

    def make():
        return dt.XlsContent(metadata=dt.XlsMetadata(title="T"),
                             sheets=[dt.XlsSheet(name="S%d" % k, data=[dict(r) for r in rows], text=t)
                                     for k, (rows, t) in enumerate(sheets)],
                             images=[dt.XlsImage(image_index=k + 1, content_type=" image/png", data=PNG, size_bytes=len(PNG), **i)
                                     for k, i in enumerate(imgs)], full_text=" full ")
    return make


def spec_xlsx(g):
    dt = _dt()
    sheets = []
    for s in range(g.count("sheets", 2)):
        imgs = [dict(width=g.int("s%d_img%d_width" % (s, i), -1, 2), height=g.int("s%d_img%d_height" % (s, i), -1, 2),
                     has_data=g.pick("s%d_img%d_has_data" % (s, i), [True, False], 0))
                for i in range(g.count("s%d_images" % s, 1 if g.sz < 2 else 2))]
        sheets.append((g.pick("s%d_data" % s, [[["h", 1], [None, 2.5]], []], 0), imgs))

    def make():
        return dt.XlsxContent(
            metadata=dt.XlsxMetadata(title="T"),
            sheets=[dt.XlsxSheet(name="S%d" % k, data=[list(r) for r in data], text=" txt ",
                                 images=[dt.XlsxImage(image_index=j + 1, sheet_index=k, filename="i.png", content_type="image/png",
                                                      data=io.BytesIO(PNG) if i["has_data"] else None, size_bytes=len(PNG),
                                                      width=i["width"], height=i["height"], caption="c", description="d")
                                         for j, i in enumerate(imgs)]) for k, (data, imgs) in enumerate(sheets)])
    return make


_ODF_LENGTHS = ["2cm", None, "", "1.5in", "wide"]


def _od_images(g, prefix, limit, unit_lo=0, unit_hi=3, captions=("", "cap1")):
    out = []
    for i in range(g.count(prefix + "images", limit)):
        out.append(dict(width=g.pick("%simg%d_width" % (prefix, i), _ODF_LENGTHS, 0),
                        caption=g.pick("%simg%d_caption" % (prefix, i), list(captions), i % len(captions)),
                        description=g.pick("%simg%d_description" % (prefix, i), ["", "Intro"], 0),
                        unit_name=g.opt_int("%simg%d_unit_name" % (prefix, i), unit_lo, unit_hi),
                        has_data=g.pick("%simg%d_has_data" % (prefix, i), [True, False], 0)))
    return out


def _od_image(dt, k, i):
    return dt.OpenDocumentImage(href="Pictures/%d.png" % k, name="n%d" % k, content_type="image/png",
                                data=io.BytesIO(PNG) if i["has_data"] else None, size_bytes=len(PNG), width=i["width"],
                                height="1cm", image_index=k + 1, caption=i["caption"], description=i["description"],
                                unit_name=i["unit_name"])


def spec_odg(g):
    dt = _dt()
    imgs = _od_images(g, "", 2)

    def make():
        return dt.OdgContent(metadata=dt.OpenDocumentMetadata(title="T", editing_cycles=2), full_text=" drawing text ",
                             images=[_od_image(dt, k, i) for k, i in enumerate(imgs)])
    return make


def spec_odf(g):
    dt = _dt()
    text = g.pick("full_text", [" a+b ", ""], 0)

    def make():
        return dt.OdfContent(metadata=dt.OpenDocumentMetadata(title="T"), full_text=text)
    return make


def spec_odp(g):
    dt = _dt()
    slides = []
    for s in range(g.count("slides", 2)):
        slides.append((g.int("s%d_number" % s, 0, 3), g.pick("s%d_title" % s, ["Title", ""], 0),
                       _od_images(g, "s%d_" % s, 1), _tables(g, "s%d_tables" % s, 1)))

    def make():
        return dt.OdpContent(metadata=dt.OpenDocumentMetadata(title="T"),
                             slides=[dt.OdpSlide(slide_number=n, name="page", title=t, body_text=["b"], other_text=[" o "],
                                                 tables=[[list(r) for r in tb] for tb in tabs],
                                                 annotations=[dt.OpenDocumentAnnotation("c", "d", "t")],
                                                 images=[_od_image(dt, k, i) for k, i in enumerate(imgs)], notes=["n"])
                                     for n, t, imgs, tabs in slides])
    return make


def spec_ods(g):
    dt = _dt()
    sheets = []
    for s in range(g.count("sheets", 2)):
        sheets.append((g.pick("s%d_data" % s, [[["h", 1], [None, 2.5]], []], 0), g.pick("s%d_name" % s, ["Sheet", ""], 0),
                       _od_images(g, "s%d_" % s, 1)))

    def make():
        return dt.OdsContent(metadata=dt.OpenDocumentMetadata(title="T"),
                             sheets=[dt.OdsSheet(name=nm, data=[list(r) for r in data], text=" txt ",
                                                 annotations=[dt.OpenDocumentAnnotation("c", "d", "t")],
                                                 images=[_od_image(dt, k, i) for k, i in enumerate(imgs)])
                                     for data, nm, imgs in sheets])
    return make


def spec_odt(g):
    dt = _dt()
    ctx = g.ctx
    kinds = ["heading", "body", "table-paragraph", "blank-heading"]
    n = g.count("paragraphs", 3 if g.sz != 1 else 2)
    paras = []
    for i in range(n):
        kind = g.pick("para%d_kind" % i, kinds, (0, 1, 0)[i % 3])
        if kind == "heading":
            paras.append(("Head %d" % i, None, g.int("para%d_outline_level" % i, 1, 3)))
        elif kind == "blank-heading":
            paras.append(("  ", None, g.int("para%d_outline_level" % i, 1, 3)))
        elif kind == "body":
            paras.append((g.pick("para%d_text" % i, ["Intro cap1 h1 h2", "other"], 0), "Standard", None))
        else:
            paras.append(("cell", ctx.fresh_chars("para%d_style" % i, 6, 84, 122), None))
    imgs = _od_images(g, "", 1 if g.sz < 2 else 2)
    n_tabs = g.count("tables", 1 if g.sz < 2 else 2)
    title = g.pick("title", ["", "T"], 1)

    def make():
        return dt.OdtContent(
            metadata=dt.OpenDocumentMetadata(title=title),
            paragraphs=[dt.OdtParagraph(text=t, style_name=s, outline_level=lv, runs=[dt.OdtRun(text=t)]) for t, s, lv in paras],
            tables=[dt.OdtTable(data=[["h1", "h2"], ["a%d" % i, "b"]] if i % 2 == 0 else []) for i in range(n_tabs)],
            headers=[dt.OdtHeaderFooter("header", "hd")], images=[_od_image(dt, k, i) for k, i in enumerate(imgs)],
            hyperlinks=[dt.OdtHyperlink("l", "u")], footnotes=[dt.OdtNote("1", "footnote", "fn")],
            annotations=[dt.OpenDocumentAnnotation("c", "d", "t")], bookmarks=[dt.OdtBookmark("b")], styles=["Standard"],
            full_text="Intro cap1 h1 h2")
    return make


def spec_rtf(g):
    dt = _dt()
    pages = g.pick("pages", [["page one", " ", "page three"], [], ["only"]], 0)
    full_text = g.pick("full_text", ["full", ""], 0)
    imgs = [dict(page_number=g.opt_int("img%d_page" % i, 0, 3), width=g.int("img%d_width" % i, -1, 31),
                 has_data=g.pick("img%d_has_data" % i, [True, False], 0))
            for i in range(g.count("images", 1 if g.sz < 2 else 2))]
    tabs = [g.opt_int("table%d_page" % i, 0, 3) for i in range(g.count("tables", 1 if g.sz < 2 else 2))]

    def make():
        return dt.RtfContent(
            metadata=dt.RtfMetadata(title="T", num_pages=len(pages)), fonts=[dt.RtfFont(0, "roman", "Times")],
            colors=[dt.RtfColor(1, 255, 0, 0)], styles=[dt.RtfStyle(0, "paragraph", "Normal")],
            paragraphs=[dt.RtfParagraph(text="para"), dt.RtfParagraph(text="  ")], headers=[dt.RtfHeaderFooter("header", "h")],
            hyperlinks=[dt.RtfHyperlink("l", "u")], fields=[dt.RtfField("PAGE", "PAGE", "1")],
            images=[dt.RtfImage(image_type="PNG", width=i["width"], height=30, data=PNG if i["has_data"] else None,
                                image_index=k + 1, page_number=i["page_number"], caption=" c ") for k, i in enumerate(imgs)],
            tables=[dt.RtfTable(data=[["h1", "h2"], ["a", "b"]], table_index=k + 1, page_number=p) for k, p in enumerate(tabs)],
            footnotes=[dt.RtfFootnote(1, "fn")], pages=list(pages), full_text=full_text, raw_text_blocks=["raw"])
    return make


def spec_epub(g):
    dt = _dt()
    chapters = []
    for c in range(g.count("chapters", 2)):
        chapters.append((g.int("ch%d_number" % c, 0, 3), g.pick("ch%d_text" % c, [" chapter text ", ""], 0),
                         g.count("ch%d_images" % c, 1), _tables(g, "ch%d_tables" % c, 1)))
    imgs = [dict(width=g.opt_int("img%d_width" % i, -1, 2), unit_index=g.opt_int("img%d_unit" % i, 0, 3),
                 has_data=g.pick("img%d_has_data" % i, [True, False], 0))
            for i in range(max([0] + [k for _, _, k, _ in chapters]) + g.count("unreferenced_images", 1))]

    def make():
        images = [dt.EpubImage(image_index=k + 1, href="i%d.png" % k, content_type=" image/png",
                               data=io.BytesIO(PNG) if i["has_data"] else None, size_bytes=len(PNG), width=i["width"], height=1,
                               unit_index=i["unit_index"]) for k, i in enumerate(imgs)]
        return dt.EpubContent(metadata=dt.EpubMetadata(title="T", epub_version="3.0"),
                              chapters=[dt.EpubChapter(chapter_number=n, href="c%d.xhtml" % k, title="Ch", text=t,
                                                       images=images[:ni], tables=[[list(r) for r in tb] for tb in tabs])
                                        for k, (n, t, ni, tabs) in enumerate(chapters)],
                              images=images, toc=[{"title": "Ch", "href": "c0.xhtml"}])
    return make


SPECS = {"email": spec_email, "plain": spec_plain, "html": spec_html, "doc": spec_doc, "docx": spec_docx, "pdf": spec_pdf,
         "ppt": spec_ppt, "pptx": spec_pptx, "xls": spec_xls, "xlsx": spec_xlsx, "odg": spec_odg, "odf": spec_odf,
         "odp": spec_odp, "ods": spec_ods, "odt": spec_odt, "rtf": spec_rtf, "epub": spec_epub}


def _content_classes():
    """every dataclass of data_types that implements the extraction interface (found live, so a
    new content type without a generator makes the kernel inconclusive instead of silently
    uncovered)"""
    dt = _dt()
    out = {}
    for name, obj in vars(dt).items():
        if isinstance(obj, type) and dataclasses.is_dataclass(obj) and name.endswith("Content") and \
                all(hasattr(obj, m) for m in ("iterate_units", "iterate_images", "iterate_tables", "get_full_text",
                                              "get_metadata", "to_json")):
            out[name] = obj
    return out


# =======================================================================================
# K1: observers
# =======================================================================================

def _table_view(t):
    return [view(t), view(t.get_table()), view(t.get_dim())]


def _image_view(i):
    return [view(i.get_metadata()), view(i.get_caption()), view(i.get_description()), view(i.get_content_type()),
            i.get_bytes().read()]


def _unit_images(c):
    return [[view(i) for i in u.get_images()] for u in c.iterate_units()]


def _unit_tables(c):
    return [[_table_view(t) for t in u.get_tables()] for u in c.iterate_units()]


def _unit_details(c):
    return [[view(u.get_text()), view(u.get_metadata()), view(u.to_json())] for u in c.iterate_units()]


def _first_unit_only(c):
    it = c.iterate_units()
    try:
        u = next(it, None)
    finally:
        if hasattr(it, "close"):
            it.close()
    return view(u)


def _first_image_only(c):
    it = c.iterate_images()
    i = next(it, None)
    it.close()
    return None if i is None else [view(i), i.get_bytes().read(1)]


BASE_OBSERVERS = [
    ("get_full_text", lambda c: view(c.get_full_text())),
    ("list(iterate_units)", lambda c: [view(u) for u in c.iterate_units()]),
    ("iterate_images", lambda c: [view(i) for i in c.iterate_images()]),
    ("iterate_tables", lambda c: [_table_view(t) for t in c.iterate_tables()]),
    ("get_metadata", lambda c: view(c.get_metadata())),
    ("to_json", lambda c: view(c.to_json())),
]
MERGED = [("units: get_images/get_tables/get_text/get_metadata/to_json",
           lambda c: [_unit_images(c), _unit_tables(c), _unit_details(c)]),
          ("images: get_metadata/get_caption/get_description/get_content_type/get_bytes().read()",
           lambda c: [_image_view(i) for i in c.iterate_images()])]
SPLIT = [("units: get_images", _unit_images), ("units: get_tables", _unit_tables),
         ("units: get_text/get_metadata/to_json", _unit_details),
         ("images: get_metadata/get_caption/get_description/get_content_type/get_bytes().read()",
          lambda c: [_image_view(i) for i in c.iterate_images()]),
         ("first unit only (iterator abandoned)", _first_unit_only),
         ("first image only, one byte read", _first_image_only)]
EXTRA = {
    "pptx": [("get_full_text/iterate_units(include_image_captions=True)",
              lambda c: [view(c.get_full_text(include_image_captions=True)),
                         [view(u) for u in c.iterate_units(include_image_captions=True)]])],
    "email": [("iterate_supported_attachments", lambda c: [view(x.get_full_text()) for x in c.iterate_supported_attachments()])],
}


def _observers(kind, alphabet):
    return BASE_OBSERVERS + (SPLIT if alphabet == "split" else MERGED) + EXTRA.get(kind, [])


def _observe(fn, c):
    try:
        return fn(c)
    except Exception as e:
        return {"__raised__": type(e).__name__, "msg": str(e)[:80]}


_VARIANTS = {}


def _join_variant():
    """data_types._join_unit_text with its '<sep>'.join(...) rewritten to a CharStr-aware join (the
    function's own source, read live).  Installed in symbolic runs only; replay runs the original."""
    dt = _dt()
    fn = dt._join_unit_text
    if fn in _VARIANTS:
        return _VARIANTS[fn]
    import ast
    import inspect
    import textwrap

    def sx_join(sep, items):
        items = list(items)
        if not any(isinstance(p, S.CharStr) for p in items):
            return sep.join(items)
        return S.CharStr(sep).join(items)

    class RW(ast.NodeTransformer):
        def visit_Call(self, node):
            self.generic_visit(node)
            f = node.func
            if isinstance(f, ast.Attribute) and f.attr == "join" and isinstance(f.value, ast.Constant) \
                    and isinstance(f.value.value, str) and len(node.args) == 1 and not node.keywords:
                return ast.copy_location(ast.Call(func=ast.Name("_sx_join", ast.Load()),
                                                  args=[f.value, node.args[0]], keywords=[]), node)
            return node

    tree = ast.parse(textwrap.dedent(inspect.getsource(fn)))
    fd = tree.body[0]
    fd.returns = None
    for a in fd.args.args:
        a.annotation = None
    tree = ast.fix_missing_locations(RW().visit(tree))
    glob = dict(fn.__globals__)
    glob["_sx_join"] = sx_join
    exec(compile(tree, inspect.getsourcefile(fn), "exec"), glob)
    _VARIANTS[fn] = glob[fd.name]
    return _VARIANTS[fn]


KNOWN_ODT = "C06-odt-iterate-units-writes-image-unit-name"


def k1_observers(ctx):
    dt = _dt()
    kind = ctx.params.get("type", "odt")
    L = ctx.params.get("L", 2)
    alphabet = ctx.params.get("alphabet", "merged")
    if kind not in SPECS:
        raise S.BoundExceeded("no instance generator for content type %s" % kind)
    ctx.decision_memo = {}
    obs = list(_observers(kind, alphabet))
    calls = [0]
    if ctx.perturb == "observer_writes_metadata":
        def bad(c):
            m = c.get_metadata()
            m.filename = "seen"
            return view(m)
        obs[0] = ("get_metadata (writes filename)", bad)
    if ctx.perturb == "observer_counts_calls":
        def counting(c):
            c.__dict__["_n"] = c.__dict__.get("_n", 0) + 1
            return [c.__dict__["_n"], view(c.get_full_text())]
        obs[0] = ("get_full_text (with call counter)", counting)
    with ctx.shadow(dt, _join_unit_text=_join_variant() if not ctx.concrete else None):
        make = SPECS[kind](G(ctx, ctx.params.get("size", 1)))
        seq = [ctx.choice("observer%d" % i, len(obs)) for i in range(L)]
        names = [obs[i][0] for i in seq]
        mask = _mask_image_unit_name if kind == "odt" else (lambda v: v)
        skip_known = KNOWN_ODT in ctx.params.get("known_active", [])
        c = make()
        before = view(c.to_json())
        fresh = {}
        for step, oi in enumerate(seq):
            name, fn = obs[oi]
            got = _observe(fn, c)
            if oi not in fresh:
                fresh[oi] = _observe(fn, make())
            info = dict(type=kind, sequence=names[:step + 1])
            r, where = same(mask(got), mask(fresh[oi]))
            ctx.require(r, "observer-result-depends-on-history", differs_at=where, **info)
            after = view(c.to_json())
            r2, where2 = same(mask(after), mask(before))
            ctx.require(r2, "to_json-changed-by-observers", differs_at=where2, **info)
            if kind == "odt" and not skip_known:
                r, where = same(got, fresh[oi])
                ctx.require(r, "observer-result-depends-on-history", differs_at=where, only="OpenDocumentImage.unit_name", **info)
                r2, where2 = same(after, before)
                ctx.require(r2, "to_json-changed-by-observers", differs_at=where2, only="OpenDocumentImage.unit_name", **info)


def _k1_parts(tier):
    kinds = sorted(SPECS)
    missing = [n for n in _content_classes() if n[:-len("Content")].lower().replace("plaintext", "plain") not in SPECS]
    parts = []
    for k in kinds:
        if tier == "quick":
            parts += [{"type": k, "L": 3, "size": 0, "alphabet": "merged"}, {"type": k, "L": 2, "size": 1, "alphabet": "merged"}]
        else:
            parts += [{"type": k, "L": 3, "size": 1, "alphabet": "merged"}, {"type": k, "L": 2, "size": 2, "alphabet": "split"},
                      {"type": k, "L": 3, "size": 0, "alphabet": "split"}]
    parts += [{"type": m, "L": 1, "size": 0} for m in missing]
    return parts


def _k1_targets():
    out = []
    for cls in _content_classes().values():
        out += [cls.iterate_units, cls.get_full_text, cls.iterate_images, cls.iterate_tables]
    from sharepoint2text.parsing.extractors import serialization
    return out + [serialization._serialize_for_json, serialization._bytesio_to_base64]


KERNELS = [
    Kernel("K1", "observers are idempotent and leave to_json() unchanged: every content type, every sequence of <= 3 observers",
           k1_observers, targets=_k1_targets, parts=_k1_parts,
           perturb=[("observer_writes_metadata", {"type": "pdf", "L": 2, "size": 0}),
                    ("observer_counts_calls", {"type": "xlsx", "L": 2, "size": 0})],
           timeout={"quick": 100, "thorough": 1100}, max_depth=600),
]

META = {"level_text": "", "level_note": "", "technique": ""}
