"""C06 - extraction is a deterministic, side-effect-free function; observers are idempotent.

K1  observer idempotence on small content instances of every content type (symbolic ints /
    bools / characters where the observers branch on them), every sequence of <= 3 observers
K2  set-to-sequence sites located by AST scan, iteration order as a symbolic permutation,
    replay through the public readers under different PYTHONHASHSEED values
K3  stream handling: position restored where promised, parsers started at offset 0, never
    written; stand-in stream with symbolic position
K4  public readers leave the caller's buffer unchanged and do not depend on its position
K5  extraction histories: sequences of generated documents (same part names / ids, different content; every member
    of the package missing in turn, references dangling or removed; path aliasing; pairs of formats) extracted in one
    process, every step compared with the same (bytes, path) in a process of its own; AST scan for state that
    outlives an extraction, each site exercised by some sequence or declared outside
"""
import base64
import dataclasses
import io
import os

import z3

from vf.core import Kernel
from vf import symrun as S


def _dt():
    from sharepoint2text.parsing.extractors import data_types
    return data_types


# =======================================================================================
# comparison of observed values (python values and proxies alike)
# =======================================================================================

_PROXY = (S.SymInt, S.SymBool, S.SymBV, S.CharStr)


def view(x):
    """canonical plain structure of anything an observer returns"""
    if x is None or isinstance(x, _PROXY) or isinstance(x, (str, int, float, bool, bytes)):
        return x
    if isinstance(x, bytearray):
        return bytes(x)
    if isinstance(x, io.BytesIO):
        return {"__bytesio__": x.getvalue()}
    if dataclasses.is_dataclass(x) and not isinstance(x, type):
        d = {"__class__": type(x).__name__}
        for f in dataclasses.fields(x):
            d[f.name] = view(getattr(x, f.name))
        return d
    if isinstance(x, dict):
        return {str(k): view(v) for k, v in x.items()}
    if isinstance(x, (list, tuple)):
        return [view(v) for v in x]
    if isinstance(x, (set, frozenset)):
        return {"__set__": sorted(repr(v) for v in x)}
    return {"__object__": type(x).__name__, "repr": repr(x)}


class Cmp:
    """structural equality of two views: definite differences (python level) and symbolic
    conditions (z3) are collected separately"""

    def __init__(self):
        self.diffs = []
        self.conds = []

    def leaf(self, a, b, path):
        if a is b:
            return
        if isinstance(a, S.CharStr) or isinstance(b, S.CharStr):
            if isinstance(a, S.CharStr) and isinstance(b, (S.CharStr, str)):
                r = S.CharStr.__eq__(a, b)
            elif isinstance(a, str):
                r = S.CharStr.__eq__(b, a)
            else:
                r = False
        elif isinstance(a, _PROXY) or isinstance(b, _PROXY):
            p, q = (a, b) if isinstance(a, _PROXY) else (b, a)
            if q is None or isinstance(q, (str, bytes, float, list, dict)):
                r = False
            else:
                r = p.__eq__(q)
                if r is NotImplemented:
                    r = False
        else:
            r = type(a) is type(b) and a == b
        if r is True:
            return
        if r is False:
            self.diffs.append(path)
        else:
            self.conds.append((path, r.z if isinstance(r, S.SymBool) else r))

    ordered_mappings = False      # twin: insertion order of a mapping counts as part of its value

    def mapping(self, ea, eb, path):
        """two lists of [key, value] with pairwise distinct keys denote the same mapping"""
        if len(ea) != len(eb):
            self.diffs.append(path + "{size}")
            return
        for i, (ka, va) in enumerate(ea):
            alts, hit = [], False
            for kb, vb in eb:
                sub = Cmp()
                sub.walk(ka, kb)
                sub.walk(va, vb)
                r = sub.result()
                if r is True:
                    hit = True
                    break
                if r is not False:
                    alts.append(r)
            if hit:
                continue
            if not alts:
                self.diffs.append(path + "/entry%d" % i)
            else:
                self.conds.append((path + "/entry%d" % i, z3.Or(*alts) if len(alts) > 1 else alts[0]))

    def walk(self, a, b, path=""):
        if a is b:
            return
        if isinstance(a, dict) and isinstance(b, dict) and "__mapping__" in a and "__mapping__" in b and not Cmp.ordered_mappings:
            self.mapping(a["__mapping__"], b["__mapping__"], path)
        elif isinstance(a, dict) and isinstance(b, dict):
            if set(a) != set(b):
                self.diffs.append(path + "{keys}")
                return
            for k in a:
                self.walk(a[k], b[k], path + "/" + str(k))
        elif isinstance(a, (list, tuple)) and isinstance(b, (list, tuple)):
            if len(a) != len(b):
                self.diffs.append(path + "[len]")
                return
            for i, (x, y) in enumerate(zip(a, b)):
                self.walk(x, y, path + "/%d" % i)
        else:
            self.leaf(a, b, path)

    def result(self):
        """python bool or z3 Bool"""
        if self.diffs:
            return False
        if not self.conds:
            return True
        zs = [c for _, c in self.conds]
        return z3.And(*zs) if len(zs) > 1 else zs[0]

    def where(self):
        return (self.diffs + [p + " (symbolic)" for p, c in self.conds
                              if not z3.is_true(z3.simplify(c))])[:6]


def same(a, b):
    c = Cmp()
    c.walk(a, b)
    return c.result(), c.where()


def _mask_image_unit_name(v):
    """view / JSON with the unit_name of OpenDocumentImage objects (and the unit_number of the
    ImageMetadata derived from it) removed: class of the known ODT finding (iterate_units writes
    image.unit_name)"""
    if isinstance(v, dict):
        cls = v.get("__class__") or v.get("_type")
        drop = {"OpenDocumentImage": "unit_name", "ImageMetadata": "unit_number"}.get(cls)
        return {k: _mask_image_unit_name(x) for k, x in v.items() if k != drop}
    if isinstance(v, (list, tuple)):
        return [_mask_image_unit_name(x) for x in v]
    return v


# =======================================================================================
# K1: instances
# =======================================================================================

class G:
    """draws the parameters of one instance.  size 0: one of everything, only the symbolic values
    that reach branches vary; size 1: element counts are choices; size 2: more elements, and the
    attribute vocabularies / optional values are choices too"""

    def __init__(self, ctx, size):
        self.ctx = ctx
        self.sz = size

    def count(self, name, *limits):
        """limits per size (last one repeats); size 0: exactly that many, else a choice 0..limit"""
        lim = limits[min(self.sz, len(limits) - 1, 1)]       # sizes >= 2 widen the vocabularies, not the counts
        if self.sz == 0 or lim <= 0:
            return max(lim, 0)
        return self.ctx.pick(name, lim + 1)

    def pick(self, name, options, default=0, lvl=1):
        if self.sz < lvl:
            return options[default]
        return options[self.ctx.pick(name, len(options))]

    def int(self, name, lo, hi, lvl=0, default=None):
        if self.sz < lvl:
            return hi if default is None else default
        return self.ctx.fresh_int(name, lo, hi)

    def opt_int(self, name, lo, hi, lvl=0, none_lvl=2, default=None):
        """None (a choice from size none_lvl on) or a symbolic int (from size lvl on)"""
        if self.sz >= none_lvl and self.ctx.pick(name + "_is_none", 2):
            return None
        return self.int(name, lo, hi, lvl, default)

    def bool(self, name):
        return self.ctx.fresh_bool(name)

    def chars(self, name, maxlen, lo, hi):
        n = maxlen if self.sz == 0 else self.ctx.pick(name + "_len", maxlen + 1)
        return self.ctx.fresh_chars(name, n, lo, hi)


PNG = b"\x89PNG\r\n\x1a\n" + b"\x00" * 8


def _tables(g, name, *limits):
    n = g.count(name, *limits)
    return [[["h1", "h2"], ["a%d" % i, "b"]] if i % 2 == 0 else [] for i in range(n)]


def _rows(t):
    return [list(r) for r in t]


def spec_email(g):
    dt = _dt()
    plain = g.chars("body_plain", (1, 2, 2)[min(g.sz, 2)], 32, 33)      # ' ' or '!'
    html = g.chars("body_html", 1, 32, 33)
    supported = [bool(g.ctx.pick("attachment%d_supported" % i, 2)) for i in range(g.count("attachments", 0, 1, 2))]

    def make():
        return dt.EmailContent(
            from_email=dt.EmailAddress("n", "a@b.c"), subject=" subj ", body_plain=plain, body_html=html,
            to_emails=[dt.EmailAddress("", "x@y.z")],
            attachments=[dt.EmailAttachment("a%d.txt" % i, "text/plain", io.BytesIO(b"attached text %d" % i), s)
                         for i, s in enumerate(supported)],
            metadata=dt.EmailMetadata(filename="m.eml", date="d", message_id="<1>"))
    return make


def spec_plain(g):
    dt = _dt()
    content = g.chars("content", 2, 32, 33)
    fn = g.pick("filename", ["a.txt", None], lvl=2)

    def make():
        return dt.PlainTextContent(content=content, metadata=dt.FileMetadataInterface(filename=fn))
    return make


def spec_html(g):
    dt = _dt()
    content = g.chars("content", 2, 32, 33)
    tabs = _tables(g, "tables", 1, 2)

    def make():
        return dt.HtmlContent(content=content, tables=[_rows(t) for t in tabs],
                              headings=[{"level": "h1", "text": "H"}], links=[{"text": "l", "href": "u"}],
                              metadata=dt.HtmlMetadata(title="T"))
    return make


def spec_doc(g):
    dt = _dt()
    texts = ["Chapter 1\nbody cap1\nh1 h2 a0 b\nSubsection a\nmore\nChapter 2\nlast", "", "plain line cap1",
             "Intro\nx\nChapter 2\ny"]
    text = g.pick("main_text", texts)
    tabs = _tables(g, "tables", 1, 1, 2)
    title = g.pick("title", ["T", ""], lvl=2)
    imgs = [dict(image_number=g.int("img%d_number" % i, 0, 3), caption=g.pick("img%d_caption" % i, ["cap1", ""]),
                 width=g.opt_int("img%d_width" % i, -1, 2), height=g.int("img%d_height" % i, -1, 2, lvl=2),
                 unit_number=g.opt_int("img%d_unit" % i, 0, 3, lvl=2, none_lvl=0 if g.sz < 2 else 2))
            for i in range(g.count("images", 1, 1, 2))]

    def make():
        return dt.DocContent(main_text=text, footnotes="f", tables=[_rows(t) for t in tabs],
                             images=[dt.DocImage(content_type=" image/png ", data=PNG, size_bytes=len(PNG), **i) for i in imgs],
                             metadata=dt.DocMetadata(title=title, num_pages=1))
    return make


def spec_docx(g):
    dt = _dt()
    styles = ["Heading 1", None, "Heading 2", "Normal"]
    n = 2 if g.sz < 2 else g.count("paragraphs", 2, 2, 3)
    paras = [(g.pick("para%d_style" % i, styles[:3] if g.sz < 2 else styles, default=i % 2),
              g.pick("para%d_text" % i, ["t%d" % i, ""], lvl=3), g.bool("para%d_page_break" % i)) for i in range(n)]
    imgs = []
    for i in range(g.count("images", 1, 1, 2)):
        anchored = g.pick("img%d_anchored" % i, [True, False], lvl=2)
        imgs.append(dict(anchor_paragraph_indices=[g.int("img%d_anchor" % i, 0, 1 if g.sz == 0 else n)] if anchored else [],
                         width=g.opt_int("img%d_width" % i, -1, 2, lvl=1), has_data=g.pick("img%d_has_data" % i, [True, False], lvl=3)))
    tabs = _tables(g, "tables", 1, 1, 2)
    anchors_ok = g.pick("table_anchors_given", [True, False], lvl=2)
    tab_anchors = [g.int("table%d_anchor" % i, 0, 1 if g.sz == 0 else n, lvl=0 if g.sz != 1 else 2, default=1)
                   for i in range(len(tabs))] if anchors_ok else [0] * (len(tabs) + 1)
    title = g.pick("title", ["T", ""], lvl=3)

    def make():
        return dt.DocxContent(
            metadata=dt.DocxMetadata(title=title, revision=3),
            paragraphs=[dt.DocxParagraph(text=t, style=s, has_page_break=b, runs=[dt.DocxRun(text=t, bold=True)])
                        for s, t, b in paras],
            tables=[_rows(t) for t in tabs], table_anchor_paragraph_indices=list(tab_anchors),
            headers=[dt.DocxHeaderFooter("default", "hdr")],
            images=[dt.DocxImage(rel_id="rId%d" % k, filename="i.png", content_type="image/png ",
                                 data=io.BytesIO(PNG) if i["has_data"] else None, width=i["width"], height=1,
                                 image_index=k + 1, caption=" c ", anchor_paragraph_indices=list(i["anchor_paragraph_indices"]))
                    for k, i in enumerate(imgs)],
            styles=["Normal"], formulas=[dt.DocxFormula("x", True)], full_text="full text")
    return make


def spec_pdf(g):
    dt = _dt()
    pages = []
    for p in range(g.count("pages", 1, 2, 2)):
        imgs = [dict(index=g.int("p%d_img%d_index" % (p, i), 0, 3), width=g.int("p%d_img%d_width" % (p, i), -1, 2),
                     height=g.int("p%d_img%d_height" % (p, i), -1, 2, lvl=2),
                     unit_name=g.opt_int("p%d_img%d_unit" % (p, i), 0, 3))
                for i in range(g.count("p%d_images" % p, 1, 1, 2))]
        pages.append((g.pick("p%d_text" % p, [" page text ", ""], lvl=2), imgs, _tables(g, "p%d_tables" % p, 1, 1, 2)))

    def make():
        return dt.PdfContent(pages=[dt.PdfPage(text=t, images=[dt.PdfImage(name="Im", caption=" c ", data=PNG,
                                                                           content_type=" image/png", **i) for i in imgs],
                                               tables=[_rows(tb) for tb in tabs]) for t, imgs, tabs in pages],
                             metadata=dt.PdfMetadata(total_pages=len(pages)))
    return make


def spec_ppt(g):
    dt = _dt()
    slides = []
    for s in range(g.count("slides", 1, 2, 2)):
        imgs = [dict(slide_number=g.int("s%d_img%d_slide" % (s, i), -1, 2), width=g.opt_int("s%d_img%d_width" % (s, i), -1, 2, lvl=2))
                for i in range(g.count("s%d_images" % s, 1, 1, 2))]
        slides.append((g.int("s%d_number" % s, 0, 3), g.pick("s%d_title" % s, ["Title", None, ""][:2 if g.sz < 2 else 3]), imgs))

    def make():
        return dt.PptContent(metadata=dt.PptMetadata(title="T", num_slides=len(slides)),
                             slides=[dt.PptSlideContent(slide_number=n, title=t, body_text=["b1", " b2 "], other_text=["o"],
                                                        all_text=[dt.PptTextBlock("b1", 1, is_body=True)], notes=["n"],
                                                        images=[dt.PptImage(image_index=k + 1, content_type="image/png",
                                                                            data=PNG, size_bytes=len(PNG), height=1, **i)
                                                                for k, i in enumerate(imgs)])
                                     for n, t, imgs in slides],
                             master_text=["m"], all_text=["b1"], streams=[["x"]])
    return make


def spec_pptx(g):
    dt = _dt()
    slides = []
    for s in range(g.count("slides", 1, 2, 2)):
        forms = [g.bool("s%d_formula%d_display" % (s, i)) for i in range(g.count("s%d_formulas" % s, 1, 1, 2))]
        imgs = [dict(width=g.opt_int("s%d_img%d_width" % (s, i), -1, 2, lvl=2),
                     description=g.pick("s%d_img%d_desc" % (s, i), ["alt", ""], lvl=2))
                for i in range(g.count("s%d_images" % s, 1, 1, 1))]
        slides.append((g.pick("s%d_base_text" % s, ["base ", ""], lvl=2), forms, imgs, _tables(g, "s%d_tables" % s, 1, 0, 1)))
        if g.sz == 1:
            slides[-1] = slides[-1][:3] + ([[["h1", "h2"], ["a", "b"]]],)

    def make():
        return dt.PptxContent(
            metadata=dt.PptxMetadata(title="T", revision=2),
            slides=[dt.PptxSlide(slide_number=k + 1, title="t", content_placeholders=["c"], tables=[_rows(tb) for tb in tabs],
                                 images=[dt.PptxImage(image_index=j + 1, filename="i.png", content_type="image/png", blob=PNG,
                                                      height=1, caption="cap", slide_number=k + 1, **i) for j, i in enumerate(imgs)],
                                 formulas=[dt.PptxFormula("x^2", d) for d in forms], comments=[dt.PptxComment("a", "c", "d")],
                                 text="t", base_text=bt) for k, (bt, forms, imgs, tabs) in enumerate(slides)])
    return make


def spec_xls(g):
    dt = _dt()
    sheets = []
    for s in range(g.count("sheets", 1, 2, 2)):
        rows = g.pick("sheet%d_rows" % s, [[{"A": 1, "B": None}, {"A": "x", "B": 2.5}], [], [{"A": None}]])
        sheets.append((rows, g.pick("sheet%d_text" % s, [" A B ", ""], lvl=2)))
    imgs = [dict(width=g.opt_int("img%d_width" % i, -1, 2), height=g.opt_int("img%d_height" % i, -1, 2, lvl=2))
            for i in range(g.count("images", 1, 1, 2))]

    def make():
        return dt.XlsContent(metadata=dt.XlsMetadata(title="T"),
                             sheets=[dt.XlsSheet(name="S%d" % k, data=[dict(r) for r in rows], text=t)
                                     for k, (rows, t) in enumerate(sheets)],
                             images=[dt.XlsImage(image_index=k + 1, content_type=" image/png", data=PNG, size_bytes=len(PNG), **i)
                                     for k, i in enumerate(imgs)], full_text=" full ")
    return make


def spec_xlsx(g):
    dt = _dt()
    sheets = []
    for s in range(g.count("sheets", 1, 2, 2)):
        imgs = [dict(width=g.int("s%d_img%d_width" % (s, i), -1, 2), height=g.int("s%d_img%d_height" % (s, i), -1, 2, lvl=2),
                     has_data=g.pick("s%d_img%d_has_data" % (s, i), [True, False], lvl=2))
                for i in range(g.count("s%d_images" % s, 1, 1, 2))]
        sheets.append((g.pick("s%d_data" % s, [[["h", 1], [None, 2.5]], []]), imgs))

    def make():
        return dt.XlsxContent(
            metadata=dt.XlsxMetadata(title="T"),
            sheets=[dt.XlsxSheet(name="S%d" % k, data=_rows(data), text=" txt ",
                                 images=[dt.XlsxImage(image_index=j + 1, sheet_index=k, filename="i.png", content_type="image/png",
                                                      data=io.BytesIO(PNG) if i["has_data"] else None, size_bytes=len(PNG),
                                                      width=i["width"], height=i["height"], caption="c", description="d")
                                         for j, i in enumerate(imgs)]) for k, (data, imgs) in enumerate(sheets)])
    return make


_ODF_LENGTHS = ["2cm", None, "wide", "", "1.5in"]


def _od_images(g, prefix, *limits, captions=("cap1", ""), caption_lvl=2, width_lvl=2):
    out = []
    for i in range(g.count(prefix + "images", *limits)):
        out.append(dict(width=g.pick("%simg%d_width" % (prefix, i), _ODF_LENGTHS[:3] if g.sz < 3 else _ODF_LENGTHS, lvl=width_lvl),
                        caption=g.pick("%simg%d_caption" % (prefix, i), list(captions), lvl=caption_lvl),
                        description=g.pick("%simg%d_description" % (prefix, i), ["", "Intro"], lvl=3),
                        unit_name=g.opt_int("%simg%d_unit_name" % (prefix, i), 0, 3, none_lvl=1),
                        has_data=g.pick("%simg%d_has_data" % (prefix, i), [True, False], lvl=3)))
    return out


def _od_image(dt, k, i):
    return dt.OpenDocumentImage(href="Pictures/%d.png" % k, name="n%d" % k, content_type="image/png",
                                data=io.BytesIO(PNG) if i["has_data"] else None, size_bytes=len(PNG), width=i["width"],
                                height="1cm", image_index=k + 1, caption=i["caption"], description=i["description"],
                                unit_name=i["unit_name"])


def spec_odg(g):
    dt = _dt()
    imgs = _od_images(g, "", 1, 2, 2, width_lvl=1)

    def make():
        return dt.OdgContent(metadata=dt.OpenDocumentMetadata(title="T", editing_cycles=2), full_text=" drawing text ",
                             images=[_od_image(dt, k, i) for k, i in enumerate(imgs)])
    return make


def spec_odf(g):
    dt = _dt()
    text = g.pick("full_text", [" a+b ", ""])

    def make():
        return dt.OdfContent(metadata=dt.OpenDocumentMetadata(title="T"), full_text=text)
    return make


def spec_odp(g):
    dt = _dt()
    slides = []
    for s in range(g.count("slides", 1, 2, 2)):
        slides.append((g.int("s%d_number" % s, 0, 3), g.pick("s%d_title" % s, ["Title", ""]),
                       _od_images(g, "s%d_" % s, 1, 1, 1), _tables(g, "s%d_tables" % s, 1, 0, 1)))
        if g.sz == 1:
            slides[-1] = slides[-1][:3] + ([[["h1", "h2"], ["a", "b"]]],)

    def make():
        return dt.OdpContent(metadata=dt.OpenDocumentMetadata(title="T"),
                             slides=[dt.OdpSlide(slide_number=n, name="page", title=t, body_text=["b"], other_text=[" o "],
                                                 tables=[_rows(tb) for tb in tabs],
                                                 annotations=[dt.OpenDocumentAnnotation("c", "d", "t")],
                                                 images=[_od_image(dt, k, i) for k, i in enumerate(imgs)], notes=["n"])
                                     for n, t, imgs, tabs in slides])
    return make


def spec_ods(g):
    dt = _dt()
    sheets = []
    for s in range(g.count("sheets", 1, 2, 2)):
        sheets.append((g.pick("s%d_data" % s, [[["h", 1], [None, 2.5]], []]), g.pick("s%d_name" % s, ["Sheet", ""], lvl=2),
                       _od_images(g, "s%d_" % s, 1, 1, 1)))

    def make():
        return dt.OdsContent(metadata=dt.OpenDocumentMetadata(title="T"),
                             sheets=[dt.OdsSheet(name=nm, data=_rows(data), text=" txt ",
                                                 annotations=[dt.OpenDocumentAnnotation("c", "d", "t")],
                                                 images=[_od_image(dt, k, i) for k, i in enumerate(imgs)])
                                     for data, nm, imgs in sheets])
    return make


def spec_odt(g):
    dt = _dt()
    ctx = g.ctx
    kinds = ["heading", "body", "table-paragraph", "blank-heading"]
    n = g.count("paragraphs", 3, 2, 3)
    paras = []
    for i in range(n):
        kind = g.pick("para%d_kind" % i, kinds[:3] if g.sz < 2 else kinds, default=(0, 1, 0)[i % 3])
        if kind == "heading":
            paras.append(("Head %d" % i, None, g.int("para%d_outline_level" % i, 1, 3)))
        elif kind == "blank-heading":
            paras.append(("  ", None, g.int("para%d_outline_level" % i, 1, 3)))
        elif kind == "body":
            paras.append((g.pick("para%d_text" % i, ["Intro cap1 h1 h2", "other"], lvl=2), "Standard", None))
        else:
            paras.append(("cell", ctx.fresh_chars("para%d_style" % i, 6, 84, 122), None))
    imgs = _od_images(g, "", 1, 1, 2, captions=("", "cap1"), caption_lvl=1)
    n_tabs = g.count("tables", 1, 1, 2)
    title = g.pick("title", ["T", ""], lvl=2)

    def make():
        return dt.OdtContent(
            metadata=dt.OpenDocumentMetadata(title=title),
            paragraphs=[dt.OdtParagraph(text=t, style_name=s, outline_level=lv, runs=[dt.OdtRun(text=t)]) for t, s, lv in paras],
            tables=[dt.OdtTable(data=[["h1", "h2"], ["a%d" % i, "b"]] if i % 2 == 0 else []) for i in range(n_tabs)],
            headers=[dt.OdtHeaderFooter("header", "hd")], images=[_od_image(dt, k, i) for k, i in enumerate(imgs)],
            hyperlinks=[dt.OdtHyperlink("l", "u")], footnotes=[dt.OdtNote("1", "footnote", "fn")],
            annotations=[dt.OpenDocumentAnnotation("c", "d", "t")], bookmarks=[dt.OdtBookmark("b")], styles=["Standard"],
            full_text="Intro cap1 h1 h2")
    return make


def spec_rtf(g):
    dt = _dt()
    pages = g.pick("pages", [["page one", " ", "page three"], [], ["only"]])
    full_text = g.pick("full_text", ["full", ""])
    imgs = [dict(page_number=g.opt_int("img%d_page" % i, 0, 3 if g.sz != 1 else 2, none_lvl=1), width=g.int("img%d_width" % i, -1, 31, lvl=2),
                 has_data=g.pick("img%d_has_data" % i, [True, False], lvl=2))
            for i in range(g.count("images", 1, 1, 2))]
    tabs = [g.opt_int("table%d_page" % i, 0, 1 if g.sz == 1 else 3, lvl=1, none_lvl=1, default=None)
            for i in range(g.count("tables", 1, 1, 2))]

    def make():
        return dt.RtfContent(
            metadata=dt.RtfMetadata(title="T", num_pages=len(pages)), fonts=[dt.RtfFont(0, "roman", "Times")],
            colors=[dt.RtfColor(1, 255, 0, 0)], styles=[dt.RtfStyle(0, "paragraph", "Normal")],
            paragraphs=[dt.RtfParagraph(text="para"), dt.RtfParagraph(text="  ")], headers=[dt.RtfHeaderFooter("header", "h")],
            hyperlinks=[dt.RtfHyperlink("l", "u")], fields=[dt.RtfField("PAGE", "PAGE", "1")],
            images=[dt.RtfImage(image_type="PNG", width=i["width"], height=30, data=PNG if i["has_data"] else None,
                                image_index=k + 1, page_number=i["page_number"], caption=" c ") for k, i in enumerate(imgs)],
            tables=[dt.RtfTable(data=[["h1", "h2"], ["a", "b"]], table_index=k + 1, page_number=p) for k, p in enumerate(tabs)],
            footnotes=[dt.RtfFootnote(1, "fn")], pages=list(pages), full_text=full_text, raw_text_blocks=["raw"])
    return make


def spec_epub(g):
    dt = _dt()
    chapters = []
    for c in range(g.count("chapters", 1, 2, 2)):
        chapters.append((g.int("ch%d_number" % c, 0, 3), g.pick("ch%d_text" % c, [" chapter text ", ""], lvl=2),
                         g.count("ch%d_images" % c, 1, 1, 1), _tables(g, "ch%d_tables" % c, 1, 1, 2)))
    imgs = [dict(width=g.opt_int("img%d_width" % i, -1, 2), unit_index=g.opt_int("img%d_unit" % i, 0, 3, none_lvl=3),
                 has_data=g.pick("img%d_has_data" % i, [True, False], lvl=3))
            for i in range(max([0] + [k for _, _, k, _ in chapters]) + g.count("unreferenced_images", 0, 1, 1))]

    def make():
        images = [dt.EpubImage(image_index=k + 1, href="i%d.png" % k, content_type=" image/png",
                               data=io.BytesIO(PNG) if i["has_data"] else None, size_bytes=len(PNG), width=i["width"], height=1,
                               unit_index=i["unit_index"]) for k, i in enumerate(imgs)]
        return dt.EpubContent(metadata=dt.EpubMetadata(title="T", epub_version="3.0"),
                              chapters=[dt.EpubChapter(chapter_number=n, href="c%d.xhtml" % k, title="Ch", text=t,
                                                       images=images[:ni], tables=[_rows(tb) for tb in tabs])
                                        for k, (n, t, ni, tabs) in enumerate(chapters)],
                              images=images, toc=[{"title": "Ch", "href": "c0.xhtml"}])
    return make


SPECS = {"email": spec_email, "plain": spec_plain, "html": spec_html, "doc": spec_doc, "docx": spec_docx, "pdf": spec_pdf,
         "ppt": spec_ppt, "pptx": spec_pptx, "xls": spec_xls, "xlsx": spec_xlsx, "odg": spec_odg, "odf": spec_odf,
         "odp": spec_odp, "ods": spec_ods, "odt": spec_odt, "rtf": spec_rtf, "epub": spec_epub}


def _content_classes():
    """every dataclass of data_types that implements the extraction interface (found live, so a
    new content type without a generator makes the kernel inconclusive instead of silently
    uncovered)"""
    dt = _dt()
    out = {}
    for name, obj in vars(dt).items():
        if isinstance(obj, type) and dataclasses.is_dataclass(obj) and name.endswith("Content") and \
                all(hasattr(obj, m) for m in ("iterate_units", "iterate_images", "iterate_tables", "get_full_text",
                                              "get_metadata", "to_json")):
            out[name] = obj
    return out


# =======================================================================================
# K1: observers
# =======================================================================================

def _table_view(t):
    return [view(t), view(t.get_table()), view(t.get_dim())]


def _image_view(i):
    return [view(i.get_metadata()), view(i.get_caption()), view(i.get_description()), view(i.get_content_type()),
            i.get_bytes().read()]


def _unit_images(c):
    return [[view(i) for i in u.get_images()] for u in c.iterate_units()]


def _unit_tables(c):
    return [[_table_view(t) for t in u.get_tables()] for u in c.iterate_units()]


def _unit_details(c):
    return [[view(u.get_text()), view(u.get_metadata()), view(u.to_json())] for u in c.iterate_units()]


def _first_unit_only(c):
    it = c.iterate_units()
    try:
        u = next(it, None)
    finally:
        if hasattr(it, "close"):
            it.close()
    return view(u)


def _first_image_only(c):
    it = c.iterate_images()
    i = next(it, None)
    it.close()
    return None if i is None else [view(i), i.get_bytes().read(1)]


BASE_OBSERVERS = [
    ("get_full_text", lambda c: view(c.get_full_text())),
    ("list(iterate_units)", lambda c: [view(u) for u in c.iterate_units()]),
    ("iterate_images", lambda c: [view(i) for i in c.iterate_images()]),
    ("iterate_tables", lambda c: [_table_view(t) for t in c.iterate_tables()]),
    ("get_metadata", lambda c: view(c.get_metadata())),
    ("to_json", lambda c: view(c.to_json())),
]
MERGED = [("units: get_images/get_tables/get_text/get_metadata/to_json",
           lambda c: [_unit_images(c), _unit_tables(c), _unit_details(c)]),
          ("images: get_metadata/get_caption/get_description/get_content_type/get_bytes().read()",
           lambda c: [_image_view(i) for i in c.iterate_images()])]
SPLIT = [("units: get_images", _unit_images), ("units: get_tables", _unit_tables),
         ("units: get_text/get_metadata/to_json", _unit_details),
         ("images: get_metadata/get_caption/get_description/get_content_type/get_bytes().read()",
          lambda c: [_image_view(i) for i in c.iterate_images()]),
         ("first unit only (iterator abandoned)", _first_unit_only),
         ("first image only, one byte read", _first_image_only)]
EXTRA = {
    "pptx": [("get_full_text/iterate_units(include_image_captions=True)",
              lambda c: [view(c.get_full_text(include_image_captions=True)),
                         [view(u) for u in c.iterate_units(include_image_captions=True)]])],
    "email": [("iterate_supported_attachments", lambda c: [view(x.get_full_text()) for x in c.iterate_supported_attachments()])],
}


def _observers(kind, alphabet):
    return BASE_OBSERVERS + (SPLIT if alphabet == "split" else MERGED) + EXTRA.get(kind, [])


def _observe(fn, c):
    try:
        return fn(c)
    except Exception as e:
        return {"__raised__": type(e).__name__, "msg": str(e)[:80]}


_VARIANTS = {}


def _join_variant():
    """data_types._join_unit_text with its '<sep>'.join(...) rewritten to a CharStr-aware join (the
    function's own source, read live).  Installed in symbolic runs only; replay runs the original."""
    dt = _dt()
    fn = dt._join_unit_text
    if fn in _VARIANTS:
        return _VARIANTS[fn]
    import ast
    import inspect
    import textwrap

    def sx_join(sep, items):
        items = list(items)
        if not any(isinstance(p, S.CharStr) for p in items):
            return sep.join(items)
        return S.CharStr(sep).join(items)

    class RW(ast.NodeTransformer):
        def visit_Call(self, node):
            self.generic_visit(node)
            f = node.func
            if isinstance(f, ast.Attribute) and f.attr == "join" and isinstance(f.value, ast.Constant) \
                    and isinstance(f.value.value, str) and len(node.args) == 1 and not node.keywords:
                return ast.copy_location(ast.Call(func=ast.Name("_sx_join", ast.Load()),
                                                  args=[f.value, node.args[0]], keywords=[]), node)
            return node

    tree = ast.parse(textwrap.dedent(inspect.getsource(fn)))
    fd = tree.body[0]
    fd.returns = None
    for a in fd.args.args:
        a.annotation = None
    tree = ast.fix_missing_locations(RW().visit(tree))
    glob = dict(fn.__globals__)
    glob["_sx_join"] = sx_join
    exec(compile(tree, inspect.getsourcefile(fn), "exec"), glob)
    _VARIANTS[fn] = glob[fd.name]
    return _VARIANTS[fn]


KNOWN_ODT = "C06-odt-iterate-units-writes-image-unit-name"


def k1_observers(ctx):
    dt = _dt()
    kind = ctx.params.get("type", "odt")
    L = ctx.params.get("L", 2)
    alphabet = ctx.params.get("alphabet", "merged")
    if kind not in SPECS:
        raise S.BoundExceeded("no instance generator for content type %s" % kind)
    ctx.decision_memo = {}
    obs = list(_observers(kind, alphabet))
    if ctx.perturb == "observer_writes_metadata":
        def bad(c):
            m = c.get_metadata()
            m.filename = "seen"
            return view(m)
        obs[0] = ("get_metadata (writes filename)", bad)
    if ctx.perturb == "observer_counts_calls":
        def counting(c):
            c.__dict__["_n"] = c.__dict__.get("_n", 0) + 1
            return [c.__dict__["_n"], view(c.get_full_text())]
        obs[0] = ("get_full_text (with call counter)", counting)
    with ctx.shadow(dt, _join_unit_text=_join_variant() if not ctx.concrete else None):
        make = SPECS[kind](G(ctx, ctx.params.get("size", 1)))
        seq = [ctx.params["first"] if i == 0 and "first" in ctx.params else ctx.pick("observer%d" % i, len(obs))
               for i in range(L)]
        names = [obs[i][0] for i in seq]
        mask = _mask_image_unit_name if kind == "odt" else (lambda v: v)
        skip_known = KNOWN_ODT in ctx.params.get("known_active", [])
        c = make()
        before = view(c.to_json())
        fresh = {}
        for step, oi in enumerate(seq):
            name, fn = obs[oi]
            got = _observe(fn, c)
            if oi not in fresh:
                fresh[oi] = _observe(fn, make())
            info = dict(type=kind, sequence=names[:step + 1])
            r, where = same(mask(got), mask(fresh[oi]))
            ctx.require(r, "observer-result-depends-on-history", differs_at=where, **info)
            after = view(c.to_json())
            r2, where2 = same(mask(after), mask(before))
            ctx.require(r2, "to_json-changed-by-observers", differs_at=where2, **info)
            if kind == "odt" and not skip_known:
                r, where = same(got, fresh[oi])
                ctx.require(r, "observer-result-depends-on-history", differs_at=where, only="OpenDocumentImage.unit_name", **info)
                r2, where2 = same(after, before)
                ctx.require(r2, "to_json-changed-by-observers", differs_at=where2, only="OpenDocumentImage.unit_name", **info)


_SPLIT_BY_FIRST = {"quick": {("odt", 1)}, "thorough": {("odt", 1), ("odt", 2), ("ods", 2), ("odp", 2), ("pptx", 2), ("docx", 2),
                                                         ("epub", 2)}}


def _k1_parts(tier):
    """quick: every sequence of 3 observers on the one-of-everything instances (size 0) and every pair on the
    instances with element counts as choices (size 1).  thorough: triples on size 1, pairs on size 2 (vocabularies
    as choices too), and the finer observer alphabet (unit/image accessors separately, abandoned iterators)."""
    missing = [n for n in _content_classes() if n[:-len("Content")].lower().replace("plaintext", "plain") not in SPECS]
    plan = [(3, 0, "merged"), (2, 1, "merged")] if tier == "quick" else \
        [(3, 1, "merged"), (2, 2, "merged"), (3, 0, "split"), (2, 1, "split")]
    parts = []
    for k in sorted(SPECS):
        for L, size, alphabet in plan:
            base = {"type": k, "L": L, "size": size, "alphabet": alphabet}
            if (k, size) in _SPLIT_BY_FIRST[tier]:
                parts += [dict(base, first=i) for i in range(len(_observers(k, alphabet)))]
            else:
                parts.append(base)
    parts += [{"type": m, "L": 1, "size": 0} for m in missing]
    return parts


def _k1_targets():
    out = []
    for cls in _content_classes().values():
        out += [cls.iterate_units, cls.get_full_text, cls.iterate_images, cls.iterate_tables]
    from sharepoint2text.parsing.extractors import serialization
    return out + [serialization._serialize_for_json, serialization._bytesio_to_base64]


# =======================================================================================
# K2: set-to-sequence sites, iteration order as a symbolic permutation
# =======================================================================================

SCAN_ROOT = S.REPO + "/sharepoint2text"
SCAN_SKIP = ("/tests", "/sharepoint_io")
_INSENSITIVE = {"sorted", "set", "frozenset", "len", "sum", "min", "max", "any", "all", "bool"}
_SET_METHODS = {"union", "intersection", "difference", "symmetric_difference", "copy"}
_SCAN_CACHE = {}


def _ann_is_set(ann):
    import ast
    if ann is None:
        return False
    txt = ast.unparse(ann)
    head = txt.split("[", 1)[0].strip().split(".")[-1]
    if head in ("set", "Set", "frozenset", "FrozenSet", "AbstractSet", "MutableSet"):
        return True
    if head == "Optional" and "[" in txt:
        return txt.split("[", 1)[1].split("[", 1)[0].strip().split(".")[-1] in ("set", "Set", "frozenset", "FrozenSet")
    return False


def _package_files():
    out = []
    for d, _, files in sorted(os.walk(SCAN_ROOT)):
        if any(x in d for x in SCAN_SKIP):
            continue
        out += [os.path.join(d, f) for f in sorted(files) if f.endswith(".py")]
    return out


def class_info():
    """package-wide: class name -> base class names, and class name -> attributes that hold a set
    (``self.x = set(...)`` / set display / comprehension / frozenset, ``self.x: set[...]``, class-level
    ``x: set[...]``, and properties whose return annotation is a set type).  Classes are identified by
    simple name across modules, so ``self._namelist`` in a subclass defined in another module is typed."""
    import ast
    if "classes" in _SCAN_CACHE:
        return _SCAN_CACHE["classes"]
    bases, attrs = {}, {}

    def syntactic_set(e):
        return isinstance(e, (ast.Set, ast.SetComp)) or (
            isinstance(e, ast.Call) and isinstance(e.func, ast.Name) and e.func.id in ("set", "frozenset"))

    for path in _package_files():
        with open(path, encoding="utf-8") as f:
            tree = ast.parse(f.read())
        for cls in [n for n in ast.walk(tree) if isinstance(n, ast.ClassDef)]:
            bases.setdefault(cls.name, set()).update(
                b.id if isinstance(b, ast.Name) else b.attr for b in cls.bases if isinstance(b, (ast.Name, ast.Attribute)))
            mine = attrs.setdefault(cls.name, set())
            for st in cls.body:
                if isinstance(st, ast.AnnAssign) and isinstance(st.target, ast.Name) and _ann_is_set(st.annotation):
                    mine.add(st.target.id)
                if isinstance(st, (ast.FunctionDef, ast.AsyncFunctionDef)):
                    is_prop = any((isinstance(d_, ast.Name) and d_.id in ("property", "cached_property")) or
                                  (isinstance(d_, ast.Attribute) and d_.attr in ("property", "cached_property"))
                                  for d_ in st.decorator_list)
                    if is_prop and _ann_is_set(st.returns):
                        mine.add(st.name)
                    for n in ast.walk(st):
                        tgt = val = ann = None
                        if isinstance(n, ast.Assign):
                            tgt, val = n.targets, n.value
                        elif isinstance(n, ast.AnnAssign):
                            tgt, val, ann = [n.target], n.value, n.annotation
                        for t in tgt or []:
                            if isinstance(t, ast.Attribute) and isinstance(t.value, ast.Name) and t.value.id in ("self", "cls"):
                                if (val is not None and syntactic_set(val)) or _ann_is_set(ann):
                                    mine.add(t.attr)
    _SCAN_CACHE["classes"] = (bases, attrs)
    return bases, attrs


def class_set_attrs(cls_name):
    """set-typed attributes of a class including those of its (package) base classes"""
    bases, attrs = class_info()
    out, todo, seen = set(), [cls_name], set()
    while todo:
        c = todo.pop()
        if c in seen:
            continue
        seen.add(c)
        out |= attrs.get(c, set())
        todo += list(bases.get(c, ()))
    return out


def scan_source(src, filename):
    """Locate the places where the iteration order of a set can become the order of a sequence:
    list/tuple/enumerate/iter/zip/map/filter(set), '<sep>'.join(set), set.pop(), list.extend(set),
    *set, for-loops and list/dict/generator comprehensions over a set.  A set-typed expression is a
    set display/comprehension, set()/frozenset(), a set operator/method on one, d.get/setdefault(k,
    <set>), or a name / self attribute / annotated parameter bound to one (per scope, to fixpoint).
    Consumers that cannot see the order (sorted, set, len, sum, min, max, any, all, membership) are
    not sites.  Returns [(site dict, ast node of the site, ast tree)]."""
    import ast
    tree = ast.parse(src)
    for n in ast.walk(tree):
        for ch in ast.iter_child_nodes(n):
            ch._parent = n
    tree._parent = None
    attrs, scopes = set(), {}
    all_class_attrs = set().union(*class_info()[1].values()) if class_info()[1] else set()

    def scope_of(node):
        n = node
        while not isinstance(n, (ast.FunctionDef, ast.AsyncFunctionDef, ast.Lambda, ast.Module)):
            n = n._parent
        if n not in scopes:
            scopes[n] = [set(), scope_of(n._parent) if n._parent is not None else None]
        return scopes[n]

    def bound(sc, name):
        while sc is not None:
            if name in sc[0]:
                return True
            sc = sc[1]
        return False

    def is_set(e):
        if isinstance(e, (ast.Set, ast.SetComp)):
            return True
        if isinstance(e, ast.Call):
            f = e.func
            if isinstance(f, ast.Name) and f.id in ("set", "frozenset"):
                return True
            if isinstance(f, ast.Attribute):
                if f.attr in _SET_METHODS and is_set(f.value):
                    return True
                if f.attr in ("get", "setdefault", "pop") and len(e.args) == 2 and is_set(e.args[1]):
                    return True
            return False
        if isinstance(e, ast.BinOp) and isinstance(e.op, (ast.BitOr, ast.BitAnd, ast.Sub, ast.BitXor)):
            return is_set(e.left) or is_set(e.right)
        if isinstance(e, ast.Name):
            return bound(scope_of(e), e.id)
        if isinstance(e, ast.Attribute):
            par = getattr(e, "_parent", None)
            if isinstance(par, ast.Call) and par.func is e:
                return False                              # obj.name(...) is a call, not the attribute's value
            if not isinstance(e.value, ast.Name):
                return False
            if e.value.id in ("self", "cls"):
                if e.attr in attrs:
                    return True
                cls = e
                while cls is not None and not isinstance(cls, ast.ClassDef):
                    cls = cls._parent
                return cls is not None and e.attr in class_set_attrs(cls.name)
            # other object (ctx.namelist): by the parameter's annotated class when there is one, else by
            # attribute name alone (over-approximation: an unevaluable site is inconclusive, never green)
            if e.attr not in all_class_attrs:
                return False
            fn = e
            while fn is not None and not isinstance(fn, (ast.FunctionDef, ast.AsyncFunctionDef)):
                fn = fn._parent
            if fn is not None:
                for a_ in fn.args.args + fn.args.kwonlyargs + fn.args.posonlyargs:
                    if a_.arg == e.value.id and a_.annotation is not None:
                        ann = ast.unparse(a_.annotation).strip("'\"").split("[")[0].split(".")[-1].split("|")[0].strip()
                        if ann in class_info()[0]:
                            return e.attr in class_set_attrs(ann)
            return True
        if isinstance(e, ast.IfExp):
            return is_set(e.body) or is_set(e.orelse)
        if isinstance(e, ast.BoolOp):
            return any(is_set(v) for v in e.values)
        return False

    changed = [True]

    def bind(target, node):
        if isinstance(target, ast.Name):
            sc = scope_of(node)
            if target.id not in sc[0]:
                sc[0].add(target.id)
                changed[0] = True
        elif isinstance(target, ast.Attribute) and isinstance(target.value, ast.Name) and target.value.id in ("self", "cls"):
            if target.attr not in attrs:
                attrs.add(target.attr)
                changed[0] = True

    while changed[0]:
        changed[0] = False
        for n in ast.walk(tree):
            if isinstance(n, ast.Assign) and is_set(n.value):
                for t in n.targets:
                    bind(t, n)
            elif isinstance(n, ast.AnnAssign) and (_ann_is_set(n.annotation) or (n.value is not None and is_set(n.value))):
                bind(n.target, n)
            elif isinstance(n, (ast.AugAssign, ast.NamedExpr)) and is_set(n.value):
                bind(n.target, n)
            elif isinstance(n, (ast.FunctionDef, ast.AsyncFunctionDef)) and n.body:
                for a_ in n.args.args + n.args.kwonlyargs + n.args.posonlyargs:
                    if _ann_is_set(a_.annotation):
                        sc = scope_of(n.body[0])
                        if a_.arg not in sc[0]:
                            sc[0].add(a_.arg)
                            changed[0] = True

    def blind_consumer(node):
        p_ = node._parent
        if isinstance(p_, ast.Call) and isinstance(p_.func, ast.Name) and p_.func.id in _INSENSITIVE and node in p_.args:
            return True
        return isinstance(p_, ast.Compare) and node in p_.comparators and all(isinstance(o, (ast.In, ast.NotIn)) for o in p_.ops)

    def func_of(node):
        names, n = [], node
        while n is not None:
            if isinstance(n, (ast.FunctionDef, ast.AsyncFunctionDef, ast.ClassDef)):
                names.append(n.name)
            n = n._parent
        return ".".join(reversed(names)) or "<module>"

    found = []

    def add(node, kind, expr):
        found.append(({"file": filename, "line": node.lineno, "function": func_of(node), "kind": kind,
                       "expr": ast.unparse(expr)[:100]}, node, tree))

    for n in ast.walk(tree):
        if isinstance(n, ast.Call):
            f = n.func
            if isinstance(f, ast.Name) and f.id in ("list", "tuple", "enumerate", "iter", "zip", "map", "filter", "reversed") \
                    and any(is_set(x) for x in n.args):
                if not blind_consumer(n):
                    add(n, f.id + "(set)", n)
            elif isinstance(f, ast.Attribute) and f.attr == "join" and n.args and is_set(n.args[0]):
                add(n, "join(set)", n)
            elif isinstance(f, ast.Attribute) and f.attr == "pop" and not n.args and is_set(f.value):
                add(n, "set.pop()", n)
            elif isinstance(f, ast.Attribute) and f.attr == "extend" and n.args and is_set(n.args[0]):
                add(n, "extend(set)", n)
        elif isinstance(n, ast.For) and is_set(n.iter):
            add(n, "for-over-set", n.iter)
        elif isinstance(n, (ast.ListComp, ast.GeneratorExp, ast.DictComp)):
            if any(is_set(g_.iter) for g_ in n.generators) and not blind_consumer(n):
                add(n, "comprehension-over-set", n)
        elif isinstance(n, ast.Starred) and is_set(n.value):
            add(n, "*set", n)
    return found


def scan_file(path):
    if path not in _SCAN_CACHE:
        with open(path, encoding="utf-8") as f:
            _SCAN_CACHE[path] = scan_source(f.read(), path[len(S.REPO) + 1:])
    return _SCAN_CACHE[path]


def scan_sites():
    """{site key: (site dict, node, tree)} over the package (tests and sharepoint_io excluded)"""
    if "*" in _SCAN_CACHE:
        return _SCAN_CACHE["*"]
    out = _SCAN_CACHE["*"] = {}
    for path in _package_files():
        per_fn = {}
        for site, node, tree in scan_file(path):
            k = per_fn[site["function"]] = per_fn.get(site["function"], 0) + 1
            out["%s::%s::%d" % (site["file"], site["function"], k)] = (site, node, tree)
    return out


class _Perm:
    """state of one evaluation of a site: which permutation family its sets draw from"""
    ctx = None
    family = ""
    sets = 0
    symbolic_strings = False     # arrange equal-length strings as if-then-else terms (else: fork)


def _same_length_strings(elems):
    if not all(isinstance(e, (str, S.CharStr)) for e in elems):
        return False
    return len({len(e) for e in elems}) == 1 and len(elems[0]) > 0


class PermSet:
    """set stand-in: elements kept distinct by equality decided by the solver; iteration order is
    an arbitrary permutation, drawn once per (unchanged) set as symbolic ints.  Strings of one length
    are arranged symbolically (position j holds the element e with pi(e) = j, as if-then-else terms
    per character), anything else by forking over the permutation's values."""

    def __init__(self, items=()):
        self.elems = []
        self._order = None
        for x in items:
            self.add(x)

    @staticmethod
    def _eq(a, b):
        if isinstance(b, S.CharStr) and not isinstance(a, S.CharStr):
            a, b = b, a
        r = a == b
        return bool(r)

    def add(self, x):
        for e in self.elems:
            if self._eq(e, x):
                return
        self.elems.append(x)
        self._order = None

    def update(self, *others):
        for o in others:
            for x in o:
                self.add(x)

    def discard(self, x):
        for i, e in enumerate(self.elems):
            if self._eq(e, x):
                del self.elems[i]
                self._order = None
                return

    def __contains__(self, x):
        return any(self._eq(e, x) for e in self.elems)

    def __len__(self):
        return len(self.elems)

    def __bool__(self):
        return bool(self.elems)

    def __or__(self, o):
        r = PermSet(self.elems)
        r.update(o)
        return r

    __ror__ = __or__

    def copy(self):
        return PermSet(self.elems)

    def __iter__(self):
        if self._order is None:
            self._order = self._arrange()
        return iter(self._order)

    def _arrange(self):
        k = len(self.elems)
        if k <= 1:
            return list(self.elems)
        ctx = _Perm.ctx
        _Perm.sets += 1
        ps = [ctx.fresh_int("%s_set%d_position_of_element%d" % (_Perm.family, _Perm.sets, i), 0, k - 1) for i in range(k)]
        ctx.assume(z3.Distinct(*[p_.z for p_ in ps]))
        if _Perm.symbolic_strings and _same_length_strings(self.elems):
            codes = [S.CharStr._codes(e) for e in self.elems]
            out = []
            for j in range(k):
                chars = []
                for t in range(len(codes[0])):
                    term = S._as_int_term(codes[k - 1][t])
                    for i in range(k - 2, -1, -1):
                        term = z3.If(ps[i].z == j, S._as_int_term(codes[i][t]), term)
                    chars.append(S.SymInt(term))
                out.append(S.CharStr(chars))
            return out
        vals = [ctx.conc(p_, 0, k - 1) for p_ in ps]
        return [self.elems[i] for i in sorted(range(k), key=lambda i: vals[i])]


def _permset_rewrite(node):
    """copy of an AST with every set construction replaced by __permset__(<list of the elements>)"""
    import ast
    import copy

    class RW(ast.NodeTransformer):
        def visit_Set(self, n):
            self.generic_visit(n)
            return ast.copy_location(ast.Call(ast.Name("__permset__", ast.Load()), [ast.List(n.elts, ast.Load())], []), n)

        def visit_SetComp(self, n):
            self.generic_visit(n)
            return ast.copy_location(ast.Call(ast.Name("__permset__", ast.Load()), [ast.ListComp(n.elt, n.generators)], []), n)

        def visit_Call(self, n):
            self.generic_visit(n)
            if isinstance(n.func, ast.Name) and n.func.id in ("set", "frozenset"):
                return ast.copy_location(ast.Call(ast.Name("__permset__", ast.Load()), n.args, []), n)
            return n

    return ast.fix_missing_locations(RW().visit(copy.deepcopy(node)))


def _enclosing(node, kinds):
    n = node
    while n is not None and not isinstance(n, kinds):
        n = getattr(n, "_parent", None)
    return n


def _site_callable(key):
    """('expr', fn(env) -> value) for a site inside a statement `name = <expr>`, evaluated on its own;
    ('func', variant of the enclosing function) otherwise.  Source read live from /repo."""
    import ast
    import importlib
    site, node, tree = scan_sites()[key]
    modname = site["file"][:-3].replace("/", ".")
    mod = importlib.import_module(modname)
    glob = dict(vars(mod))
    glob["__permset__"] = PermSet
    fn_node = _enclosing(node, (ast.FunctionDef, ast.AsyncFunctionDef))
    return site, node, fn_node, glob


def _eval_site_expr(key):
    import ast
    if ("expr", key) in _VARIANTS:
        return _VARIANTS[("expr", key)]
    site, node, fn_node, glob = _site_callable(key)
    stmt = _enclosing(node, (ast.Assign, ast.AnnAssign, ast.Return, ast.Expr))
    expr = _permset_rewrite(stmt.value)
    code = compile(ast.Expression(expr), S.REPO + "/" + site["file"], "eval")
    _VARIANTS[("expr", key)] = lambda env: eval(code, glob, dict(env))
    return _VARIANTS[("expr", key)]


def _func_variant(key):
    import ast
    if ("func", key) in _VARIANTS:
        return _VARIANTS[("func", key)]
    site, node, fn_node, glob = _site_callable(key)
    fd = _permset_rewrite(fn_node)
    fd.decorator_list = []
    fd.returns = None
    for a_ in fd.args.args + fd.args.kwonlyargs:
        a_.annotation = None
    for n in ast.walk(fd):
        if isinstance(n, ast.AnnAssign) and n.value is not None:
            n.annotation = ast.Constant(None)
    mod_ast = ast.fix_missing_locations(ast.Module([fd], []))
    exec(compile(mod_ast, S.REPO + "/" + site["file"], "exec"), glob)
    _VARIANTS[("func", key)] = glob[fd.name]
    return glob[fd.name]


# ---- replay: the real readers in fresh interpreters with different hash seeds -------------

_CHILD = r"""
import sys, io, json, base64, hashlib
job = json.loads(sys.stdin.read())
if job["kind"] == "read":
    from sharepoint2text.parsing.router import get_extractor
    data = base64.b64decode(job["data"])
    res = list(get_extractor(job["name"])(io.BytesIO(data), job["name"]))
    js = [r.to_json() for r in res]
    print(json.dumps({"sha": hashlib.sha256(json.dumps(js, sort_keys=True, default=str).encode()).hexdigest(),
                      "styles": js[0].get("styles")}))
else:
    from sharepoint2text.parsing.extractors.serialization import deserialize_extraction, serialize_extraction
    obj = deserialize_extraction(job["json"])
    print(json.dumps({"sha": hashlib.sha256(json.dumps(serialize_extraction(obj), sort_keys=True, default=str).encode()).hexdigest(),
                      "styles": list(vars(obj))}))
"""


def run_under_seeds(job, seeds, stop_on_difference=True):
    """result of the job in one fresh interpreter per PYTHONHASHSEED value"""
    import json
    import subprocess
    import sys
    out = []
    for sd in seeds:
        env = dict(os.environ, PYTHONHASHSEED=str(sd), PYTHONDONTWRITEBYTECODE="1")
        pr = subprocess.run([sys.executable, "-c", _CHILD], input=json.dumps(job).encode(), env=env,
                            stdout=subprocess.PIPE, stderr=subprocess.PIPE, timeout=120)
        if pr.returncode != 0:
            raise RuntimeError("reader process failed: " + pr.stderr.decode()[-300:])
        out.append((sd, json.loads(pr.stdout.decode())))
        if stop_on_difference and out[-1][1] != out[0][1]:
            break
    return out


def _zip_bytes(members, stored_first=False):
    import zipfile
    b = io.BytesIO()
    with zipfile.ZipFile(b, "w") as z:
        for i, (n, d) in enumerate(members):
            zi = zipfile.ZipInfo(n, date_time=(2020, 1, 1, 0, 0, 0))
            zi.compress_type = zipfile.ZIP_STORED if (stored_first and i == 0) else zipfile.ZIP_DEFLATED
            z.writestr(zi, d)
    return b.getvalue()


def write_docx(styles):
    """minimal WordprocessingML package: one paragraph per entry, with that paragraph style (None: no style)"""
    W = "http://schemas.openxmlformats.org/wordprocessingml/2006/main"
    R = "http://schemas.openxmlformats.org/officeDocument/2006/relationships"
    paras = "".join('<w:p>%s<w:r><w:t>p%d</w:t></w:r></w:p>' % ('<w:pPr><w:pStyle w:val="%s"/></w:pPr>' % s_ if s_ else "", i)
                    for i, s_ in enumerate(styles))
    ct = ('<?xml version="1.0" encoding="UTF-8"?><Types xmlns="http://schemas.openxmlformats.org/package/2006/content-types">'
          '<Default Extension="rels" ContentType="application/vnd.openxmlformats-package.relationships+xml"/>'
          '<Default Extension="xml" ContentType="application/xml"/><Override PartName="/word/document.xml" '
          'ContentType="application/vnd.openxmlformats-officedocument.wordprocessingml.document.main+xml"/></Types>')
    rels = ('<?xml version="1.0" encoding="UTF-8"?><Relationships xmlns="http://schemas.openxmlformats.org/package/2006/relationships">'
            '<Relationship Id="rId1" Type="%s/officeDocument" Target="word/document.xml"/></Relationships>' % R)
    doc = '<?xml version="1.0" encoding="UTF-8"?><w:document xmlns:w="%s"><w:body>%s</w:body></w:document>' % (W, paras)
    return _zip_bytes([("[Content_Types].xml", ct), ("_rels/.rels", rels), ("word/document.xml", doc)])


_ODF_NS = ('xmlns:office="urn:oasis:names:tc:opendocument:xmlns:office:1.0" '
           'xmlns:style="urn:oasis:names:tc:opendocument:xmlns:style:1.0" '
           'xmlns:text="urn:oasis:names:tc:opendocument:xmlns:text:1.0"')


def write_odt(content_styles, styles_styles):
    """minimal OpenDocument text: automatic styles of content.xml and styles of styles.xml with the given names"""
    def decl(names):
        return "".join('<style:style style:family="paragraph"%s/>' % (' style:name="%s"' % n if n is not None else "") for n in names)
    content = ('<?xml version="1.0" encoding="UTF-8"?><office:document-content %s><office:automatic-styles>%s'
               '</office:automatic-styles><office:body><office:text><text:p>hello</text:p></office:text></office:body>'
               '</office:document-content>' % (_ODF_NS, decl(content_styles)))
    styles = ('<?xml version="1.0" encoding="UTF-8"?><office:document-styles %s><office:styles>%s</office:styles>'
              '</office:document-styles>' % (_ODF_NS, decl(styles_styles)))
    man = ('<?xml version="1.0" encoding="UTF-8"?><manifest:manifest xmlns:manifest="urn:oasis:names:tc:opendocument:xmlns:manifest:1.0">'
           '<manifest:file-entry manifest:full-path="/" manifest:media-type="application/vnd.oasis.opendocument.text"/>'
           '<manifest:file-entry manifest:full-path="content.xml" manifest:media-type="text/xml"/>'
           '<manifest:file-entry manifest:full-path="styles.xml" manifest:media-type="text/xml"/></manifest:manifest>')
    return _zip_bytes([("mimetype", "application/vnd.oasis.opendocument.text"), ("content.xml", content),
                       ("styles.xml", styles), ("META-INF/manifest.xml", man)], stored_first=True)


def _names(ctx, prefix, n, length):
    """n style names: absent (None) / empty / a name of `length` symbolic lower-case letters"""
    out = []
    for i in range(n):
        kind = ctx.pick("%s%d_kind" % (prefix, i), 3 if n <= 2 else 1)
        if kind == 0:
            out.append(ctx.fresh_chars("%s%d" % (prefix, i), length, 97, 122))
        else:
            out.append(None if kind == 1 else "")
    return out


class _FakeStyle:
    def __init__(self, name):
        self.name = name

    def get(self, attr, default=None):
        return self.name if attr.endswith("}name") else default


class _FakeRoot:
    """what _extract_styles_from_context needs from an ElementTree root"""

    def __init__(self, names, tag):
        self.names, self.tag_wanted = names, tag

    def iter(self, tag=None):
        return iter([_FakeStyle(n) for n in self.names]) if tag == self.tag_wanted else iter(())


def _permutation_of(r1, r2):
    """r1 is a rearrangement of r2 (lists of strings): python bool or z3 Bool"""
    import itertools
    if len(r1) != len(r2):
        return False
    alts = []
    for sg in itertools.permutations(range(len(r2))):
        c = Cmp()
        for j, sj in enumerate(sg):
            c.leaf(r1[j], r2[sj], "/%d" % j)
        r = c.result()
        if r is True:
            return True
        if r is not False:
            alts.append(r)
    if not alts:
        return False
    return z3.Or(*alts) if len(alts) > 1 else alts[0]


def _drive_docx(ctx, key):
    n = ctx.params.get("n", 2)
    names = _names(ctx, "style", n, ctx.params.get("name_len", 2))
    if ctx.concrete:
        k = len({x for x in names if x})
        runs = run_under_seeds({"kind": "read", "name": "x.docx", "data": base64.b64encode(write_docx(names)).decode()},
                               range(24) if k >= 2 else range(2))
        return [r["styles"] for _, r in runs], [r["sha"] for _, r in runs], names

    class Para:
        def __init__(self, style):
            self.style = style
    ev = _eval_site_expr(key)
    out = []
    for fam in ("order1", "order2"):
        _Perm.family, _Perm.sets = fam, 0
        out.append(ev({"paragraphs": [Para(x) for x in names]}))
    return out, out, names


def _drive_odt(ctx, key):
    import importlib
    n = ctx.params.get("n", 2)
    n_content = ctx.pick("names_in_content_xml", n + 1)
    names = _names(ctx, "style", n, ctx.params.get("name_len", 2))
    if ctx.concrete:
        k = len({x for x in names if x})
        runs = run_under_seeds({"kind": "read", "name": "x.odt",
                                "data": base64.b64encode(write_odt(names[:n_content], names[n_content:])).decode()},
                               range(24) if k >= 2 else range(2))
        return [r["styles"] for _, r in runs], [r["sha"] for _, r in runs], names
    mod = importlib.import_module("sharepoint2text.parsing.extractors.open_office.odt_extractor")
    fn = _func_variant(key)

    class FakeCtx:
        content_root = _FakeRoot(names[:n_content], mod._STYLE_STYLE_TAG)
        styles_root = _FakeRoot(names[n_content:], mod._STYLE_STYLE_TAG) if ctx.pick("styles_xml_present", 2) == 0 or \
            n_content < n else None
    out = []
    for fam in ("order1", "order2"):
        _Perm.family, _Perm.sets = fam, 0
        out.append(fn(FakeCtx()))
    return out, out, names


_DESER_CASES = [("TableDim", {"rows": "int", "columns": "int"}), ("EmailAddress", {"name": "str", "address": "str"}),
                ("DocxHyperlink", {"text": "str", "url": "str"}), ("RtfFootnote", {"id": "int", "text": "str"}),
                ("OdtNote", {"id": "str", "note_class": "str", "text": "str"})]


def _drive_deserialize(ctx, key):
    case = ctx.pick("class", len(_DESER_CASES))
    cname, fields_ = _DESER_CASES[case]
    data = {"_type": cname}
    for i, (f, t) in enumerate(fields_.items()):
        data[f] = ctx.fresh_int("field_%s" % f, 0, 9) if t == "int" else "v%d" % i
    if ctx.concrete:
        runs = run_under_seeds({"kind": "deserialize", "json": data}, range(3), stop_on_difference=False)
        return [r["sha"] for _, r in runs], [r["sha"] for _, r in runs], data
    fn = _func_variant(key)
    expected = None
    if ctx.perturb == "constructor_sees_keyword_order":
        @dataclasses.dataclass(init=False)
        class Rec:
            a: int = 0
            b: int = 0

            def __init__(self, **kw):
                self.a, self.b = list(kw), 0
        data, expected = {"a": 1, "b": 2}, Rec
    out = []
    for fam in ("order1", "order2"):
        _Perm.family, _Perm.sets = fam, 0
        out.append(view(fn(dict(data), expected)))
    return out, out, data


class SymKeyDict:
    """dict stand-in whose keys may be symbolic strings: key equality is decided by the solver (a fork
    per comparison), insertion order is kept, a store to an existing key replaces the value"""

    def __init__(self):
        self.entries = []

    def _find(self, k):
        for i, (kk, _) in enumerate(self.entries):
            if PermSet._eq(kk, k):
                return i
        return -1

    def __setitem__(self, k, v):
        i = self._find(k)
        if i < 0:
            self.entries.append([k, v])
        else:
            self.entries[i][1] = v

    def __getitem__(self, k):
        i = self._find(k)
        if i < 0:
            raise KeyError(k)
        return self.entries[i][1]

    def get(self, k, default=None):
        i = self._find(k)
        return default if i < 0 else self.entries[i][1]

    def setdefault(self, k, default=None):
        i = self._find(k)
        if i < 0:
            self.entries.append([k, default])
            return default
        return self.entries[i][1]

    def __contains__(self, k):
        return self._find(k) >= 0

    def __len__(self):
        return len(self.entries)

    def __iter__(self):
        return iter([k for k, _ in self.entries])

    keys = __iter__

    def values(self):
        return iter([v for _, v in self.entries])

    def items(self):
        return iter([(k, v) for k, v in self.entries])

    def state(self):
        return {"__mapping__": [[view(k), view(v)] for k, v in self.entries]}


def _loop_string_constants(key):
    """string constants of the loop at the site (the tests its body applies to a member name)"""
    import ast
    site, node, tree = scan_sites()[key]
    loop = node if isinstance(node, ast.For) else _enclosing(node, (ast.For,))
    return [c.value for c in ast.walk(loop) if isinstance(c, ast.Constant) and isinstance(c.value, str)] if loop else []


_P_NS = "http://schemas.openxmlformats.org/presentationml/2006/main"
_R_NS = "http://schemas.openxmlformats.org/officeDocument/2006/relationships"


def write_pptx_with_members(extra_members, n_slides=2):
    """minimal PresentationML package with n slides plus the given extra members (name -> comment-list part whose
    one comment says which member it is)"""
    A = "http://schemas.openxmlformats.org/drawingml/2006/main"
    PKG = "http://schemas.openxmlformats.org/package/2006/relationships"
    ct = ('<?xml version="1.0" encoding="UTF-8"?><Types xmlns="http://schemas.openxmlformats.org/package/2006/content-types">'
          '<Default Extension="rels" ContentType="application/vnd.openxmlformats-package.relationships+xml"/>'
          '<Default Extension="xml" ContentType="application/xml"/></Types>')
    prs = ('<?xml version="1.0" encoding="UTF-8"?><p:presentation xmlns:p="%s" xmlns:r="%s"><p:sldIdLst>%s</p:sldIdLst></p:presentation>'
           % (_P_NS, _R_NS, "".join('<p:sldId id="%d" r:id="rId%d"/>' % (256 + i, i + 1) for i in range(n_slides))))
    prs_rels = ('<?xml version="1.0" encoding="UTF-8"?><Relationships xmlns="%s">%s</Relationships>'
                % (PKG, "".join('<Relationship Id="rId%d" Type="%s/slide" Target="slides/slide%d.xml"/>' % (i + 1, _R_NS, i + 1)
                                for i in range(n_slides))))
    slide = ('<?xml version="1.0" encoding="UTF-8"?><p:sld xmlns:p="%s" xmlns:a="%s" xmlns:r="%s"><p:cSld><p:spTree><p:sp><p:nvSpPr>'
             '<p:cNvPr id="2" name="Title"/><p:cNvSpPr/><p:nvPr><p:ph type="title"/></p:nvPr></p:nvSpPr><p:spPr/><p:txBody><a:bodyPr/>'
             '<a:p><a:r><a:t>Slide %%d</a:t></a:r></a:p></p:txBody></p:sp></p:spTree></p:cSld></p:sld>' % (_P_NS, A, _R_NS))
    members = [("[Content_Types].xml", ct), ("ppt/presentation.xml", prs), ("ppt/_rels/presentation.xml.rels", prs_rels)]
    members += [("ppt/slides/slide%d.xml" % (i + 1), slide % (i + 1)) for i in range(n_slides)]
    taken = {n for n, _ in members}
    for i, name in enumerate(extra_members):
        if name in taken:
            continue
        taken.add(name)
        members.append((name, '<?xml version="1.0" encoding="UTF-8"?><p:cmLst xmlns:p="%s"><p:cm authorId="0" dt="2024-01-01T00:00:00" '
                              'idx="1"><p:pos x="10" y="10"/><p:text>comment stored in member %d</p:text></p:cm></p:cmLst>' % (_P_NS, i)))
    return _zip_bytes(members)


def _drive_pptx_namelist(ctx, key):
    """_PptxContext._load_xml_files on an object whose _namelist is a set of symbolic member names (every character
    symbolic, so that the loop body's own startswith / endswith / lower / == decide); observed afterwards through the
    class's own accessor get_comment_root(slide number) and the other cached roots"""
    import importlib
    n = ctx.params.get("n", 2)
    try:                                    # the same lengths in symbolic runs and in replay (the index is the recorded input)
        longest = sum(len(c) for c in _loop_string_constants(key)) + 1
    except Exception:
        longest = 25
    lens = ctx.params.get("lens") or [longest, 4] + ([21] if ctx.params.get("slide_length_names") else [])
    names = []
    for i in range(n):
        ln = lens[ctx.pick("member%d_length" % i, len(lens))]
        names.append(ctx.fresh_chars("member%d" % i, ln, 45, 122))
    if ctx.concrete:
        k = len(set(names))
        runs = run_under_seeds({"kind": "read", "name": "x.pptx",
                                "data": base64.b64encode(write_pptx_with_members(names)).decode()},
                               range(24) if k >= 2 else range(2))
        return [r["sha"] for _, r in runs], [r["sha"] for _, r in runs], names
    mod = importlib.import_module("sharepoint2text.parsing.extractors.ms_modern.pptx_extractor")
    cls = mod._PptxContext
    slide_paths = ["ppt/slides/slide1.xml", "ppt/slides/slide2.xml"]

    class Fake:
        def __init__(self):
            self._namelist = PermSet(names)
            self.namelist = self._namelist
            self._core_root = self._presentation_root = self._presentation_rels_root = None
            self._slide_roots, self._slide_rels_roots, self._comment_roots = SymKeyDict(), SymKeyDict(), SymKeyDict()
            self._slide_order, self._slide_relationships = None, SymKeyDict()

        def read_xml_root(self, path):
            return ["xml root of member", path]

        def exists(self, path):
            return path in self._namelist

        def _compute_slide_order(self):
            return list(slide_paths)
    out = []
    for fam in ("order1", "order2"):
        _Perm.family, _Perm.sets = fam, 0
        fake = Fake()
        try:
            cls._load_xml_files(fake)
            seen = {"comment_root_of_slide": [view(cls.get_comment_root(fake, d)) for d in (1, 2)],
                    "core": view(fake._core_root), "presentation": view(fake._presentation_root),
                    "slides": fake._slide_roots.state(), "slide_rels": fake._slide_rels_roots.state()}
            if ctx.perturb == "insertion_order_counts":
                seen["comments_in_insertion_order"] = [view(k_) for k_ in fake._comment_roots]
        except S.Unsupported:
            raise
        except Exception as e:
            seen = {"__raised__": type(e).__name__, "msg": str(e)[:80]}
        out.append(seen)
    return out, out, names


SITE_PPTX = "sharepoint2text/parsing/extractors/ms_modern/pptx_extractor.py::_PptxContext._load_xml_files::1"
SITE_DOCX = "sharepoint2text/parsing/extractors/ms_modern/docx_extractor.py::read_docx::1"
SITE_ODT = "sharepoint2text/parsing/extractors/open_office/odt_extractor.py::_extract_styles_from_context::1"
SITE_DESER = "sharepoint2text/parsing/extractors/serialization.py::_deserialize_dataclass::1"
# docx / odt: the style-list sites of the two repaired findings (8cae066); their models stay so that the sites are
# evaluated again should they come back
SITE_DRIVERS = {SITE_PPTX: _drive_pptx_namelist, SITE_DOCX: _drive_docx, SITE_ODT: _drive_odt, SITE_DESER: _drive_deserialize}
SEQUENCE_SITES = {SITE_DOCX, SITE_ODT}     # the value at the site is itself a list that becomes a result field


def k2_set_order(ctx):
    key = ctx.params.get("site", SITE_DESER)
    if key not in SITE_DRIVERS:
        raise S.BoundExceeded("set-to-sequence site without an evaluation model: %s" % key)
    if not ctx.concrete:
        if key not in scan_sites():
            raise S.BoundExceeded("site %s is no longer found by the scan" % key)
        _Perm.ctx = ctx
        _Perm.symbolic_strings = key in SEQUENCE_SITES
        ctx.decision_memo = {}
    Cmp.ordered_mappings = ctx.perturb == "insertion_order_counts"
    results, full, inputs = SITE_DRIVERS[key](ctx, key)
    info = dict(site=key, inputs=repr(inputs)[:120])
    first = results[0]
    for other, other_full in zip(results[1:], full[1:]):
        if key in SEQUENCE_SITES and isinstance(first, list) and isinstance(other, list):
            same_content = _permutation_of(first, other) if ctx.perturb != "rearrangement_counts_as_change" else same(first, other)[0]
            ctx.require(same_content, "set-order-changes-content", a=repr(first)[:80], b=repr(other)[:80], **info)
        r, where = same(other_full, full[0])
        ctx.require(r, "set-order-leaks-into-result", differs_at=where, a=repr(first)[:80], b=repr(other)[:80], **info)
    ctx.require(True, "evaluated")


def _k2_parts(tier):
    parts = []
    for key in sorted(scan_sites()):
        if key in SEQUENCE_SITES:
            parts += [{"site": key, "n": n, "name_len": 2} for n in ((1, 2, 3) if tier == "quick" else (1, 2, 3, 4))]
        elif key == SITE_PPTX:
            parts += [{"site": key, "n": n} for n in (1, 2)]
            if tier != "quick":
                parts.append({"site": key, "n": 3})
                parts.append({"site": key, "n": 2, "slide_length_names": True})
        else:
            parts.append({"site": key})          # no model: the harness reports the site as inconclusive
    return parts


def _k2_targets():
    import importlib
    out = []
    for key in sorted(scan_sites()):
        if key in SITE_DRIVERS:
            f, fn, _ = key.split("::")
            obj = importlib.import_module(f[:-3].replace("/", "."))
            for part in fn.split("."):
                obj = getattr(obj, part)
            out.append(obj)
    return out


# =======================================================================================
# K3: stream handling on a stand-in stream with symbolic position
# =======================================================================================

POS_HI = 2 ** 32


class SymStream(io.BytesIO):
    """the caller's BytesIO in symbolic runs: the position is whatever seek() was given (a symbolic
    int to begin with), every mutating call is recorded instead of performed"""

    def __init__(self, ctx, content, pos):
        super().__init__(content)
        self._ctx, self._content, self.pos = ctx, content, pos
        self.mutations, self.seeks, self.reads, self.closed_by_callee = [], [], 0, False

    def tell(self):
        return self.pos

    def seek(self, off, whence=0):
        self.seeks.append((off, whence))
        self.pos = off if whence == 0 else (self.pos + off if whence == 1 else len(self._content) + off)
        return self.pos

    def read(self, n=-1):
        self.reads += 1
        size = len(self._content)
        if isinstance(self.pos, int):
            p0 = min(self.pos, size)
        elif self.pos >= size:
            p0 = size
        else:
            p0 = self._ctx.conc(self.pos, 0, size)
        end = size if n is None or n < 0 else min(size, p0 + n)
        self.pos = end if not isinstance(self.pos, int) or self.pos <= size else self.pos
        return self._content[p0:end]

    read1 = read

    def readinto(self, b):
        data = self.read(len(b))
        b[:len(data)] = data
        return len(data)

    def getvalue(self):
        return self._content

    def write(self, b):
        self.mutations.append("write")
        return len(b)

    def writelines(self, lines):
        self.mutations.append("writelines")

    def truncate(self, size=None):
        self.mutations.append("truncate")
        return 0

    def getbuffer(self):
        self.mutations.append("getbuffer")
        return memoryview(self._content)

    def close(self):
        self.closed_by_callee = True

    def seekable(self):
        return True

    def readable(self):
        return True

    def writable(self):
        return True

    def final_position(self):
        return self.pos

    def content_now(self):
        return self._content


class RecStream(io.BytesIO):
    """the caller's BytesIO in concrete replay: a real BytesIO that also records mutating calls"""

    def __init__(self, ctx, content, pos):
        super().__init__(content)
        super().seek(pos)
        self.mutations, self.closed_by_callee = [], False

    def write(self, b):
        self.mutations.append("write")
        return super().write(b)

    def writelines(self, lines):
        self.mutations.append("writelines")
        return super().writelines(lines)

    def truncate(self, size=None):
        self.mutations.append("truncate")
        return super().truncate(size)

    def getbuffer(self):
        self.mutations.append("getbuffer")
        return super().getbuffer()

    def close(self):
        self.closed_by_callee = True        # kept open so that the harness can still look at it

    def final_position(self):
        return self.tell()

    def content_now(self):
        return self.getvalue()


def _stream(ctx, content):
    p0 = ctx.fresh_int("initial_position", 0, POS_HI)
    return (RecStream if ctx.concrete else SymStream)(ctx, content, p0), p0


def _moves(ctx, f, who):
    """a third-party parser leaves the stream wherever it likes"""
    f.seek(ctx.fresh_int("%s_leaves_stream_at" % who, 0, POS_HI))


class _FakeZip:
    """zipfile.ZipFile stand-in: records how it was opened, moves the stream, serves one manifest"""
    opened = None

    def __init__(self, ctx, spec):
        self.ctx, self.spec = ctx, spec

    def __call__(self, file_like, mode="r", *a, **k):
        import zipfile
        _FakeZip.opened.append(("open", mode))
        if self.spec["open"] == "badzip":
            _moves(self.ctx, file_like, "zipfile")
            raise zipfile.BadZipFile("not a zip")
        if self.spec["open"] == "oserror":
            raise OSError("boom")
        _moves(self.ctx, file_like, "zipfile")
        outer = self

        class Z:
            def infolist(self):
                if outer.spec["infolist"] == "raises":
                    raise RuntimeError("central directory unreadable")
                return [_Info(10, 0 if outer.spec["infolist"] == "bomb" else 10)]

            def namelist(self):
                return ["META-INF/manifest.xml"]

            def read(self, name, pwd=None):
                _moves(outer.ctx, file_like, "zipfile_read")
                if outer.spec["manifest"] is None:
                    raise KeyError(name)
                return outer.spec["manifest"]

            def close(self):
                _FakeZip.opened.append(("close",))

            def __enter__(self):
                return self

            def __exit__(self, *a):
                self.close()
                return False
        return Z()


class _Info:
    filename = "m"

    def __init__(self, file_size, compress_size):
        self.file_size, self.compress_size = file_size, compress_size

    def is_dir(self):
        return False


_MANIFESTS = [None,
              b'<manifest:manifest xmlns:manifest="urn:oasis:names:tc:opendocument:xmlns:manifest:1.0"><manifest:file-entry '
              b'manifest:full-path="content.xml"/></manifest:manifest>',
              b'<manifest:manifest xmlns:manifest="urn:oasis:names:tc:opendocument:xmlns:manifest:1.0"><manifest:file-entry '
              b'manifest:full-path="content.xml"><manifest:encryption-data/></manifest:file-entry></manifest:manifest>']


def _zip_spec(ctx, with_manifest=False):
    spec = {"open": ["ok", "badzip", "oserror"][ctx.pick("zip_open", 3)], "infolist": "ok", "manifest": None}
    if spec["open"] == "ok":
        spec["infolist"] = ["ok", "bomb", "raises"][ctx.pick("zip_infolist", 3)]
        if with_manifest:
            spec["manifest"] = _MANIFESTS[ctx.pick("manifest", len(_MANIFESTS))]
    return spec


class _FakeOle:
    """olefile stand-ins.  isOleFile reads the magic AT THE CURRENT POSITION (olefile documentation /
    source: 'file-like object: parsed as-is'), so the stream must be at 0 when it is called."""

    def __init__(self, ctx, stream, biff=None):
        self.ctx, self.stream, self.biff = ctx, stream, biff
        self.answers = {}
        self.started_at = []

    def isOleFile(self, f=None, data=None):
        self.started_at.append(f.tell())
        _moves(self.ctx, f, "isOleFile")
        return self.ctx.pick("is_ole_file", 2) == 0

    def OleFileIO(self, f, *a, **k):
        outer = self
        _moves(self.ctx, f, "OleFileIO")

        class O:
            def exists(self, name):
                if name not in outer.answers:
                    outer.answers[name] = outer.ctx.fresh_bool("ole_has_" + name)
                return outer.answers[name]

            def openstream(self, name):
                class St:
                    def read(self, n=-1):
                        return outer.biff
                return St()

            def close(self):
                pass

            def __enter__(self):
                return self

            def __exit__(self, *a):
                return False
        return O()


def k3_streams(ctx):
    import zipfile
    import olefile
    from sharepoint2text.parsing.extractors import serialization as ser
    from sharepoint2text.parsing.extractors.util import zip_bomb as zb, zip_context as zc, encryption as enc
    from sharepoint2text.parsing.exceptions import ExtractionZipBombError
    dt = _dt()
    fn = ctx.params.get("fn", "_bytesio_to_base64")
    content = b"PK\x03\x04 caller's bytes"
    ctx.decision_memo = {}
    st, p0 = _stream(ctx, content)
    info = dict(fn=fn)
    raised = None
    _FakeZip.opened = []
    promised_position = None          # where the function's documentation promises to leave the stream
    started = []

    if fn == "_bytesio_to_base64":
        binary = ctx.pick("include_binary", 2) == 0
        img = dt.DocxImage(rel_id="r", data=st, image_index=1)
        out = [ser.serialize_extraction(img, include_binary=binary) for _ in range(1 + ctx.pick("serialised_twice", 2))]
        expected = {"_bytesio": base64.b64encode(content).decode("ascii")} if binary else None
        if ctx.perturb == "expect_rewound":
            promised_position = 0
        else:
            promised_position = p0
        for o in out:
            ctx.require(o["data"] == expected, "encoded-bytes-differ-from-buffer-content", got=repr(o["data"])[:60], **info)
    elif fn in ("validate_zip_bytesio", "open_zipfile", "ZipContext"):
        spec = _zip_spec(ctx)
        info.update(spec)
        with ctx.stub(zipfile, ZipFile=_FakeZip(ctx, spec)):
            try:
                if fn == "validate_zip_bytesio":
                    zb.validate_zip_bytesio(st, source="x")
                    promised_position = p0            # docstring: "Restores the original stream position."
                elif fn == "open_zipfile":
                    zb.open_zipfile(st, source="x")
                else:
                    zc.ZipContext(st)
            except Exception as e:
                raised = e
                if fn == "validate_zip_bytesio":
                    promised_position = p0
        modes = [ev[1] for ev in _FakeZip.opened if ev[0] == "open"]
        ctx.require(all(m == "r" for m in modes), "container-opened-writable", modes=modes, **info)
        if spec["open"] == "ok" and spec["infolist"] == "ok":
            ctx.require(raised is None, "accepted-container-raised", raised=repr(raised)[:80], **info)
        if spec["open"] == "ok" and spec["infolist"] != "ok":
            ctx.require(isinstance(raised, ExtractionZipBombError), "rejected-container-not-reported", raised=repr(raised)[:80], **info)
            ctx.require(("close",) in _FakeZip.opened, "rejected-container-left-open", **info)
    else:
        biff = None
        if fn == "is_xls_encrypted":
            biff = ctx.fresh_bytes("workbook", ctx.params.get("biff_len", 6))
        ole = _FakeOle(ctx, st, biff)
        spec = _zip_spec(ctx, with_manifest=True) if fn == "is_odf_encrypted" else {}
        info.update({k_: v for k_, v in spec.items() if k_ != "manifest"})
        is_zip = ctx.pick("is_zipfile", 2) == 0 if fn == "is_odf_encrypted" else False

        def fake_is_zipfile(f):
            _moves(ctx, f, "is_zipfile")
            return is_zip
        with ctx.stub(olefile, isOleFile=ole.isOleFile, OleFileIO=ole.OleFileIO), \
                ctx.stub(zipfile, ZipFile=_FakeZip(ctx, spec or {"open": "ok", "infolist": "ok", "manifest": None}),
                         is_zipfile=fake_is_zipfile), \
                ctx.shadow(enc, int=S.IntShadow, len=S.sym_len):
            try:
                verdict = getattr(enc, fn)(st)
            except Exception as e:
                raised, verdict = e, None
        started = ole.started_at
        if ctx.perturb == "parser_may_start_anywhere":
            started = [p0]
        if raised is None:
            ctx.require(verdict is True or verdict is False or isinstance(verdict, S.SymBool), "verdict-not-bool",
                        got=repr(verdict)[:40], **info)
    for at in started:
        ctx.require(at == 0, "parser-started-at-callers-position", **info)
    ctx.require(not st.mutations, "callers-stream-written", calls=st.mutations, **info)
    ctx.require(not st.closed_by_callee, "callers-stream-closed", **info)
    ctx.require(st.content_now() == content, "callers-buffer-content-changed", **info)
    if promised_position is not None:
        ctx.require(st.final_position() == promised_position, "stream-position-not-restored",
                    raised=type(raised).__name__ if raised else None, **info)


K3_FUNCTIONS = ["_bytesio_to_base64", "validate_zip_bytesio", "open_zipfile", "ZipContext", "is_ooxml_encrypted",
                "is_odf_encrypted", "is_xls_encrypted", "is_ppt_encrypted"]


def _k3_targets():
    from sharepoint2text.parsing.extractors import serialization as ser
    from sharepoint2text.parsing.extractors.util import zip_bomb as zb, zip_context as zc, encryption as enc
    return [ser._bytesio_to_base64, ser._serialize_for_json, zb.validate_zip_bytesio, zb.open_zipfile, zc.ZipContext.__init__,
            enc.is_ooxml_encrypted, enc.is_odf_encrypted, enc.is_xls_encrypted, enc.is_ppt_encrypted]


# =======================================================================================
# K4: public readers on generated files: buffer untouched, result independent of the position
# =======================================================================================

def _tar_bytes(members):
    import tarfile
    b = io.BytesIO()
    with tarfile.open(fileobj=b, mode="w") as t:
        for n, d in members:
            ti = tarfile.TarInfo(n)
            ti.size = len(d)
            t.addfile(ti, io.BytesIO(d))
    return b.getvalue()


def write_xlsx(core=None):
    """minimal SpreadsheetML package with one sheet; core: None (no docProps/core.xml - the part is optional in OPC),
    'dates' (core properties with dcterms:created/modified) or 'nodates' (core properties without them)"""
    M = "http://schemas.openxmlformats.org/spreadsheetml/2006/main"
    R = "http://schemas.openxmlformats.org/officeDocument/2006/relationships"
    P = "http://schemas.openxmlformats.org/package/2006/relationships"
    ct = ('<?xml version="1.0" encoding="UTF-8"?><Types xmlns="http://schemas.openxmlformats.org/package/2006/content-types">'
          '<Default Extension="rels" ContentType="application/vnd.openxmlformats-package.relationships+xml"/>'
          '<Default Extension="xml" ContentType="application/xml"/>'
          '<Override PartName="/xl/workbook.xml" ContentType="application/vnd.openxmlformats-officedocument.spreadsheetml.sheet.main+xml"/>'
          '<Override PartName="/xl/worksheets/sheet1.xml" ContentType="application/vnd.openxmlformats-officedocument.spreadsheetml.worksheet+xml"/>'
          + ('<Override PartName="/docProps/core.xml" ContentType="application/vnd.openxmlformats-package.core-properties+xml"/>' if core else "")
          + '</Types>')
    rels = ('<?xml version="1.0" encoding="UTF-8"?><Relationships xmlns="%s"><Relationship Id="rId1" Type="%s/officeDocument" '
            'Target="xl/workbook.xml"/>%s</Relationships>' % (P, R, '<Relationship Id="rId2" Type="http://schemas.openxmlformats.org/'
            'package/2006/relationships/metadata/core-properties" Target="docProps/core.xml"/>' if core else ""))
    wb = ('<?xml version="1.0" encoding="UTF-8"?><workbook xmlns="%s" xmlns:r="%s"><sheets><sheet name="S1" sheetId="1" r:id="rId1"/>'
          '</sheets></workbook>' % (M, R))
    wbrels = ('<?xml version="1.0" encoding="UTF-8"?><Relationships xmlns="%s"><Relationship Id="rId1" Type="%s/worksheet" '
              'Target="worksheets/sheet1.xml"/></Relationships>' % (P, R))
    sheet = ('<?xml version="1.0" encoding="UTF-8"?><worksheet xmlns="%s"><sheetData><row r="1"><c r="A1" t="inlineStr"><is><t>h</t></is></c>'
             '<c r="B1"><v>1</v></c></row></sheetData></worksheet>' % M)
    members = [("[Content_Types].xml", ct), ("_rels/.rels", rels), ("xl/workbook.xml", wb), ("xl/_rels/workbook.xml.rels", wbrels),
               ("xl/worksheets/sheet1.xml", sheet)]
    if core:
        dates = ('<dcterms:created xsi:type="dcterms:W3CDTF">2015-01-01T10:00:00Z</dcterms:created>'
                 '<dcterms:modified xsi:type="dcterms:W3CDTF">2015-01-02T10:00:00Z</dcterms:modified>') if core == "dates" else ""
        members.append(("docProps/core.xml",
                        '<?xml version="1.0" encoding="UTF-8"?><cp:coreProperties xmlns:cp="http://schemas.openxmlformats.org/package/2006/'
                        'metadata/core-properties" xmlns:dc="http://purl.org/dc/elements/1.1/" xmlns:dcterms="http://purl.org/dc/terms/" '
                        'xmlns:xsi="http://www.w3.org/2001/XMLSchema-instance"><dc:title>T</dc:title><dc:creator>me</dc:creator>%s'
                        '</cp:coreProperties>' % dates))
    return _zip_bytes(members)


def _samples():
    out = {
        "txt": lambda: b"hello world\nline two\n",
        "html": lambda: b"<html><head><title>T</title></head><body><h1>H</h1><p>para</p><table><tr><td>a</td><td>b</td></tr>"
                        b"</table></body></html>",
        "docx": lambda: write_docx(["Heading1", None, "Normal"]),
        "odt": lambda: write_odt(["P1"], ["Standard"]),
        "rtf": lambda: rb"{\rtf1\ansi{\fonttbl{\f0 Times;}}\f0 Hello \par World}",
        "eml": lambda: b"From: a@b.c\r\nTo: x@y.z\r\nSubject: s\r\nDate: Thu, 01 Jan 2015 10:00:00 +0000\r\nMessage-ID: <1@b.c>\r\n\r\nbody text\r\n",
        "mbox": lambda: b"From a@b.c Thu Jan  1 00:00:00 1970\r\nFrom: a@b.c\r\nTo: x@y.z\r\nSubject: s\r\nDate: Thu, 01 Jan 2015 10:00:00 +0000\r\n\r\nbody text\r\n",
        "zip": lambda: _zip_bytes([("a.txt", b"member text"), ("b.html", b"<p>member</p>")]),
        "xlsx": lambda: write_xlsx(None),
        "xlsx+core-properties-with-dates": lambda: write_xlsx("dates"),
        "xlsx+core-properties-without-dates": lambda: write_xlsx("nodates"),
        "tar": lambda: _tar_bytes([("a.txt", b"member text")]),
    }
    try:
        import pypdf

        def pdf():
            w = pypdf.PdfWriter()
            w.add_blank_page(width=200, height=200)
            b = io.BytesIO()
            w.write(b)
            return b.getvalue()
        pdf()
        out["pdf"] = pdf
    except Exception:
        pass
    try:        # OOXML / ODF / EPUB package writers of the C14 check (optional: formats are skipped if unavailable)
        from vf.props import c14
        out.update({"pptx": lambda: c14.write_pptx([[]]), "epub": lambda: c14.write_epub([[]]),
                    "odp": lambda: c14.write_odp([[]])})
    except Exception:
        pass
    return out


def _extract_all(fmt, stream):
    from sharepoint2text.parsing.router import get_extractor
    name = "x." + fmt.split("+")[0]
    try:
        return [view(c.to_json()) for c in get_extractor(name)(stream, name)]
    except Exception as e:
        return {"__raised__": type(e).__name__}


KNOWN_XLSX_CLOCK = "C06-xlsx-missing-core-dates-filled-with-current-time"


def _mask_xlsx_dates(v):
    """result with XlsxMetadata.created/modified removed (class of the known finding: openpyxl fills
    absent core-property dates with the current time)"""
    if isinstance(v, dict):
        drop = ("created", "modified") if (v.get("__class__") or v.get("_type")) == "XlsxMetadata" else ()
        return {k: _mask_xlsx_dates(x) for k, x in v.items() if k not in drop}
    if isinstance(v, (list, tuple)):
        return [_mask_xlsx_dates(x) for x in v]
    return v


def k4_readers(ctx):
    fmt = ctx.params.get("format", "txt")
    data = _samples()[fmt]()
    data = data.getvalue() if isinstance(data, io.BytesIO) else bytes(data)
    n = len(data)
    pos = [0, 1, n // 2, n, n + 7][ctx.pick("initial_position", 5)]
    st = RecStream(ctx, data, pos)
    info = dict(format=fmt, initial_position=pos)
    reference = _extract_all(fmt, io.BytesIO(data if ctx.perturb != "reference_from_other_bytes" else write_docx(["Other"])))
    ctx.require(not (isinstance(reference, dict) and "__raised__" in reference),
                "sample-file-not-readable", got=repr(reference)[:80], **info)
    runs = 1 + ctx.pick("extracted_again_from_the_same_stream", 2)
    for i in range(runs):
        got = _extract_all(fmt, st)
        if ctx.perturb == "caller_stream_written_afterwards":
            st.write(b"!")
        mask = _mask_xlsx_dates if fmt.startswith("xlsx") else (lambda v: v)
        r, where = same(mask(got), mask(reference))
        ctx.require(r, "result-differs-between-extractions-of-the-same-bytes", run=i + 1, differs_at=where, **info)
        if fmt.startswith("xlsx") and KNOWN_XLSX_CLOCK not in ctx.params.get("known_active", []):
            r, where = same(got, reference)
            ctx.require(r, "result-differs-between-extractions-of-the-same-bytes", run=i + 1, differs_at=where,
                        only="XlsxMetadata.created/modified", **info)
        ctx.require(not st.mutations, "callers-stream-written", calls=st.mutations, run=i + 1, **info)
        ctx.require(st.getvalue() == data, "callers-buffer-content-changed", run=i + 1, **info)
        ctx.require(not st.closed_by_callee, "callers-stream-closed", run=i + 1, **info)


def _k4_targets():
    from sharepoint2text.parsing.router import get_extractor
    return [get_extractor("x." + f) for f in sorted({f.split("+")[0] for f in _samples()})]


# =======================================================================================
# K5: extraction histories - the result for (bytes, path) does not depend on what the process
#     extracted before
# =======================================================================================
#
# Documents are generated as packages (list of members) in an "ink": every text, name and image of a
# document carries its ink, so two documents of one format have the SAME part names / relationship ids /
# style ids with DIFFERENT content.  A family is the full-featured package and, for every member, the
# package without it (references left dangling) and without it and without the elements that refer to
# it (ids left dangling).  A sequence of documents is extracted by the public reader in ONE process
# that has extracted nothing before; the oracle for every step is the result of the same (bytes, path)
# in a process of its own.

INKS = ["alpha", "bravo"]
_PNG_1x1 = base64.b64decode("iVBORw0KGgoAAAANSUhEUgAAAAEAAAABCAYAAAAfFcSJAAAADUlEQVR42mP8z8BQDwAEhQGAhKmMIQAAAABJRU5ErkJggg==")
_NS_W = "http://schemas.openxmlformats.org/wordprocessingml/2006/main"
_NS_A = "http://schemas.openxmlformats.org/drawingml/2006/main"
_NS_S = "http://schemas.openxmlformats.org/spreadsheetml/2006/main"
_NS_PKG = "http://schemas.openxmlformats.org/package/2006/relationships"
_CORE_REL = "http://schemas.openxmlformats.org/package/2006/relationships/metadata/core-properties"
_XML = '<?xml version="1.0" encoding="UTF-8"?>'


def _h_rels(items):
    return _XML + '<Relationships xmlns="%s">%s</Relationships>' % (_NS_PKG, "".join(
        '<Relationship Id="%s" Type="%s" Target="%s"%s/>' % (i, t if "://" in t else _R_NS + "/" + t, g,
                                                            ' TargetMode="External"' if g.startswith("http") else "")
        for i, t, g in items))


def _h_ctypes(overrides=()):
    return _XML + ('<Types xmlns="http://schemas.openxmlformats.org/package/2006/content-types">'
                   '<Default Extension="rels" ContentType="application/vnd.openxmlformats-package.relationships+xml"/>'
                   '<Default Extension="xml" ContentType="application/xml"/><Default Extension="png" ContentType="image/png"/>'
                   '%s</Types>' % "".join('<Override PartName="/%s" ContentType="%s"/>' % o for o in overrides))


def _h_core(ink):
    return _XML + ('<cp:coreProperties xmlns:cp="http://schemas.openxmlformats.org/package/2006/metadata/core-properties" '
                   'xmlns:dc="http://purl.org/dc/elements/1.1/" xmlns:dcterms="http://purl.org/dc/terms/" '
                   'xmlns:xsi="http://www.w3.org/2001/XMLSchema-instance"><dc:title>title %s</dc:title><dc:creator>author %s</dc:creator>'
                   '<dcterms:created xsi:type="dcterms:W3CDTF">2015-01-01T10:00:00Z</dcterms:created>'
                   '<dcterms:modified xsi:type="dcterms:W3CDTF">2015-01-02T10:00:00Z</dcterms:modified></cp:coreProperties>' % (ink, ink))


def _h_png(ink):
    return _PNG_1x1 + ink.encode()          # bytes after IEND: one picture, distinct bytes per ink


def pkg_docx(ink):
    def p(text, style=None, extra=""):
        return '<w:p>%s<w:r><w:t>%s</w:t></w:r>%s</w:p>' % ('<w:pPr><w:pStyle w:val="%s"/></w:pPr>' % style if style else "", text, extra)
    wp = "http://schemas.openxmlformats.org/drawingml/2006/wordprocessingDrawing"
    pic = "http://schemas.openxmlformats.org/drawingml/2006/picture"
    drawing = ('<w:p><w:r><w:drawing><wp:inline><wp:extent cx="9525" cy="9525"/><wp:docPr id="1" name="Picture 1" descr="picture %s"/>'
               '<a:graphic><a:graphicData><pic:pic><pic:nvPicPr><pic:cNvPr id="1" name="Picture 1"/></pic:nvPicPr><pic:blipFill>'
               '<a:blip r:embed="rId4"/></pic:blipFill></pic:pic></a:graphicData></a:graphic></wp:inline></w:drawing></w:r></w:p>' % ink)
    body = (p("heading %s" % ink, "Heading1")
            + p("body %s" % ink, None, '<w:r><w:footnoteReference w:id="2"/></w:r><w:r><w:endnoteReference w:id="2"/></w:r>'
                                       '<w:r><w:commentReference w:id="0"/></w:r>')
            + '<w:p><w:hyperlink r:id="rId5"><w:r><w:t>link %s</w:t></w:r></w:hyperlink></w:p>' % ink + drawing
            + '<w:tbl><w:tr><w:tc><w:p><w:r><w:t>cell %s</w:t></w:r></w:p></w:tc></w:tr></w:tbl>' % ink
            + '<w:sectPr><w:headerReference w:type="default" r:id="rId2"/><w:footerReference w:type="default" r:id="rId3"/></w:sectPr>')
    doc = _XML + ('<w:document xmlns:w="%s" xmlns:r="%s" xmlns:wp="%s" xmlns:a="%s" xmlns:pic="%s"><w:body>%s</w:body></w:document>'
                  % (_NS_W, _R_NS, wp, _NS_A, pic, body))

    def part(tag, inner):
        return _XML + '<w:%s xmlns:w="%s" xmlns:r="%s">%s</w:%s>' % (tag, _NS_W, _R_NS, inner, tag)
    return [
        ("[Content_Types].xml", _h_ctypes([("word/document.xml", "application/vnd.openxmlformats-officedocument.wordprocessingml.document.main+xml")])),
        ("_rels/.rels", _h_rels([("rId1", "officeDocument", "word/document.xml"), ("rId2", _CORE_REL, "docProps/core.xml")])),
        ("word/document.xml", doc),
        ("word/_rels/document.xml.rels", _h_rels([
            ("rId1", "styles", "styles.xml"), ("rId2", "header", "header1.xml"), ("rId3", "footer", "footer1.xml"),
            ("rId4", "image", "media/image1.png"), ("rId5", "hyperlink", "http://example.org/" + ink),
            ("rId6", "footnotes", "footnotes.xml"), ("rId7", "endnotes", "endnotes.xml"), ("rId8", "comments", "comments.xml")])),
        ("docProps/core.xml", _h_core(ink)),
        ("word/styles.xml", part("styles", '<w:style w:type="paragraph" w:styleId="Heading1"><w:name w:val="heading 1 %s"/></w:style>' % ink)),
        ("word/header1.xml", part("hdr", p("header %s" % ink))),
        ("word/footer1.xml", part("ftr", p("footer %s" % ink))),
        ("word/footnotes.xml", part("footnotes", '<w:footnote w:id="2">%s</w:footnote>' % p("footnote %s" % ink))),
        ("word/endnotes.xml", part("endnotes", '<w:endnote w:id="2">%s</w:endnote>' % p("endnote %s" % ink))),
        ("word/comments.xml", part("comments", '<w:comment w:id="0" w:author="author %s" w:date="2015-01-01T00:00:00Z">%s</w:comment>'
                                   % (ink, p("comment %s" % ink)))),
        ("word/media/image1.png", _h_png(ink)),
    ]


def pkg_pptx(ink):
    def slide(i):
        return _XML + ('<p:sld xmlns:p="%s" xmlns:a="%s" xmlns:r="%s"><p:cSld><p:spTree><p:nvGrpSpPr><p:cNvPr id="1" name=""/><p:cNvGrpSpPr/><p:nvPr/>'
                       '</p:nvGrpSpPr><p:grpSpPr/><p:sp><p:nvSpPr><p:cNvPr id="2" name="Title"/><p:cNvSpPr/><p:nvPr><p:ph type="title"/></p:nvPr></p:nvSpPr>'
                       '<p:spPr/><p:txBody><a:bodyPr/><a:p><a:r><a:t>slide %d %s</a:t></a:r></a:p></p:txBody></p:sp>'
                       '<p:pic><p:nvPicPr><p:cNvPr id="3" name="Picture 1" descr="picture %s"/><p:cNvPicPr/><p:nvPr/></p:nvPicPr><p:blipFill>'
                       '<a:blip r:embed="rId1"/></p:blipFill><p:spPr><a:xfrm><a:off x="0" y="0"/><a:ext cx="9525" cy="9525"/></a:xfrm></p:spPr></p:pic>'
                       '</p:spTree></p:cSld></p:sld>' % (_P_NS, _NS_A, _R_NS, i, ink, ink))
    notes = _XML + ('<p:notes xmlns:p="%s" xmlns:a="%s"><p:cSld><p:spTree><p:sp><p:nvSpPr><p:cNvPr id="2" name="Notes"/><p:cNvSpPr/><p:nvPr>'
                    '<p:ph type="body"/></p:nvPr></p:nvSpPr><p:spPr/><p:txBody><a:bodyPr/><a:p><a:r><a:t>notes %s</a:t></a:r></a:p></p:txBody></p:sp>'
                    '</p:spTree></p:cSld></p:notes>' % (_P_NS, _NS_A, ink))
    comment = _XML + ('<p:cmLst xmlns:p="%s"><p:cm authorId="0" dt="2015-01-01T00:00:00" idx="1"><p:pos x="1" y="1"/><p:text>comment %s</p:text>'
                      '</p:cm></p:cmLst>' % (_P_NS, ink))
    prs = _XML + ('<p:presentation xmlns:p="%s" xmlns:r="%s"><p:sldIdLst><p:sldId id="256" r:id="rId1"/><p:sldId id="257" r:id="rId2"/>'
                  '</p:sldIdLst></p:presentation>' % (_P_NS, _R_NS))
    return [
        ("[Content_Types].xml", _h_ctypes()),
        ("_rels/.rels", _h_rels([("rId1", "officeDocument", "ppt/presentation.xml"), ("rId2", _CORE_REL, "docProps/core.xml")])),
        ("ppt/presentation.xml", prs),
        ("ppt/_rels/presentation.xml.rels", _h_rels([("rId1", "slide", "slides/slide1.xml"), ("rId2", "slide", "slides/slide2.xml")])),
        ("ppt/slides/slide1.xml", slide(1)),
        ("ppt/slides/_rels/slide1.xml.rels", _h_rels([("rId1", "image", "../media/image1.png"), ("rId2", "notesSlide", "../notesSlides/notesSlide1.xml"),
                                                      ("rId3", "comments", "../comments/comment1.xml")])),
        ("ppt/slides/slide2.xml", slide(2)),
        ("ppt/slides/_rels/slide2.xml.rels", _h_rels([("rId1", "image", "../media/image2.png")])),
        ("docProps/core.xml", _h_core(ink)),
        ("ppt/notesSlides/notesSlide1.xml", notes),
        ("ppt/comments/comment1.xml", comment),
        ("ppt/media/image1.png", _h_png(ink)),
        ("ppt/media/image2.png", _h_png(ink + "2")),
    ]


def pkg_xlsx(ink):
    xdr = "http://schemas.openxmlformats.org/drawingml/2006/spreadsheetDrawing"
    wb = _XML + ('<workbook xmlns="%s" xmlns:r="%s"><sheets><sheet name="first %s" sheetId="1" r:id="rId1"/><sheet name="second %s" sheetId="2" r:id="rId2"/>'
                 '</sheets></workbook>' % (_NS_S, _R_NS, ink, ink))

    def sheet(i, drawing):
        return _XML + ('<worksheet xmlns="%s" xmlns:r="%s"><sheetData><row r="1"><c r="A1" t="s"><v>0</v></c><c r="B1" t="inlineStr"><is><t>inline %d %s</t></is></c>'
                       '<c r="C1"><v>%d</v></c></row></sheetData>%s</worksheet>' % (_NS_S, _R_NS, i, ink, i, '<drawing r:id="rId1"/>' if drawing else ""))
    drawing = _XML + ('<xdr:wsDr xmlns:xdr="%s" xmlns:a="%s" xmlns:r="%s"><xdr:oneCellAnchor><xdr:from><xdr:col>0</xdr:col><xdr:colOff>0</xdr:colOff>'
                      '<xdr:row>2</xdr:row><xdr:rowOff>0</xdr:rowOff></xdr:from><xdr:ext cx="9525" cy="9525"/><xdr:pic><xdr:nvPicPr>'
                      '<xdr:cNvPr id="2" name="Picture 1" descr="picture %s"/><xdr:cNvPicPr/></xdr:nvPicPr><xdr:blipFill><a:blip r:embed="rId1"/></xdr:blipFill>'
                      '<xdr:spPr/></xdr:pic><xdr:clientData/></xdr:oneCellAnchor></xdr:wsDr>' % (xdr, _NS_A, _R_NS, ink))
    return [
        ("[Content_Types].xml", _h_ctypes([
            ("xl/workbook.xml", "application/vnd.openxmlformats-officedocument.spreadsheetml.sheet.main+xml"),
            ("xl/worksheets/sheet1.xml", "application/vnd.openxmlformats-officedocument.spreadsheetml.worksheet+xml"),
            ("xl/worksheets/sheet2.xml", "application/vnd.openxmlformats-officedocument.spreadsheetml.worksheet+xml"),
            ("xl/sharedStrings.xml", "application/vnd.openxmlformats-officedocument.spreadsheetml.sharedStrings+xml"),
            ("xl/drawings/drawing1.xml", "application/vnd.openxmlformats-officedocument.drawing+xml"),
            ("docProps/core.xml", "application/vnd.openxmlformats-package.core-properties+xml")])),
        ("_rels/.rels", _h_rels([("rId1", "officeDocument", "xl/workbook.xml"), ("rId2", _CORE_REL, "docProps/core.xml")])),
        ("xl/workbook.xml", wb),
        ("xl/_rels/workbook.xml.rels", _h_rels([("rId1", "worksheet", "worksheets/sheet1.xml"), ("rId2", "worksheet", "worksheets/sheet2.xml"),
                                                ("rId3", "sharedStrings", "sharedStrings.xml")])),
        ("xl/worksheets/sheet1.xml", sheet(1, True)),
        ("xl/worksheets/sheet2.xml", sheet(2, False)),
        ("xl/sharedStrings.xml", _XML + '<sst xmlns="%s" count="1" uniqueCount="1"><si><t>shared %s</t></si></sst>' % (_NS_S, ink)),
        ("docProps/core.xml", _h_core(ink)),
        ("xl/worksheets/_rels/sheet1.xml.rels", _h_rels([("rId1", "drawing", "../drawings/drawing1.xml")])),
        ("xl/drawings/drawing1.xml", drawing),
        ("xl/drawings/_rels/drawing1.xml.rels", _h_rels([("rId1", "image", "../media/image1.png")])),
        ("xl/media/image1.png", _h_png(ink)),
    ]


_ODF_ALL_NS = ('xmlns:office="urn:oasis:names:tc:opendocument:xmlns:office:1.0" xmlns:style="urn:oasis:names:tc:opendocument:xmlns:style:1.0" '
               'xmlns:text="urn:oasis:names:tc:opendocument:xmlns:text:1.0" xmlns:table="urn:oasis:names:tc:opendocument:xmlns:table:1.0" '
               'xmlns:draw="urn:oasis:names:tc:opendocument:xmlns:drawing:1.0" xmlns:xlink="http://www.w3.org/1999/xlink" '
               'xmlns:svg="urn:oasis:names:tc:opendocument:xmlns:svg-compatible:1.0" xmlns:dc="http://purl.org/dc/elements/1.1/" '
               'xmlns:meta="urn:oasis:names:tc:opendocument:xmlns:meta:1.0" xmlns:presentation="urn:oasis:names:tc:opendocument:xmlns:presentation:1.0"')


def _odf_package(kind, ink, body, master=""):
    mt = "application/vnd.oasis.opendocument." + kind
    content = _XML + ('<office:document-content %s office:version="1.2"><office:automatic-styles><style:style style:name="P1 %s" style:family="paragraph"/>'
                      '</office:automatic-styles><office:body>%s</office:body></office:document-content>' % (_ODF_ALL_NS, ink, body))
    styles = _XML + ('<office:document-styles %s><office:styles><style:style style:name="Standard %s" style:family="paragraph"/></office:styles>'
                     '<office:master-styles><style:master-page style:name="Standard">%s</style:master-page></office:master-styles>'
                     '</office:document-styles>' % (_ODF_ALL_NS, ink, master))
    meta = _XML + ('<office:document-meta %s><office:meta><dc:title>title %s</dc:title><dc:creator>author %s</dc:creator>'
                   '<meta:creation-date>2015-01-01T10:00:00</meta:creation-date></office:meta></office:document-meta>' % (_ODF_ALL_NS, ink, ink))
    man = _XML + ('<manifest:manifest xmlns:manifest="urn:oasis:names:tc:opendocument:xmlns:manifest:1.0">'
                  '<manifest:file-entry manifest:full-path="/" manifest:media-type="%s"/>'
                  '<manifest:file-entry manifest:full-path="content.xml" manifest:media-type="text/xml"/>'
                  '<manifest:file-entry manifest:full-path="styles.xml" manifest:media-type="text/xml"/>'
                  '<manifest:file-entry manifest:full-path="meta.xml" manifest:media-type="text/xml"/>'
                  '<manifest:file-entry manifest:full-path="Pictures/image1.png" manifest:media-type="image/png"/></manifest:manifest>' % mt)
    return [("mimetype", mt), ("content.xml", content), ("META-INF/manifest.xml", man), ("styles.xml", styles), ("meta.xml", meta),
            ("Pictures/image1.png", _h_png(ink))]


def _odf_frame(ink):
    return ('<draw:frame draw:name="frame %s" svg:width="1cm" svg:height="1cm"><draw:image xlink:href="Pictures/image1.png" xlink:type="simple"/>'
            '<svg:title>picture %s</svg:title></draw:frame>' % (ink, ink))


def pkg_odt(ink):
    body = ('<office:text><text:h text:outline-level="1">heading %s</text:h><text:p text:style-name="P1 %s">body %s<text:note text:note-class="footnote" '
            'text:id="n1"><text:note-citation>1</text:note-citation><text:note-body><text:p>footnote %s</text:p></text:note-body></text:note></text:p>'
            '<text:p>%s</text:p><table:table table:name="T"><table:table-row><table:table-cell><text:p>cell %s</text:p></table:table-cell>'
            '</table:table-row></table:table></office:text>' % (ink, ink, ink, ink, _odf_frame(ink), ink))
    master = '<style:header><text:p>header %s</text:p></style:header><style:footer><text:p>footer %s</text:p></style:footer>' % (ink, ink)
    return _odf_package("text", ink, body, master)


def pkg_odp(ink):
    body = ('<office:presentation><draw:page draw:name="page1 %s"><draw:frame presentation:class="title"><draw:text-box><text:p>slide 1 %s</text:p>'
            '</draw:text-box></draw:frame>%s<presentation:notes><draw:frame presentation:class="notes"><draw:text-box><text:p>notes %s</text:p></draw:text-box>'
            '</draw:frame></presentation:notes></draw:page><draw:page draw:name="page2 %s"><draw:frame><draw:text-box><text:p>slide 2 %s</text:p>'
            '</draw:text-box></draw:frame></draw:page></office:presentation>' % (ink, ink, _odf_frame(ink), ink, ink, ink))
    return _odf_package("presentation", ink, body)


def pkg_ods(ink):
    body = ('<office:spreadsheet><table:table table:name="first %s"><table:table-row><table:table-cell office:value-type="string"><text:p>cell %s</text:p>'
            '</table:table-cell><table:table-cell office:value-type="float" office:value="1"><text:p>1</text:p></table:table-cell></table:table-row>'
            '<table:shapes>%s</table:shapes></table:table><table:table table:name="second %s"><table:table-row><table:table-cell office:value-type="string">'
            '<text:p>other %s</text:p></table:table-cell></table:table-row></table:table></office:spreadsheet>' % (ink, ink, _odf_frame(ink), ink, ink))
    return _odf_package("spreadsheet", ink, body)


def pkg_epub(ink):
    def ch(i, img):
        return _XML + ('<html xmlns="http://www.w3.org/1999/xhtml"><head><title>chapter %d %s</title><link rel="stylesheet" href="style.css"/></head><body>'
                       '<h1>chapter %d %s</h1><p>text %d %s</p>%s<table><tr><td>cell %d %s</td></tr></table></body></html>'
                       % (i, ink, i, ink, i, ink, '<p><img src="images/image1.png" alt="picture %s"/></p>' % ink if img else "", i, ink))
    opf = _XML + ('<package xmlns="http://www.idpf.org/2007/opf" version="3.0" unique-identifier="id"><metadata xmlns:dc="http://purl.org/dc/elements/1.1/">'
                  '<dc:title>title %s</dc:title><dc:creator>author %s</dc:creator><dc:identifier id="id">id-%s</dc:identifier><dc:language>en</dc:language></metadata>'
                  '<manifest><item id="ch1" href="ch1.xhtml" media-type="application/xhtml+xml"/><item id="ch2" href="ch2.xhtml" media-type="application/xhtml+xml"/>'
                  '<item id="nav" href="nav.xhtml" media-type="application/xhtml+xml" properties="nav"/><item id="ncx" href="toc.ncx" media-type="application/x-dtbncx+xml"/>'
                  '<item id="css" href="style.css" media-type="text/css"/><item id="img1" href="images/image1.png" media-type="image/png"/></manifest>'
                  '<spine toc="ncx"><itemref idref="ch1"/><itemref idref="ch2"/></spine></package>' % (ink, ink, ink))
    nav = _XML + ('<html xmlns="http://www.w3.org/1999/xhtml" xmlns:epub="http://www.idpf.org/2007/ops"><head><title>nav</title></head><body><nav epub:type="toc"><ol>'
                  '<li><a href="ch1.xhtml">toc 1 %s</a></li><li><a href="ch2.xhtml">toc 2 %s</a></li></ol></nav></body></html>' % (ink, ink))
    ncx = _XML + ('<ncx xmlns="http://www.daisy.org/z3986/2005/ncx/" version="2005-1"><navMap><navPoint id="n1" playOrder="1"><navLabel><text>ncx 1 %s</text>'
                  '</navLabel><content src="ch1.xhtml"/></navPoint></navMap></ncx>' % ink)
    return [("mimetype", "application/epub+zip"),
            ("META-INF/container.xml", _XML + '<container version="1.0" xmlns="urn:oasis:names:tc:opendocument:xmlns:container"><rootfiles>'
                                              '<rootfile full-path="OEBPS/content.opf" media-type="application/oebps-package+xml"/></rootfiles></container>'),
            ("OEBPS/content.opf", opf), ("OEBPS/ch1.xhtml", ch(1, True)), ("OEBPS/ch2.xhtml", ch(2, False)), ("OEBPS/nav.xhtml", nav),
            ("OEBPS/toc.ncx", ncx), ("OEBPS/style.css", "p { color: black } /* %s */" % ink), ("OEBPS/images/image1.png", _h_png(ink))]


# flat formats: a document is a list of elements, the optional ones can each be left out; text formats also come in
# other encodings (their text holds a non-ASCII letter)

def _opt(name, text, without):
    return "" if name == without else text


def _flat_html(ink, without=None):
    o = lambda n, t: _opt(n, t, without)                # noqa: E731
    return ('<html><head>' + o("charset", '<meta charset="utf-8">') + o("title", '<title>title %s</title>' % ink)
            + o("description", '<meta name="description" content="description %s">' % ink) + '</head><body>'
            + o("heading", '<h1>heading %s</h1>' % ink) + '<p>para %s ä</p>' % ink
            + o("link", '<a href="http://example.org/%s">link %s</a>' % (ink, ink))
            + o("table", '<table><tr><td>cell %s</td></tr></table>' % ink) + o("list", '<ul><li>item %s</li></ul>' % ink)
            + '</body></html>').encode("utf-8")


def _flat_eml(ink, without=None):
    o = lambda n, t: _opt(n, t, without)                # noqa: E731
    return ("From: %s@example.org\r\nTo: reader@example.org\r\n" % ink + o("cc", "Cc: copy-%s@example.org\r\n" % ink)
            + o("subject", "Subject: subject %s\r\n" % ink) + o("date", "Date: Thu, 01 Jan 2015 10:00:00 +0000\r\n")
            + o("message-id", "Message-ID: <%s@example.org>\r\n" % ink)
            + "MIME-Version: 1.0\r\nContent-Type: multipart/mixed; boundary=\"BOUND\"\r\n\r\n"
            + o("plain body", "--BOUND\r\nContent-Type: text/plain; charset=utf-8\r\n\r\nbody %s\r\n" % ink)
            + o("html body", "--BOUND\r\nContent-Type: text/html; charset=utf-8\r\n\r\n<html><body><p>html body %s</p></body></html>\r\n" % ink)
            + o("attachment", "--BOUND\r\nContent-Type: text/plain; name=\"note.txt\"\r\nContent-Disposition: attachment; "
                              "filename=\"note.txt\"\r\n\r\nattachment %s\r\n" % ink)
            + "--BOUND--\r\n").encode()


def _flat_mhtml(ink, without=None):
    return (("MIME-Version: 1.0\r\nContent-Type: multipart/related; boundary=\"BOUND\"\r\n" + _opt("subject", "Subject: subject %s\r\n" % ink, without)
             + _opt("date", "Date: Mon, 15 Jan 2024 10:00:00 +0000\r\n", without)
             + "\r\n--BOUND\r\nContent-Type: text/html; charset=\"utf-8\"\r\n\r\n").encode()
            + _flat_html(ink, without) + b"\r\n--BOUND--\r\n")


def _flat_rtf(ink, without=None):
    o = lambda n, t: _opt(n, t, without)                # noqa: E731
    return (r"{\rtf1\ansi" + o("font table", r"{\fonttbl{\f0 Times;}}") + o("colour table", r"{\colortbl;\red255\green0\blue0;}")
            + o("info", r"{\info{\title title %s}{\author author %s}}" % (ink, ink)) + o("header", r"{\header header %s}" % ink)
            + o("footer", r"{\footer footer %s}" % ink) + r"\f0 body %s" % ink + o("footnote", r"{\footnote footnote %s}" % ink)
            + o("page break", r"\page ") + r"\par second %s\par}" % ink).encode()


def _flat_pdf(ink, without=None):
    """one page, one line of text in a standard font, document information with a title"""
    stream = ("BT /F1 12 Tf 20 100 Td (text %s) Tj ET" % ink).encode()
    objs = [b"<< /Type /Catalog /Pages 2 0 R >>", b"<< /Type /Pages /Kids [3 0 R] /Count 1 >>",
            b"<< /Type /Page /Parent 2 0 R /MediaBox [0 0 200 200] /Contents 4 0 R /Resources << /Font << /F1 5 0 R >> >> >>",
            b"<< /Length %d >>\nstream\n" % len(stream) + stream + b"\nendstream",
            b"<< /Type /Font /Subtype /Type1 /BaseFont /Helvetica >>", ("<< /Title (title %s) /Author (author %s) >>" % (ink, ink)).encode()]
    if without == "font":
        objs[2] = objs[2].replace(b"/Resources << /Font << /F1 5 0 R >> >>", b"")
    out, offs = b"%PDF-1.4\n", []
    for i, ob in enumerate(objs):
        offs.append(len(out))
        out += b"%d 0 obj\n" % (i + 1) + ob + b"\nendobj\n"
    xref = len(out)
    out += b"xref\n0 %d\n0000000000 65535 f \n" % (len(objs) + 1) + b"".join(b"%010d 00000 n \n" % x for x in offs)
    return out + b"trailer\n<< /Size %d /Root 1 0 R %s>>\nstartxref\n%d\n%%%%EOF\n" % (
        len(objs) + 1, b"" if without == "document information" else b"/Info 6 0 R ", xref)


def _flat_text(ink, without=None):
    return (_opt("first line", "text %s äö\n" % ink, without) + "line two %s\n" % ink + _opt("last line", "line three %s\n" % ink, without)).encode("utf-8")


def _flat_tar(ink, without=None):
    return _tar_bytes([(n, d) for n, d in [("a.txt", _flat_text(ink)), ("b.html", _flat_html(ink)), ("c.eml", _flat_eml(ink))] if n != without])


def pkg_zip(ink):
    """an archive is a package too: its members are documents"""
    return [("a.txt", _flat_text(ink)), ("b.html", _flat_html(ink)), ("c.docx", _h_zip(pkg_docx(ink))), ("d.eml", _flat_eml(ink)),
            ("e.pdf", _flat_pdf(ink)), ("folder/f.odt", _h_zip(pkg_odt(ink)))]


def _h_zip(members):
    import zipfile
    b = io.BytesIO()
    with zipfile.ZipFile(b, "w") as z:
        for n, d in members:
            zi = zipfile.ZipInfo(n, date_time=(2020, 1, 1, 0, 0, 0))
            zi.compress_type = zipfile.ZIP_STORED if n == "mimetype" else zipfile.ZIP_DEFLATED
            z.writestr(zi, d)
    return b.getvalue()


PACKAGES = {"docx": pkg_docx, "pptx": pkg_pptx, "xlsx": pkg_xlsx, "odt": pkg_odt, "odp": pkg_odp, "ods": pkg_ods, "epub": pkg_epub,
            "zip": pkg_zip}
FLAT = {
    "txt": _flat_text,
    "md": lambda ink, without=None: b"# heading " + ink.encode() + b"\n\n" + _flat_text(ink, without),
    "html": _flat_html,
    "rtf": _flat_rtf,
    "eml": _flat_eml,
    "mbox": lambda ink, without=None: b"From %s@example.org Thu Jan  1 00:00:00 2015\r\n" % ink.encode() + _flat_eml(ink, without) + b"\r\n",
    "mhtml": _flat_mhtml,
    "pdf": _flat_pdf,
    "tar": _flat_tar,
}
FLAT_OPTIONAL = {
    "txt": ["first line", "last line"], "md": ["first line"],
    "html": ["charset", "title", "description", "heading", "link", "table", "list"],
    "rtf": ["font table", "colour table", "info", "header", "footer", "footnote", "page break"],
    "eml": ["cc", "subject", "date", "message-id", "plain body", "html body", "attachment"],
    "mbox": ["subject", "attachment"], "mhtml": ["subject", "date", "title", "table"],
    "pdf": ["document information", "font"], "tar": ["a.txt", "b.html", "c.eml"],
}
FLAT_ENCODINGS = {"txt": ["utf-16", "latin-1", "utf-8-sig"], "md": ["utf-16"], "html": ["latin-1"]}     # full document re-encoded
_FIXTURE_FORMATS = ["doc", "xls", "ppt", "msg", "odg", "odf", "pdf"]      # real documents of the repository's test resources


def _fixture_pairs():
    """per format without a writer here: the two smallest distinct readable-size test resources of the repository"""
    if "fixtures" in _SCAN_CACHE:
        return _SCAN_CACHE["fixtures"]
    found = {}
    root = S.REPO + "/sharepoint2text/tests/resources"
    for d, _, files in sorted(os.walk(root)):
        if "password" in d:
            continue
        for f in sorted(files):
            ext = f.rsplit(".", 1)[-1].lower()
            p = os.path.join(d, f)
            if ext in _FIXTURE_FORMATS and 0 < os.path.getsize(p) <= 400_000:
                found.setdefault(ext, []).append((os.path.getsize(p), p))
    out = _SCAN_CACHE["fixtures"] = {"fixture-" + e: [p for _, p in sorted(v)[:2]] for e, v in sorted(found.items()) if len(v) >= 2}
    return out


def _unreferenced(members, name):
    """the other members without the elements that point to `name` (relationship, content-type override, manifest entry, OPF item)"""
    import re
    base = re.escape(name.rsplit("/", 1)[-1])
    pat = re.compile(r'<(?:Relationship|Override|manifest:file-entry|item)\b[^>]*\b(?:Target|PartName|manifest:full-path|href)="[^"]*%s"[^>]*/>' % base)
    return [(n, pat.sub("", d) if isinstance(d, str) else d) for n, d in members if n != name]


# the part of a package that holds the document's metadata: each of its text elements can be present, present but empty
# (<dc:title/>) or absent
METADATA_MEMBERS = {"docx": ["docProps/core.xml"], "pptx": ["docProps/core.xml"], "xlsx": ["docProps/core.xml"],
                    "odt": ["meta.xml"], "odp": ["meta.xml"], "ods": ["meta.xml"], "epub": ["OEBPS/content.opf"]}
_LEAF = r"<(%s)(\s[^<>]*?)?>[^<>]+</\1>"
# flat formats: (name, pattern of the stated value, the same statement with an empty value)
FLAT_EMPTIABLE = {
    "html": [("title", r"<title>[^<]*</title>", "<title></title>"), ("description", r'content="[^"]*"', 'content=""')],
    "mhtml": [("title", r"<title>[^<]*</title>", "<title></title>"), ("date header", r"(?m)^Date: [^\r\n]*", "Date:"),
              ("subject header", r"(?m)^Subject: [^\r\n]*", "Subject:")],
    "eml": [("date header", r"(?m)^Date: [^\r\n]*", "Date:"), ("subject header", r"(?m)^Subject: [^\r\n]*", "Subject:"),
            ("message-id header", r"(?m)^Message-ID: [^\r\n]*", "Message-ID:")],
    "mbox": [("date header", r"(?m)^Date: [^\r\n]*", "Date:")],
    "rtf": [("title", r"\{\\title [^{}]*\}", r"{\\title }"), ("author", r"\{\\author [^{}]*\}", r"{\\author }")],
}


def _metadata_elements(xml):
    """tags of the elements of a metadata part that hold nothing but text, in document order"""
    import re
    return list(dict.fromkeys(m.group(1) for m in re.finditer(_LEAF % r"[A-Za-z][\w:.-]*", xml)))


def _edit_metadata(xml, tag, keep_empty):
    import re
    return re.sub(_LEAF % re.escape(tag), (lambda m: "<%s%s/>" % (m.group(1), m.group(2) or "")) if keep_empty else "", xml)


def history_family(fmt):
    """[variant]: ('full',) | ('without', member or element) | ('without+unreferenced', member) | ('encoded as', codec) |
    ('with empty', metadata element[, member]) | ('without element', metadata element, member); repository resources:
    [('full',)]"""
    key = ("family", fmt)
    if key not in _SCAN_CACHE:
        fam = [("full",)] + [("without", n) for n in FLAT_OPTIONAL.get(fmt, [])] + [("encoded as", e) for e in FLAT_ENCODINGS.get(fmt, [])]
        if fmt in PACKAGES:
            mem = PACKAGES[fmt]("alpha")
            for n, _ in mem:
                fam.append(("without", n))
                if _unreferenced(mem, n) != [m for m in mem if m[0] != n]:
                    fam.append(("without+unreferenced", n))
            for member in METADATA_MEMBERS.get(fmt, []):
                for tag in _metadata_elements(dict(mem)[member]):
                    fam += [("with empty", tag, member), ("without element", tag, member)]
        fam += [("with empty", n) for n, _, _ in FLAT_EMPTIABLE.get(fmt, [])]
        _SCAN_CACHE[key] = fam
    return _SCAN_CACHE[key]


def history_document(fmt, ink_no, variant):
    """(path, bytes) of the document"""
    if fmt.startswith("fixture-"):
        p = _fixture_pairs()[fmt][ink_no % 2]
        with open(p, "rb") as f:
            return "/data/" + os.path.basename(p), f.read()
    ink = INKS[ink_no % len(INKS)]
    path = "/data/%s.%s" % (ink, fmt)
    if fmt in FLAT:
        data = FLAT[fmt](ink, variant[1] if variant[0] == "without" else None)
        if variant[0] == "with empty":
            import re
            _, pat, empty = [e for e in FLAT_EMPTIABLE[fmt] if e[0] == variant[1]][0]
            data = re.sub(pat.encode(), empty.encode(), data)
        return path, data.decode("utf-8").encode(variant[1]) if variant[0] == "encoded as" else data
    mem = PACKAGES[fmt](ink)
    if variant[0] == "without":
        mem = [m for m in mem if m[0] != variant[1]]
    elif variant[0] == "without+unreferenced":
        mem = _unreferenced(mem, variant[1])
    elif variant[0] in ("with empty", "without element"):
        mem = [(n, _edit_metadata(d, variant[1], variant[0] == "with empty") if n == variant[2] else d) for n, d in mem]
    return path, _h_zip(mem)


# ---- processes without extraction history ------------------------------------------------

_ZYGOTE_SRC = r"""
import sys, os, io, json, struct, base64, signal, re

# the clock every run reads is the instant its job states (installed before anything of the library is imported):
# datetime.datetime.now / utcnow / today, datetime.date.today, time.time / time_ns / localtime() / gmtime()
import datetime as _dtm, time as _tm
_REAL_DT, _REAL_DATE, _CLOCK = _dtm.datetime, _dtm.date, [None]
class _LikeReal(type):
    def __instancecheck__(cls, o):
        return isinstance(o, cls._real)
    def __subclasscheck__(cls, k):
        return issubclass(k, cls._real)
class _ClockDT(_REAL_DT, metaclass=_LikeReal):
    _real = _REAL_DT
    @classmethod
    def now(cls, tz=None):
        return _REAL_DT.now(tz) if _CLOCK[0] is None else _REAL_DT.fromtimestamp(_CLOCK[0], tz)
    @classmethod
    def utcnow(cls):
        return _REAL_DT.utcnow() if _CLOCK[0] is None else _REAL_DT.fromtimestamp(_CLOCK[0], _dtm.timezone.utc).replace(tzinfo=None)
    @classmethod
    def today(cls):
        return cls.now()
class _ClockDate(_REAL_DATE, metaclass=_LikeReal):
    _real = _REAL_DATE
    @classmethod
    def today(cls):
        return _REAL_DATE.today() if _CLOCK[0] is None else _REAL_DT.fromtimestamp(_CLOCK[0]).date()
_dtm.datetime, _dtm.date = _ClockDT, _ClockDate
_real_time, _real_ns, _real_local, _real_gm = _tm.time, _tm.time_ns, _tm.localtime, _tm.gmtime
_tm.time = lambda: _real_time() if _CLOCK[0] is None else _CLOCK[0]
_tm.time_ns = lambda: _real_ns() if _CLOCK[0] is None else int(_CLOCK[0] * 10 ** 9)
_tm.localtime = lambda secs=None: _real_local(_tm.time() if secs is None else secs)
_tm.gmtime = lambda secs=None: _real_gm(_tm.time() if secs is None else secs)

def _extract(path, data, keep):
    from sharepoint2text.parsing.router import get_extractor
    buf = io.BytesIO(data)
    objs = None
    try:
        objs = list(get_extractor(path)(buf, path))
        out = json.dumps([r.to_json() for r in objs], sort_keys=True, default=str)
    except Exception as e:
        out = json.dumps({"__raised__": type(e).__name__, "msg": re.sub(r"0x[0-9a-fA-F]+", "0x", str(e))[:200]})
    keep.append((objs, buf, data))
    return {"json": out, "buffer_intact": buf.getvalue() == data}

def _again(res, keep):
    # the results of the earlier steps are still alive: serialised once more after everything else was extracted
    for r, (objs, buf, data) in zip(res, keep):
        r["buffer_intact"] = r["buffer_intact"] and buf.getvalue() == data
        if objs is not None:
            try:
                r["json_at_the_end"] = json.dumps([o.to_json() for o in objs], sort_keys=True, default=str)
            except Exception as e:
                r["json_at_the_end"] = json.dumps({"__raised__": type(e).__name__})

def _job(job):
    called = set()
    wanted = {(f, n) for f, n in job.get("watch", [])}
    mon = getattr(sys, "monitoring", None)
    if wanted:
        files = sorted({f for f, _ in wanted})
        def note(code):
            fn = code.co_filename
            for f in files:
                if fn.endswith(f) and (f, code.co_name) in wanted:
                    called.add((f, code.co_name))
        if mon is not None:
            def started(code, offset):
                note(code)
                return mon.DISABLE
            mon.use_tool_id(mon.PROFILER_ID, "c06")
            mon.register_callback(mon.PROFILER_ID, mon.events.PY_START, started)
            mon.set_events(mon.PROFILER_ID, mon.events.PY_START)
        else:
            sys.setprofile(lambda frame, event, arg: note(frame.f_code) if event == "call" else None)
    try:
        keep = []
        _CLOCK[0] = job.get("clock")
        res = [_extract(p, base64.b64decode(d), keep) for p, d in job["docs"]]
        _again(res, keep)
        if job.get("append_clock"):       # twin: what the clock of this process reads counts as part of the result
            import datetime, time
            for r in res:
                r["json"] = json.dumps([json.loads(r["json"]), datetime.datetime.now().isoformat(), time.time()])
    finally:
        if wanted and mon is not None:
            mon.set_events(mon.PROFILER_ID, 0)
        elif wanted:
            sys.setprofile(None)
    return {"results": res, "called": sorted(called)}

inp, outp = sys.stdin.buffer, sys.stdout.buffer
from sharepoint2text.parsing.router import get_extractor     # imported, nothing extracted: every run is a fork of this state
while True:
    hdr = inp.read(4)
    if len(hdr) < 4:
        break
    job = json.loads(inp.read(struct.unpack(">I", hdr)[0]))
    for p in job.get("preload", []):         # reader modules imported here (import only), not once per fork
        try:
            get_extractor(p)
        except Exception:
            pass
    answers, kids = [], []

    def collect():
        for pid, r in kids:
            with os.fdopen(r, "rb") as f:
                payload = f.read()
            os.waitpid(pid, 0)
            answers.append(json.loads(payload or b'{"__child_error__": "no answer (killed or timed out)"}'))
        del kids[:]
    for run in job["runs"]:
        if len(kids) >= 16:
            collect()
        r, w = os.pipe()
        pid = os.fork()
        if pid == 0:
            try:
                os.close(r)
                os.dup2(2, 1)
                signal.alarm(int(job.get("timeout", 300)))
                payload = json.dumps(_job({"docs": run, "watch": job.get("watch", []), "clock": job["clocks"][len(answers) + len(kids)],
                                           "append_clock": job.get("append_clock")})).encode()
            except BaseException as e:
                payload = json.dumps({"__child_error__": "%s: %s" % (type(e).__name__, e)}).encode()
            try:
                with os.fdopen(w, "wb") as f:
                    f.write(payload)
            finally:
                os._exit(0)
        os.close(w)
        kids.append((pid, r))
    collect()
    payload = json.dumps(answers).encode()
    outp.write(struct.pack(">I", len(payload)) + payload)
    outp.flush()
"""
_ZYGOTE = {}


# the instant every sequence and every reference is extracted at, and the other instant at which each document is
# extracted once more on its own (POSIX seconds: 2031-05-06 07:08:09.123456 UTC, 1999-12-31 23:59:58.5 UTC)
CLOCK_A, CLOCK_B = 1935817689.123456, 946684798.5


def in_processes_without_history(runs, watch=(), clocks=None, append_clock=False):
    """runs = [[(path, bytes), ...], ...]: every run is extracted, one document after the other by the public reader,
    in a NEW process of its own whose library state is 'imported, nothing extracted' (a fork of a server that only
    ever imports the package and never extracts; the server is started once per worker, the runs of one call are
    forked side by side); the clock a run reads stands at its instant of `clocks` (default CLOCK_A).  -> per run
    {"results": [{"json": canonical to_json() of the reader's results | exception raised, "buffer_intact": bool}],
    "called": [(file, function) of `watch` that ran]}"""
    import json
    import struct
    import subprocess
    import sys
    z = _ZYGOTE.get("proc")
    if z is None or z.poll() is not None:
        env = dict(os.environ, PYTHONDONTWRITEBYTECODE="1")
        env.setdefault("PYTHONHASHSEED", "0")
        z = _ZYGOTE["proc"] = subprocess.Popen([sys.executable, "-c", _ZYGOTE_SRC], stdin=subprocess.PIPE, stdout=subprocess.PIPE,
                                               stderr=subprocess.DEVNULL, env=env)
    job = json.dumps({"runs": [[[p, base64.b64encode(d).decode()] for p, d in docs] for docs in runs],
                      "preload": sorted({p for docs in runs for p, _ in docs}), "watch": [list(w) for w in watch],
                      "clocks": list(clocks) if clocks is not None else [CLOCK_A] * len(runs), "append_clock": bool(append_clock)}).encode()
    z.stdin.write(struct.pack(">I", len(job)) + job)
    z.stdin.flush()
    hdr = z.stdout.read(4)
    if len(hdr) < 4:
        _ZYGOTE.pop("proc", None)
        raise RuntimeError("extraction server ended unexpectedly")
    out = json.loads(z.stdout.read(struct.unpack(">I", hdr)[0]))
    for o in out:
        if "__child_error__" in o:
            raise RuntimeError("extraction process failed: " + o["__child_error__"])
    return out


_REFERENCE = {}


def _ref_key(path, data):
    import hashlib
    return (path, hashlib.sha1(data).hexdigest())


def sequences_and_references(sequences, extra_reference_docs=(), watch=(), cached=True, append_clock=False):
    """the sequences, each in a process of its own, and - what the property calls THE result of (bytes, path) - every
    document of them alone in a process of its own, once at the instant of the sequences (CLOCK_A) and once at
    another instant (CLOCK_B).  cached: references are kept per worker (a reference never changes) and sequences
    extracted ahead for this part are taken from there; replays pass cached=False and run everything anew.
    -> (answers per sequence, reference(path, bytes, at="A"|"B") -> {"json", "buffer_intact"})"""
    refs = _REFERENCE if cached else {}
    need = {}
    for docs in list(sequences) + [list(extra_reference_docs)]:
        for path, data in docs:
            for at in "AB":
                k = _ref_key(path, data) + (at, append_clock)
                if k not in refs:
                    need[k] = (path, data)
    todo = [docs for docs in sequences if not (cached and not watch and _seq_key(docs) in _SEQUENCES)]
    out = in_processes_without_history(todo + [[d] for d in need.values()], watch=watch, append_clock=append_clock,
                                       clocks=[CLOCK_A] * len(todo) + [CLOCK_A if k[2] == "A" else CLOCK_B for k in need]) \
        if todo or need else []
    for k, o in zip(need, out[len(todo):]):
        refs[k] = o["results"][0]
    fresh = {_seq_key(docs): o for docs, o in zip(todo, out)}
    if cached and not watch:
        _SEQUENCES.update(fresh)
    return [fresh.get(_seq_key(docs)) or _SEQUENCES[_seq_key(docs)] for docs in sequences], \
        (lambda path, data, at="A": refs[_ref_key(path, data) + (at, append_clock)])


_SEQUENCES = {}


def _seq_key(docs):
    return tuple(_ref_key(p_, d) for p_, d in docs)


class _EveryPick:
    """stands in for ctx while the sequences of a part are listed: pick() follows a prefix, then takes 0"""

    def __init__(self, params, prefix):
        self.params, self.prefix, self.trace = params, prefix, []

    def pick(self, name, n):
        i = len(self.trace)
        v = self.prefix[i] if i < len(self.prefix) else 0
        self.trace.append((v, n))
        return v


def _extract_ahead(params):
    """symbolic runs only: all sequences the choices of this part can draw are extracted in batches (side by side in
    the server's forks) before the engine walks through the choices; each path then reads its own sequence's answer"""
    import json
    key = ("ahead", json.dumps({k: v for k, v in params.items() if k != "known_active"}, sort_keys=True, default=str))
    if key in _SEQUENCES:
        return
    _SEQUENCES[key] = True
    work, seqs = [[]], []
    while work:
        e = _EveryPick(params, work.pop())
        seqs.append(_history_steps(e)[1])
        for i in range(len(e.prefix), len(e.trace)):
            work += [[t[0] for t in e.trace[:i]] + [alt] for alt in range(1, e.trace[i][1])]
    for i in range(0, len(seqs), 16):
        sequences_and_references(seqs[i:i + 16])


def _json_difference(a, b):
    """(paths at which two canonical JSON texts differ, the two values at the first of them)"""
    import json
    import re
    try:
        ja, jb = json.loads(a), json.loads(b)
        where = same(ja, jb)[1]
        va, vb = ja, jb
        for key in [k for k in re.sub(r"(\[len\]|\{keys\}|\{size\}| \(symbolic\))$", "", where[0]).split("/") if k] if where else []:
            va, vb = (va[int(key)], vb[int(key)]) if isinstance(va, list) else (va[key], vb[key])
        return where, json.dumps(va, sort_keys=True)[:300], json.dumps(vb, sort_keys=True)[:300]
    except Exception:
        return ["(whole result)"], a[:300], b[:300]


def _history_steps(ctx):
    """the sequence drawn for this path: ([(format, ink number, variant)], [(path, bytes)])"""
    if "formats" in ctx.params:
        group = _format_group(ctx.params["formats"])
        fmt = group[ctx.pick("format", len(group))]
    else:
        fmt = ctx.params.get("format", "docx")
    mode = ctx.params.get("pairs", "star")
    fam = history_family(fmt)
    alias = 0
    if mode == "cross":
        others = [g for g in (sorted(PACKAGES) if ctx.params.get("among") == "packages" else history_formats()) if g != fmt]
        f0 = ctx.params["first_format"] if "first_format" in ctx.params else others[ctx.pick("step0_format", len(others))]
        steps = [(f0, 0, ("full",)), (fmt, 1, ("full",))]
    elif mode == "all":
        lo, hi = ctx.params.get("first_in", [0, len(fam)])
        v0 = lo + ctx.pick("step0_variant_offset", min(hi, len(fam)) - lo)
        steps = [(fmt, 0, fam[v0]), (fmt, 1, fam[ctx.pick("step1_variant", len(fam))])]
    else:
        v = ctx.pick("variant", len(fam))
        if v == 0:
            alias = ctx.pick("path_aliasing", 4)
            steps = [(fmt, 0, fam[0]), (fmt, 1, fam[0])]
        elif (ctx.params["varied_step"] if "varied_step" in ctx.params else ctx.pick("varied_step", 2)) == 0:
            steps = [(fmt, 0, fam[v]), (fmt, 1, fam[0])]
        else:
            steps = [(fmt, 0, fam[0]), (fmt, 1, fam[v])]
    docs = [history_document(f, ink, var) for f, ink, var in steps]
    if alias & 1:                                   # other bytes under the path of the first document
        docs[1] = (docs[0][0], docs[1][1])
    if ctx.params.get("L", 3) >= 3:                 # the first document once more ...
        steps.append(steps[0])
        docs.append(docs[0] if not alias & 2 else            # ... or its bytes under another path
                    ("/elsewhere/copy-of-" + docs[0][0].rsplit("/", 1)[-1], docs[0][1]))
    return steps, docs


def k5_histories(ctx):
    if ctx.params.get("state_sites"):
        return _k5_state_sites(ctx)
    if not ctx.concrete and not ctx.perturb:
        _extract_ahead(ctx.params)
    steps, docs = _history_steps(ctx)
    described = ["%s %s [%s] as %s" % (f, " ".join(var), INKS[ink % len(INKS)] if not f.startswith("fixture-") else "resource", p)
                 for (f, ink, var), (p, _) in zip(steps, docs)]
    ref_docs = []
    for i in range(len(docs)):
        ref_doc = docs[0] if ctx.perturb == "reference_from_first_document" else docs[i]
        if ctx.perturb == "dropped_member_still_expected" and steps[i][2][0] != "full":
            ref_doc = history_document(steps[i][0], steps[i][1], ("full",))
        ref_docs.append(ref_doc)
    twin_clock = ctx.perturb == "clock_reading_counts_as_result"
    answers, reference = sequences_and_references([docs], ref_docs, cached=not ctx.concrete, append_clock=twin_clock)
    got = answers[0]["results"]
    for i in range(len(docs)):
        ref = reference(*ref_docs[i])
        info = dict(step=i + 1, sequence=described[:i + 1])
        other = reference(*ref_docs[i], at="B")
        if ref["json"] != other["json"]:
            where, seen, expected = _json_difference(ref["json"], other["json"])
            ctx.fail("result-depends-on-the-time-of-extraction", differs_at=where, document=described[i],
                     extracted_at_2031_05_06T07_08_09=seen, extracted_at_1999_12_31T23_59_58=expected)
        if twin_clock:
            continue
        ctx.require(got[i]["buffer_intact"] and ref["buffer_intact"], "callers-buffer-content-changed", **info)
        if got[i].get("json_at_the_end", got[i]["json"]) != got[i]["json"] and ctx.perturb is None:
            where, seen, expected = _json_difference(got[i]["json_at_the_end"], got[i]["json"])
            ctx.fail("result-changed-by-a-later-extraction", differs_at=where, serialised_after_the_later_extractions=seen,
                     serialised_right_after_its_extraction=expected, later=described[i + 1:], **info)
        if got[i]["json"] != ref["json"]:
            foreign = sorted({k for j, (f, ink, _) in enumerate(steps[:i]) if not f.startswith("fixture-") and ink != steps[i][1]
                              for k in [INKS[ink % len(INKS)]] if k in got[i]["json"] and k not in ref["json"]})
            where, seen, expected = _json_difference(got[i]["json"], ref["json"])
            ctx.fail("result-depends-on-extraction-history", differs_at=where, after_this_history=seen, in_a_process_of_its_own=expected,
                     text_of_earlier_document=foreign, **info)
    ctx.require(True, "sequence-compared")


def history_formats():
    return sorted(PACKAGES) + sorted(FLAT) + sorted(_fixture_pairs())


# ---- where state can outlive one extraction (located by AST scan) -------------------------

_MUTABLE_CALLS = {"dict", "list", "set", "defaultdict", "OrderedDict", "Counter", "deque", "bytearray", "WeakValueDictionary"}
_MUTATORS = {"append", "extend", "insert", "add", "update", "setdefault", "pop", "popitem", "clear", "remove", "discard",
             "appendleft", "extendleft", "sort", "reverse", "move_to_end", "__setitem__", "__delitem__"}


def scan_state_sites():
    """{key: site}: places of the package where a value lives as long as the process and is written while the library
    runs - (a) class-body attributes holding a mutable container that some method writes through (shared by all
    instances), (b) module-level names holding a mutable container that a function writes to, or that a function
    rebinds through ``global``, (c) memoised functions (lru_cache / cache), (d) mutable default arguments that the
    function writes to.  site = {file, line, kind, name, writers: [(file, function name)]}.  Containers that nothing
    writes to are constant tables, not sites."""
    import ast
    if "state" in _SCAN_CACHE:
        return _SCAN_CACHE["state"]

    def mutable(e):
        return isinstance(e, (ast.Dict, ast.List, ast.Set, ast.ListComp, ast.DictComp, ast.SetComp)) or (
            isinstance(e, ast.Call) and ((isinstance(e.func, ast.Name) and e.func.id in _MUTABLE_CALLS) or
                                         (isinstance(e.func, ast.Attribute) and e.func.attr in _MUTABLE_CALLS)))

    def written(fn):
        """what a function writes INTO: [('name', id) | ('attr', attribute name)] of the container expression"""
        out = []

        def tgt(e):
            if isinstance(e, ast.Name):
                out.append(("name", e.id))
            elif isinstance(e, ast.Attribute):
                out.append(("attr", e.attr))
        for n in ast.walk(fn):
            if isinstance(n, ast.Call) and isinstance(n.func, ast.Attribute) and n.func.attr in _MUTATORS:
                tgt(n.func.value)
            elif isinstance(n, (ast.Assign, ast.AugAssign, ast.AnnAssign, ast.Delete)):
                ts = n.targets if isinstance(n, (ast.Assign, ast.Delete)) else [n.target]
                for t in ts:
                    if isinstance(t, ast.Subscript):
                        tgt(t.value)
                    elif isinstance(n, ast.AugAssign):
                        tgt(t)
        return out

    def used_names():
        """names loaded anywhere in the package (a memoised function nothing refers to is dead code, not state)"""
        if "used" not in _SCAN_CACHE:
            used = _SCAN_CACHE["used"] = set()
            for path_ in _package_files():
                with open(path_, encoding="utf-8") as f_:
                    for n in ast.walk(ast.parse(f_.read())):
                        if isinstance(n, ast.Name) and isinstance(n.ctx, ast.Load):
                            used.add(n.id)
                        elif isinstance(n, ast.Attribute):
                            used.add(n.attr)
                        elif isinstance(n, ast.alias):
                            used.add(n.name.split(".")[-1])
        return _SCAN_CACHE["used"]

    sites = {}
    for path in _package_files():
        rel = path[len(S.REPO) + 1:]
        with open(path, encoding="utf-8") as f:
            tree = ast.parse(f.read())
        funcs = [n for n in ast.walk(tree) if isinstance(n, (ast.FunctionDef, ast.AsyncFunctionDef))]
        writes = {fn: written(fn) for fn in funcs}

        def local_names(fn):
            out = {a.arg for a in fn.args.args + fn.args.kwonlyargs + fn.args.posonlyargs}
            globs = {g for n in ast.walk(fn) if isinstance(n, ast.Global) for g in n.names}
            for n in ast.walk(fn):
                if isinstance(n, (ast.Assign, ast.AnnAssign, ast.AugAssign, ast.For, ast.NamedExpr)):
                    ts = n.targets if isinstance(n, ast.Assign) else [n.target]
                    for t in ts:
                        for x in ast.walk(t):
                            if isinstance(x, ast.Name) and isinstance(x.ctx, ast.Store):
                                out.add(x.id)
            return out - globs, globs

        def add(node, kind, name, writers):
            sites["%s::%s" % (rel, name)] = {"file": rel, "line": node.lineno, "kind": kind, "name": name,
                                            "writers": sorted({(rel, w.name) for w in writers})}
        # (a) class-body containers
        for cls in [n for n in ast.walk(tree) if isinstance(n, ast.ClassDef)]:
            for st in cls.body:
                name = val = None
                if isinstance(st, ast.Assign) and len(st.targets) == 1 and isinstance(st.targets[0], ast.Name):
                    name, val = st.targets[0].id, st.value
                elif isinstance(st, ast.AnnAssign) and isinstance(st.target, ast.Name) and st.value is not None:
                    name, val = st.target.id, st.value
                if name and mutable(val):
                    ws = [fn for fn in funcs if ("attr", name) in writes[fn]]
                    if ws:
                        add(st, "class attribute shared by all instances", "%s.%s" % (cls.name, name), ws)
        # (b) module-level names
        for st in tree.body:
            names, val = [], None
            if isinstance(st, ast.Assign):
                names, val = [t.id for t in st.targets if isinstance(t, ast.Name)], st.value
            elif isinstance(st, ast.AnnAssign) and isinstance(st.target, ast.Name):
                names, val = [st.target.id], st.value
            for name in names:
                ws = []
                for fn in funcs:
                    loc, globs = local_names(fn)
                    if name in globs and any(isinstance(n, (ast.Assign, ast.AugAssign, ast.AnnAssign)) and any(
                            isinstance(x, ast.Name) and x.id == name and isinstance(x.ctx, ast.Store)
                            for t in (n.targets if isinstance(n, ast.Assign) else [n.target]) for x in ast.walk(t))
                            for n in ast.walk(fn)):
                        ws.append(fn)
                    elif val is not None and mutable(val) and name not in loc and ("name", name) in writes[fn]:
                        ws.append(fn)
                if ws:
                    add(st, "module-level state", name, ws)
        # (c) memoised functions, (d) written mutable defaults
        for fn in funcs:
            if any("cache" in ast.unparse(d_) and "cached_property" not in ast.unparse(d_) for d_ in fn.decorator_list) \
                    and fn.name in used_names():
                add(fn, "memoised function", fn.name + "()", [fn])
            args = fn.args.args + fn.args.kwonlyargs
            defaults = [None] * (len(fn.args.args) - len(fn.args.defaults)) + list(fn.args.defaults) + list(fn.args.kw_defaults)
            for a_, d_ in zip(args, defaults):
                if d_ is not None and mutable(d_) and ("name", a_.arg) in writes[fn]:
                    add(fn, "mutable default argument", "%s(%s=)" % (fn.name, a_.arg), [fn])
    _SCAN_CACHE["state"] = sites
    return sites


# state the document sequences of this kernel cannot reach, with the reason it is left outside
_X = "sharepoint2text/parsing/extractors/"
STATE_OUTSIDE = {
    _X + "archive_extractor.py::_config":
        "configuration record, rebound only by the public configure_archive_extraction(); no extraction writes it",
    _X + "pdf/_pypdf_aes_fallback.py::_ROUND_KEY_CACHE":
        "AES round keys memoised under the full key bytes, written only while an AES-encrypted PDF is decrypted: the harness has no "
        "writer for such PDFs and the repository's encrypted resources need a password the reader does not take",
    _X + "serialization.py::_TYPE_REGISTRY":
        "class-name table of the deserialiser, filled once from the data_types module; deserialisation is not an observer of this property",
}


def _k5_state_sites(ctx):
    """every located state site is written by a function that runs in some document sequence of this kernel (so the
    sequences are what decides whether it carries history), or is declared outside"""
    sites = scan_state_sites()
    if ctx.perturb:
        raise S.BoundExceeded("not a twin part")
    watch = sorted({tuple(w) for s in sites.values() for w in s["writers"]})
    fmts = history_formats()
    seqs = []
    for fmt in fmts:
        docs = [history_document(fmt, 0, ("full",)), history_document(fmt, 1, ("full",))]
        seqs.append(docs + [docs[0]])
    answers, reference = sequences_and_references(seqs, watch=watch)
    called = {tuple(c_) for a in answers for c_ in a["called"]}
    for fmt, docs, a in zip(fmts, seqs, answers):
        for i, (path, data) in enumerate(docs):
            ctx.require(a["results"][i]["json"] == reference(path, data)["json"], "result-depends-on-extraction-history",
                        step=i + 1, sequence=["%s: full documents A, B, A" % fmt], traced=True)
    idle = sorted(k for k, s in sites.items() if k not in STATE_OUTSIDE and not any(tuple(w) in called for w in s["writers"]))
    if idle:
        raise S.BoundExceeded("state that outlives an extraction is written by code no document sequence of K5 runs "
                              "(no generator reaches it; extend a family or declare it outside): " + "; ".join(idle))
    ctx.require(True, "state-sites-exercised", sites=len(sites))


def _format_group(name):
    return {"flat": sorted(FLAT), "flat-mail-and-html": [f for f in sorted(FLAT) if f in ("eml", "mbox", "mhtml", "html")],
            "flat-other": [f for f in sorted(FLAT) if f not in ("eml", "mbox", "mhtml", "html")], "resources": sorted(_fixture_pairs()), "packages": sorted(PACKAGES), "every": history_formats()}[name]


def _k5_parts(tier):
    """quick: per package format the 'star' of its family (the full document before / after every other member of the
    family, the first document extracted once more at the end; for the pair of full documents also the path aliasings),
    flat formats and repository resources as (A, B, A) with the path aliasings, every ordered pair of package formats.
    thorough: every ordered pair of family members per format (parts by first member), every ordered pair of all
    formats."""
    parts = [{"format": f, "pairs": "star"} for f in sorted(PACKAGES)]
    parts += [{"formats": "flat-mail-and-html", "pairs": "star"}, {"formats": "flat-other", "pairs": "star"},
              {"formats": "resources", "pairs": "star"}]
    if tier == "quick":
        parts.append({"formats": "packages", "pairs": "cross", "among": "packages"})
    else:
        for f in sorted(PACKAGES):
            parts += [{"format": f, "pairs": "all", "first_in": [i, i + 6]} for i in range(0, len(history_family(f)), 6)]
        parts += [{"format": f, "pairs": "cross"} for f in history_formats()]
    parts.append({"state_sites": True})
    return parts


def _k5_targets():
    from sharepoint2text.parsing.router import get_extractor
    return [get_extractor("x." + f) for f in sorted(set(PACKAGES) | set(FLAT))]


KERNELS = [
    Kernel("K1", "observers are idempotent and leave to_json() unchanged: every content type, every sequence of <= 3 observers",
           k1_observers, targets=_k1_targets, parts=_k1_parts,
           perturb=[("observer_writes_metadata", {"type": "pdf", "L": 2, "size": 0, "alphabet": "merged"}),
                    ("observer_counts_calls", {"type": "xlsx", "L": 2, "size": 0, "alphabet": "merged"})],
           bounds={"quick": {"sequences": "all of length 3 on size-0 instances, all of length 2 on size-1 instances"},
                   "thorough": {"sequences": "length 3 on size 1, length 2 on size 2; finer alphabet: length 3 on size 0, length 2 on size 1"}},
           symbolic=["image width/height/number/unit attribution (ints, None by choice), ODT outline levels, ODT table-paragraph style "
                     "name (6 symbolic characters), DOCX page-break flags and image/table anchor paragraph indices, RTF image/table "
                     "page numbers, PPT/ODP slide numbers, PPTX formula display flags, EPUB chapter numbers, e-mail / plain / HTML "
                     "body characters (space or '!', length <= 2)"],
           choices=["observer at each of the <= 3 steps (8 observers: get_full_text, list(iterate_units), iterate_images, iterate_tables, "
                    "get_metadata, to_json, unit accessors, image accessors; thorough: 12, incl. abandoned iterators; pptx "
                    "include_image_captions=True; e-mail iterate_supported_attachments)",
                    "element counts (units <= 2, images/tables per unit <= 1..2), text / caption / style vocabulary"],
           stubs=["data_types._join_unit_text -> its own source with '<sep>'.join rewritten to a join that accepts symbolic strings "
                  "(symbolic runs only; replay uses the original)"],
           assumptions=["instances are built directly as dataclass objects (fields of the declared types), not through the parsers",
                        "two observations are equal when their dataclass fields / JSON values / image bytes are equal; the read "
                        "position of a BytesIO is not part of a value",
                        "known finding (when active): differences confined to OpenDocumentImage.unit_name of an OdtContent are "
                        "excluded, everything else about ODT is still compared"],
           outside=["instances with more than 2 units or 2 images/tables per unit; sequences longer than 3; observers called "
                    "concurrently; mutation of returned lists by the caller"],
           timeout={"quick": 100, "thorough": 1100}, max_depth=600),
    Kernel("K2", "iteration order of sets does not reach results: AST-located set-to-sequence sites under a symbolic permutation",
           k2_set_order, targets=_k2_targets, parts=_k2_parts,
           perturb=[("insertion_order_counts", {"site": SITE_PPTX, "n": 2}),
                    ("constructor_sees_keyword_order", {"site": SITE_DESER})],
           bounds={"quick": {"set elements": "<= 3"}, "thorough": {"set elements": "<= 4"}},
           symbolic=["every character of every ZIP member name in a context's name set (lengths: prefix+1+suffix of the loop's own "
                     "string tests, and 4; characters '-'..'z'), so the loop body's startswith/endswith/lower/== are decided by z3",
                     "every character of every style name (2 lower-case letters; equal names collapse by solver-decided equality)",
                     "two permutations of the set's elements (position of each element, all-different)",
                     "field values of the deserialised dataclass"],
           choices=["number of names, absent / empty names, split of the names between content.xml and styles.xml, dataclass"],
           stubs=["_PptxContext -> object with _namelist = PermSet of the symbolic names, dict caches with solver-decided key equality, "
                  "read_xml_root -> token naming the member read, _compute_slide_order -> two slide paths; the real "
                  "_load_xml_files and get_comment_root run on it",
                  "set(...) / set display / set comprehension at the site -> PermSet (iteration order = symbolic permutation); the site "
                  "expression (docx) or enclosing function (odt, serialization) is compiled from the live source with that rewrite",
                  "ODT context -> object exposing content_root / styles_root with iter(tag) and get(attr)"],
           assumptions=["hash-seed dependence enters only through iteration over set/frozenset (dicts iterate in insertion order)",
                        "set-typed attributes are typed across modules through the class hierarchy (self._namelist / .namelist of "
                        "ZipContext and every subclass); on other objects by annotated class, else by attribute name",
                        "name-set loop: results are compared through the class's own accessors (get_comment_root for slides 1..2, cached "
                        "roots as mappings); a dict filled in set order and only read by key is not an order leak",
                        "replay: generated DOCX/ODT read by the public reader in fresh interpreters with PYTHONHASHSEED = 0..23 "
                        "(stops at the first difference); full to_json() compared"],
           outside=["sets built inside third-party libraries; sites the scan's set-type inference cannot see (sets passed through "
                    "untyped parameters or containers); a site found by the scan without an evaluation model is reported inconclusive"],
           timeout={"quick": 100, "thorough": 1100}, max_depth=600),
    Kernel("K3", "stream handling: position restored where promised, third-party parsers started at offset 0, caller's stream "
                 "never written or closed",
           k3_streams, targets=_k3_targets,
           parts=lambda tier: [{"fn": f, "biff_len": 6 if tier == "quick" else 10} for f in K3_FUNCTIONS],
           perturb=[("expect_rewound", {"fn": "_bytesio_to_base64"}), ("parser_may_start_anywhere", {"fn": "is_ppt_encrypted"})],
           symbolic=["initial stream position in [0, 2^32]", "position every third-party call leaves the stream at",
                     "answers of OleFileIO.exists(name)", "bytes of the Workbook stream (BIFF record walk of is_xls_encrypted)"],
           choices=["zipfile outcome: opens / BadZipFile / OSError; infolist: plain / bomb / raises; manifest absent / plain / "
                    "encrypted; isOleFile / is_zipfile answers; include_binary; serialised once or twice"],
           stubs=["caller's stream -> BytesIO subclass whose position is a symbolic int and which records write/writelines/truncate/"
                  "getbuffer/close (replay: real BytesIO subclass that records the same calls)",
                  "zipfile.ZipFile, zipfile.is_zipfile, olefile.isOleFile, olefile.OleFileIO -> stand-ins that move the stream "
                  "to an arbitrary position; isOleFile records the position it was called at"],
           assumptions=["position promises checked: validate_zip_bytesio (docstring 'Restores the original stream position', also "
                        "when it raises) and _bytesio_to_base64 (to_json must not move image streams); for open_zipfile, ZipContext "
                        "and is_*_encrypted no final position is demanded",
                        "olefile.isOleFile reads the magic at the current position (olefile source), so it must be called at 0"],
           outside=["what zipfile/olefile themselves do to the stream (replaced by stand-ins)"],
           timeout={"quick": 100, "thorough": 1100}, max_depth=600),
    Kernel("K4", "public readers on generated files: caller's buffer untouched, result independent of the stream position and of "
                 "an earlier extraction from the same stream",
           k4_readers, targets=_k4_targets, parts=lambda tier: [{"format": f} for f in sorted(_samples())],
           strength="structure", core=False,
           perturb=[("caller_stream_written_afterwards", {"format": "html"}), ("reference_from_other_bytes", {"format": "docx"})],
           choices=["initial position of the caller's stream (0, 1, middle, end, past the end)", "second extraction from the same stream"],
           assumptions=["one small generated file per format (txt, html, docx, odt, rtf, eml, mbox, zip, tar, xlsx with / without core "
                        "properties; pdf via pypdf and pptx/epub/odp via the C14 writers when importable)"],
           outside=["legacy OLE formats (doc, xls, ppt, msg) and 7z: no writer in the harness; results across fresh processes "
                    "(K2 covers the hash seed, K5 the extraction history)"]),
    Kernel("K5", "extraction histories: the result for (bytes, path) after any sequence of earlier extractions in the same process "
                 "equals the result in a process of its own",
           k5_histories, targets=_k5_targets, parts=_k5_parts, strength="structure",
           perturb=[("reference_from_first_document", {"format": "html", "pairs": "star"}),
                    ("dropped_member_still_expected", {"format": "docx", "pairs": "star"}),
                    ("clock_reading_counts_as_result", {"format": "xlsx", "pairs": "star"})],
           bounds={"quick": {"sequences": "length 3 (A, B, A again); per package format the star of its family around the full "
                                          "document; ordered pairs of package formats"},
                   "thorough": {"sequences": "length 3; every ordered pair of family members per package format; every ordered pair "
                                             "of formats"}},
           choices=["which member of the package is missing in the varied document (every member of the generated DOCX / PPTX / XLSX / "
                    "ODT / ODP / ODS / EPUB / ZIP package: parts, relationship parts, media, manifest, core properties, styles, header, "
                    "footer, notes, comments ...), and whether the elements that refer to it (Relationship, content-type Override, "
                    "manifest entry, OPF item) are removed too or left dangling; flat formats (txt, md, html, rtf, eml, mbox, mhtml, "
                    "pdf, tar): which optional element is left out (title, table, header, footnote, attachment, body part, document "
                    "information, archive member ...) or which other encoding the text is in",
                    "whether the varied document comes before or after the full one (thorough: both documents range over the family)",
                    "which text element of the package's metadata part (docProps/core.xml, meta.xml, the OPF metadata: title, creator, "
                    "created, modified, identifier, language ...) is present but empty or absent; flat formats: which header / "
                    "title / info value is stated empty",
                    "path aliasing for the pair of full documents: other bytes under the first document's path; the first "
                    "document's bytes under another path at the third step",
                    "format of the earlier document (ordered pairs of formats)"],
           stubs=["clock of the extracting processes (datetime.datetime.now/utcnow/today, datetime.date.today, time.time/time_ns/"
                  "localtime()/gmtime()) -> the instant stated for the run, installed in the server before the library is imported: "
                  "sequences and references read 2031-05-06T07:08:09.123456Z, every document is extracted once more on its own at "
                  "1999-12-31T23:59:58.5Z and must serialise identically (label result-depends-on-the-time-of-extraction)",
                  "process without extraction history -> fork of a server process that has imported sharepoint2text.parsing.router "
                  "and never extracts anything itself (one server per worker; the sequence and every reference run in forks of it)"],
           assumptions=["two documents of one format carry the same part names, relationship ids, style ids, note ids and paths inside "
                        "the package and differ in every text, name, author and picture (their 'ink'), so anything kept from an "
                        "earlier document under such a key is visible in a later result",
                        "reference for every step: canonical JSON (sort_keys) of to_json() of the public reader's results - or the "
                        "exception type and message - for the same (bytes, path) in a process of its own",
                        "the results of all steps stay alive until the end of the sequence and are serialised once more then: "
                        "to_json() of an earlier result must not change because other documents were extracted afterwards",
                        "symbolic runs extract all sequences a part's choices can draw ahead of the walk through the choices, in "
                        "batches of forks side by side; replays (counterexamples, sampled passing paths) run their sequence and its "
                        "references anew",
                        "formats without a writer here (doc, xls, ppt, odg, odf, real-world pdf) are driven with the two smallest "
                        "test resources of the repository as documents A and B",
                        "state-site part: an AST scan locates values that outlive one extraction and are written while the library "
                        "runs (class-body containers written through instances, module-level containers / globals written by "
                        "functions, memoised functions, written mutable defaults); each must be written by a function that runs in "
                        "some sequence of this kernel (observed with sys.monitoring in the extracting process) or be declared in "
                        "STATE_OUTSIDE, else the kernel is inconclusive"],
           outside=["histories longer than 2 earlier documents; documents that differ from the generated packages in more than one "
                    "missing member; state kept outside the python process (files, environment)"]
                   + ["state site %s: %s" % kv for kv in sorted(STATE_OUTSIDE.items())],
           timeout={"quick": 300, "thorough": 1500}, max_depth=600),
]

META = {
    "level_text": "Every content type of data_types is instantiated as a small object (<= 2 units, <= 2 images/tables per unit) whose "
                  "numbers, flags and short strings are symbolic where the observers branch on them, and every sequence of up to 3 "
                  "observers (8, thorough 12) is executed on it; on each path z3 decides that to_json() after each step equals "
                  "to_json() before and that each observer returns what it returns on a fresh identical instance. The places where a "
                  "set is turned into a sequence are located by an AST scan of the package and re-executed from the live source with the "
                  "set's iteration order as a symbolic permutation (query: two permutations give different results), with replay through "
                  "the public readers under different PYTHONHASHSEED values. The stream helpers (_bytesio_to_base64, "
                  "validate_zip_bytesio, open_zipfile, ZipContext, is_*_encrypted) run on a stand-in stream with symbolic position: "
                  "position restored where documented, OLE sniffing started at offset 0, never written or closed. Histories: "
                  "documents are generated per format as packages with identical part names / relationship ids / style ids and "
                  "different content, each member missing in turn (references dangling or removed); every chosen sequence (A, B, A) "
                  "is extracted by the public reader in one process without earlier history and each step must equal the result of "
                  "the same (bytes, path) in a process of its own; values that outlive an extraction are located by an AST scan and "
                  "must be exercised by some sequence.",
    "level_note": "Trusted: instance generators cover the declared field types only (results of the parsers are a subset); the scan's "
                  "set-type inference (syntactic, per scope); stand-ins for zipfile/olefile. Outside: bit-identical results across fresh "
                  "processes beyond the hash-seed mechanism and the generated histories (<= 2 earlier documents, one missing member per "
                  "document), longer observer sequences, larger instances, legacy OLE formats in K4.",
    "technique": "symbolic execution of the real observer methods on dataclass instances with z3-backed fields (symrun), relational "
                 "idempotence/frame query per path; AST scan + source rewriting of set constructions into a symbolic-permutation set, "
                 "SMT query for order dependence; symbolic-position stream stand-in; bounded-exhaustive structure exploration "
                 "through the public readers; bounded-exhaustive exploration of extraction sequences over generated package "
                 "families in history-free processes against per-document reference processes",
}
