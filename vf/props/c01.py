"""C01 - stable failure surface, termination, CLI contract."""
import importlib
import io
import os
import signal
import sys
import types

from vf.core import Kernel
from vf import symrun as S

RES = "/repo/sharepoint2text/tests/resources"
FIXTURE = {
    "read_docx": "modern_ms/headings.docx", "read_pptx": "modern_ms/pptx_table.pptx", "read_xlsx": "modern_ms/mwe.xlsx",
    "read_doc": "legacy_ms/headings.doc", "read_ppt": "legacy_ms/slide_with_notes.ppt", "read_xls": "legacy_ms/mwe.xls",
    "read_rtf": "legacy_ms/2025.144.un.rtf", "read_odt": "open_office/headings.odt",
    "read_odp": "open_office/slide_with_notes.odp", "read_ods": "open_office/sample_spreadsheet.ods",
    "read_odg": "open_office/drawing.odg", "read_odf": "open_office/formular.odf", "read_pdf": "pdf/sample.pdf",
    "read_html": "html/sample.html", "read_mhtml": "html/sample.mhtml", "read_epub": "epub/sample.epub",
    "read_plain_text": "plain_text/plain.txt", "read_eml_format_mail": "mails/msg_with_attachment.eml",
    "read_mbox_format_mail": "mails/basic_email.mbox", "read_msg_format_mail": "mails/msg_with_attachment.msg",
    "read_archive": "archives/test_archive.zip",
}


def _extractors():
    """every registered extractor (module function objects), from the live router registry"""
    from sharepoint2text.parsing import router
    out = {}
    for ft, (modname, fn) in router._EXTRACTOR_REGISTRY.items():
        out.setdefault(fn, getattr(importlib.import_module(modname), fn))
    return out


def _exc_classes():
    import struct
    import zipfile
    import zlib
    from sharepoint2text.parsing import exceptions as E
    fam = [E.ExtractionFailedError, E.ExtractionFileEncryptedError, E.ExtractionZipBombError,
           E.LegacyMicrosoftParsingError, E.ExtractionFileFormatNotSupportedError]
    other = [type("FreshError", (Exception,), {}), KeyError, ValueError, struct.error, zlib.error, RecursionError,
             MemoryError, OSError, zipfile.BadZipFile, AttributeError, IndexError, UnicodeDecodeError]
    return fam, other


def _make_exc(cls):
    if cls is UnicodeDecodeError:
        return cls("utf-8", b"\xff", 0, 1, "injected")
    try:
        return cls("injected fault")
    except TypeError:
        from sharepoint2text.parsing import exceptions as E
        if cls is E.ExtractionFileTooLargeError:
            return cls("injected", max_size=1, actual_size=2)
        return cls()


def _collaborators(fn):
    """callable module-level names the function body mentions (first-level collaborators)"""
    g = fn.__globals__
    names = set()

    def walk(code):
        names.update(code.co_names)
        for c in code.co_consts:
            if isinstance(c, types.CodeType):
                walk(c)
    walk(fn.__code__)
    out = {}
    for n in sorted(names):
        v = g.get(n)
        if v is None or not callable(v):
            continue
        if isinstance(v, type) and issubclass(v, BaseException):
            continue
        if n in ("logger", "Any", "Optional", "List", "Dict", "Generator", "Tuple", "isinstance", "len"):
            continue
        if isinstance(v, types.ModuleType):
            continue
        mod = getattr(v, "__module__", "") or ""
        if mod.startswith("typing") or mod == "builtins":
            continue
        out[n] = v
    return out


class Injector:
    def __init__(self, fault_at, exc):
        self.calls = 0
        self.fault_at = fault_at
        self.exc = exc
        self.fired = False

    def wrap(self, name, real):
        inj = self

        def wrapper(*a, **k):
            inj.calls += 1
            if inj.calls == inj.fault_at:
                inj.fired = True
                raise inj.exc
            return real(*a, **k)
        wrapper.__name__ = getattr(real, "__name__", name)
        wrapper.__wrapped_collaborator__ = real
        return wrapper


def _count_calls(fn, data, path):
    inj = Injector(-1, None)
    g = fn.__globals__
    col = _collaborators(fn)
    saved = {n: g[n] for n in col}
    try:
        for n, v in col.items():
            g[n] = inj.wrap(n, v)
        try:
            list(fn(io.BytesIO(data), path))
        except Exception:
            pass
    finally:
        g.update(saved)
    return inj.calls


_CALLS = {}


def k1_wrapper_surface(ctx):
    from sharepoint2text.parsing import exceptions as E
    exs = _extractors()
    name = ctx.params["extractor"]
    fn = exs[name]
    data = open(os.path.join(RES, FIXTURE[name]), "rb").read()
    path = "dir/" + os.path.basename(FIXTURE[name])
    key = (name,)
    if key not in _CALLS:
        _CALLS[key] = _count_calls(fn, data, path)
    n_calls = _CALLS[key]
    fam, other = _exc_classes()
    classes = fam + other
    ci = ctx.choice("exception_class", len(classes))
    # fault position: the k-th collaborator call (0 = no fault, n_calls+1 = beyond the last)
    k = ctx.choice("fault_at_call", min(n_calls, ctx.params.get("max_calls", 40)) + 2)
    exc = _make_exc(classes[ci])
    inj = Injector(k if k > 0 else -1, exc)
    g = fn.__globals__
    col = _collaborators(fn)
    saved = {n: g[n] for n in col}
    raised = None
    try:
        for n, v in col.items():
            g[n] = inj.wrap(n, v)
        try:
            out = list(fn(io.BytesIO(data), path))
        except Exception as e:
            raised = e
    finally:
        g.update(saved)
    info = dict(extractor=name, exc=classes[ci].__name__, fault_at=k, fired=inj.fired,
                raised=type(raised).__name__ if raised else None)
    if raised is not None:
        ok = isinstance(raised, E.ExtractionError)
        if ctx.perturb == "expect_raw_exception":
            ok = not ok
        ctx.require(ok, "non-extraction-error-escaped", **info)
        if inj.fired and classes[ci] in fam and raised is not exc:
            # an injected library error comes out as itself (same class), not re-wrapped into another
            ctx.require(type(raised) is classes[ci] or isinstance(raised, classes[ci]),
                        "extraction-error-rewrapped", **info)
    else:
        ctx.require(True, "returned")


def k1_empty_and_garbage(ctx):
    """every extractor on empty / short garbage input and on another format's bytes"""
    from sharepoint2text.parsing import exceptions as E
    exs = _extractors()
    names = sorted(exs)
    name = names[ctx.choice("extractor", len(names))]
    inputs = [b"", b"\x00", b"PK\x03\x04", b"\xd0\xcf\x11\xe0\xa1\xb1\x1a\xe1", b"%PDF-1.4\n", b"{\\rtf1", b"<html>",
              b"From x\n", b"7z\xbc\xaf\x27\x1c", b"\x1f\x8b", b"\xff\xfe\x00"]
    others = sorted(FIXTURE)
    which = ctx.choice("input", len(inputs) + len(others))
    if which < len(inputs):
        data = inputs[which]
    else:
        data = open(os.path.join(RES, FIXTURE[others[which - len(inputs)]]), "rb").read()
        cut = ctx.choice("truncate", 5)
        if cut == 1:
            data = data[:len(data) // 2]
        elif cut == 2:
            data = data[:64]
        elif cut == 3:
            data = data[:-100]                  # container tail damaged
        elif cut == 4:
            data = data + b"\x00stray" * 20     # stray bytes after the container
    box = {}

    def run():
        try:
            list(exs[name](io.BytesIO(data), "x.bin"))
        except Exception as e:
            if not isinstance(e, E.ExtractionError):
                raise
    res = _run_forked(run, 20, capture_stdout=True)
    if res == "timeout":
        ctx.fail("extractor-did-not-terminate", extractor=name, input=which)
        return
    if res.startswith("stdout:"):
        # the CLI prints the result (or nothing) itself: an extractor that writes to the process's standard
        # output corrupts both forms of the CLI contract
        ctx.fail("extractor-wrote-to-stdout", extractor=name, input=which, written=res[7:])
        return
    ctx.require(res == "ok", "non-extraction-error-escaped", extractor=name, input=which, raised=res)


class _StepBound:
    """deterministic watchdog for one symbolic run: counts the lines executed in the code under
    analysis (repo modules and their lifted copies) and raises BoundExceeded when a path executes
    more of them than any terminating run on an input of the bounded length can.  Load-independent
    (a wall-clock watchdog raised false alarms on a busy machine and, delivered late, killed idle
    pool workers)."""

    def __init__(self, max_lines):
        self.max = max_lines
        self.n = 0
        self.prev = None

    def _local(self, frame, event, arg):
        if event == "line":
            self.n += 1
            if self.n > self.max:
                sys.settrace(None)
                raise S.BoundExceeded(f"more than {self.max} lines executed on one path")
        return self._local

    def _global(self, frame, event, arg):
        fn = frame.f_code.co_filename
        if fn.startswith("<lifted ") or fn.startswith(S.REPO):
            return self._local
        return None

    def __enter__(self):
        self.prev = sys.gettrace()
        sys.settrace(self._global)
        return self

    def __exit__(self, *a):
        sys.settrace(self.prev)
        return False


def _run_forked(fn, limit, capture_stdout=False):
    """run fn() in a forked child under a hard wall-clock limit (the child is killed when it does
    not finish): 'ok', 'timeout' or 'raised:<ExceptionName>'.  Used for native (concrete) runs that
    may not terminate - immune to whatever keeps in-process watchdogs from firing."""
    import os
    import time
    r, w = os.pipe()
    pid = os.fork()
    if pid == 0:
        os.close(r)
        try:
            tf = None
            if capture_stdout:
                # whatever reaches the process's standard output (file descriptor 1) during the run - through
                # sys.stdout, a stream object bound earlier, or a C library - lands in this file
                import tempfile
                tf = tempfile.TemporaryFile()
                try:
                    sys.stdout.flush()
                except Exception:
                    pass
                os.dup2(tf.fileno(), 1)
            try:
                fn()
                msg = b"ok"
            except BaseException as e:      # noqa - child only reports
                msg = ("raised:" + type(e).__name__).encode()
            if tf is not None:
                for stream in (sys.stdout, sys.__stdout__):
                    try:
                        stream.flush()
                    except Exception:
                        pass
                size = os.fstat(tf.fileno()).st_size
                if size and msg == b"ok" or size and msg.startswith(b"raised:Extraction"):
                    tf.seek(0)
                    msg = b"stdout:" + tf.read(60).replace(b"\n", b" ")
            os.write(w, msg)
        finally:
            os._exit(0)
    os.close(w)
    deadline = time.time() + limit
    out = "timeout"
    while time.time() < deadline:
        done, _ = os.waitpid(pid, os.WNOHANG)
        if done:
            data = os.read(r, 200)
            out = data.decode() if data else "raised:ChildDied"
            break
        time.sleep(0.01)
    else:
        try:
            os.kill(pid, signal.SIGKILL)
        except ProcessLookupError:
            pass
        os.waitpid(pid, 0)
    os.close(r)
    return out


# ---------------------------------------------------------------------------------------
# K2: termination of the input-walking loops on every bounded input
# ---------------------------------------------------------------------------------------

RTF_ALPHABET = "\\{}'u*0a z-\n;"


def _rtf_text(ctx, n):
    t = ctx.fresh_chars("text", n, 1, 126)
    first = ctx.params.get("first")
    if first is not None:
        ctx.assume(t[0] == RTF_ALPHABET[first])
    if ctx.concrete:
        ctx.assume(all(ch in RTF_ALPHABET for ch in t))
    else:
        for ch in t.c:
            conds = [(ch == ord(a)).z for a in RTF_ALPHABET]
            import z3
            ctx.assume(z3.Or(*conds))
    return t


class _IdRe:
    def sub(self, repl, text):
        return text


class _M:
    def __init__(self, g0, g1):
        self.g = (g0, g1)

    def group(self, i=0):
        return self.g[i]


class _UnicodeRe:
    """matcher for the pattern  \\u(-?\\d+)\\??  on bounded symbolic strings"""

    def match(self, text, pos=0):
        n = len(text)
        if pos + 2 > n or not (text[pos:pos + 2] == "\\u"):
            return None
        j = pos + 2
        if j < n and text[j] == "-":
            j += 1
        d0 = j
        while j < n and text[j].isdigit():
            j += 1
        if j == d0:
            return None
        end = j
        if j < n and text[j] == "?":
            j += 1
        return _M(text[pos:j], text[pos + 2:end])


def k2_termination(ctx):
    """whole-function bounded termination: every feasible path of the loop-carrying function
    finishes (within the per-path decision/line bound) for every input of the bounded length"""
    which = ctx.params["fn"]
    n = ctx.params["len"]
    limit = ctx.params.get("watchdog_s", 5)
    if which.startswith("rtf"):
        from sharepoint2text.parsing.extractors.ms_legacy import rtf_extractor as m
        from vf import lift
        text = _rtf_text(ctx, n)
        p = object.__new__(m._RtfParser)
        p.encoding = "cp1252"
        p.pages = []
        p._codec = "cp1252"
        if ctx.concrete:
            target = {"rtf_full": lambda: p._strip_rtf_full_with_pages(text),
                      "rtf_ignorable": lambda: p._remove_ignorable_groups(text)}[which]
        else:
            # the functions' own source, string literals lifted to symbolic-string constants; regex
            # objects (C engine) replaced: whitespace squeezers -> identity, \\u(-?\\d+)\\?? -> matcher
            ns = dict(int=S.IntShadow, chr=S.sym_chr, _RE_UNICODE=_UnicodeRe(), _RE_MULTI_SPACE=_IdRe(),
                      _RE_MULTI_NEWLINE=_IdRe())
            full = lift.lift(m._RtfParser._strip_rtf_full_with_pages, **ns)
            ign = lift.lift(m._RtfParser._remove_ignorable_groups, **ns)
            skip = lift.lift(m._RtfParser._is_skip_destination, **ns)
            p._is_skip_destination = lambda ahead: skip(p, ahead)
            # \'hh: int(hh, 16) as in the code (ValueError for non-hex digits), then one character of
            # the document code page - over-approximated by an arbitrary character (termination only)
            _hx = [0]

            def _hex_escape(hh):
                S.IntShadow(hh, 16)
                _hx[0] += 1
                return ctx.fresh_chars(f"cp_char{_hx[0]}", 1, 1, 0xFFFF)
            p._decode_hex_escape = _hex_escape
            ctx.hash_universe = set(m._RtfParser.SPECIAL_CHARS)
            target = {"rtf_full": lambda: full(p, text), "rtf_ignorable": lambda: ign(p, text)}[which]
        shadows = {}
        mod = m
    elif which == "ppt_records":
        from sharepoint2text.parsing.extractors.ms_legacy import ppt_extractor as m
        data = ctx.fresh_bytes("data", n)
        target = lambda: list(m._iter_records(data))
        shadows = dict(struct=S.SymStructMod, int=S.IntShadow, _RECORD_HEADER=S.SymStructFmt(m._RECORD_HEADER.format),
                       len=len)
        mod = m
    elif which == "doc_png":
        # the PNG chunk walk of the legacy DOC image scanner: signature + n symbolic bytes
        import struct as _struct
        from sharepoint2text.parsing.extractors.ms_legacy import doc_extractor as m
        sig = b"\x89PNG\r\n\x1a\n"
        tail = ctx.fresh_bytes("data", n)
        data = (sig + bytes(tail)) if ctx.concrete else S.SymBytes(list(sig) + list(tail))

        class _Digest:
            k = [0]

            def hexdigest(self):
                _Digest.k[0] += 1
                return "digest%d" % _Digest.k[0]

        class _Hashlib:
            sha1 = staticmethod(lambda b: _Digest())
            md5 = staticmethod(lambda b: _Digest())
            sha256 = staticmethod(lambda b: _Digest())
        target = lambda: m._DocReader._extract_png_images_from_bytes(data)
        shadows = dict(struct=S.SymStructMod, int=S.IntShadow, len=len, hashlib=_Hashlib)
        # module-level struct.Struct objects are stood in by their symbolic counterparts, whatever their names
        for nm, v in vars(m).items():
            if isinstance(v, _struct.Struct):
                shadows[nm] = S.SymStructFmt(v.format)
        mod = m
    elif which == "xls_filepass":
        from sharepoint2text.parsing.extractors.util import encryption as m
        data = ctx.fresh_bytes("data", n)

        class Ole:
            def __init__(self, f):
                pass

            def __enter__(self):
                return self

            def __exit__(self, *a):
                return False

            def exists(self, nm):
                return nm == "Workbook"

            def openstream(self, nm):
                class St:
                    def read(self_):
                        return data
                return St()

        class OleMod:
            OleFileIO = Ole

            @staticmethod
            def isOleFile(f):
                return True
        target = lambda: m.is_xls_encrypted(io.BytesIO(b""))
        shadows = dict(int=S.IntShadow, olefile=OleMod)
        mod = m
    else:
        raise KeyError(which)
    if ctx.concrete:
        # replay on the real code with plain values (environment stubs only), in a forked child
        # under a hard limit
        if which == "xls_filepass":
            with ctx.stub(mod, olefile=shadows["olefile"]):
                res = _run_forked(target, limit)
        else:
            res = _run_forked(target, limit)
        if ctx.perturb == "expect_timeout":
            ctx.fail("twin")
        ctx.require(res != "timeout", "loop-did-not-terminate", fn=which, watchdog_s=limit)
        return
    try:
        with _StepBound(ctx.params.get("max_lines", 40000)):
            with ctx.shadow(mod, **shadows):
                target()
    except S.BoundExceeded:
        # more solver-decided iterations / executed lines than any terminating run on an input of
        # this length can make: candidate non-termination, confirmed (or refuted) by the concrete
        # replay, which runs the real function in a child process under a hard wall-clock limit
        ctx.fail("loop-did-not-terminate", fn=which, reason="decision/line bound exceeded")
        return
    except S.Unsupported:
        raise
    except Exception as e:
        # the failure surface is K1's subject; here only termination counts - but an exception
        # that comes from a proxy the code cannot carry must not pass for "terminated"
        if not ctx.concrete and isinstance(e, (TypeError, AttributeError)):
            ctx.run.errors.append(f"{which}: proxy could not flow through the code: {type(e).__name__}: {e}")
            return
    if ctx.perturb == "expect_timeout":
        ctx.fail("twin")
    ctx.require(True, "terminated")


def _k2_parts(tier):
    parts = []
    top = 5 if tier == "quick" else 6
    for f in ("rtf_full", "rtf_ignorable"):
        parts += [{"fn": f, "len": n} for n in range(1, min(top, 5) + 1)]
        if top >= 6:
            # length 6 partitioned by the first character (one part per alphabet letter)
            parts += [{"fn": f, "len": 6, "first": k} for k in range(len(RTF_ALPHABET))]
    for n in ((8, 12, 16, 20) if tier == "quick" else (8, 12, 16, 20, 24, 28)):
        parts.append({"fn": "ppt_records", "len": n})
    for n in ((8, 12, 16, 20) if tier == "quick" else (8, 12, 16, 20, 24, 32)):
        parts.append({"fn": "xls_filepass", "len": n})
    for n in ((12, 16, 24) if tier == "quick" else (12, 16, 24, 28, 32)):
        parts.append({"fn": "doc_png", "len": n})
    return parts


# ---------------------------------------------------------------------------------------
# K3: CLI contract
# ---------------------------------------------------------------------------------------

def k3_cli(ctx):
    import sharepoint2text
    from sharepoint2text import cli
    from sharepoint2text.parsing.extractors.data_types import PlainTextContent, XlsxContent, XlsxSheet
    exists = ctx.flag("file_exists")
    size_kind = ctx.choice("size", 3)          # small, exactly limit, above limit
    n_res = ctx.choice("n_results", 3)
    fail_at = ctx.choice("failing_stage", 6)   # 0 none, 1 read_file raises, 2 result k raises in observer,
    #                                            3 unserialisable value inside payload, 4 extraction error,
    #                                            5 the LAST result holds a character stdout cannot encode
    as_json = ctx.flag("json")
    as_unit = ctx.flag("json_unit") if not as_json else False
    binary = ctx.flag("binary")
    limit = 100 * 1024 * 1024

    class Bad(PlainTextContent):
        def get_full_text(self):
            raise RuntimeError("observer failed")

        def iterate_units(self):
            raise RuntimeError("observer failed")

    results = []
    for i in range(n_res):
        results.append(PlainTextContent(content=f"text {i}"))
    if fail_at == 2 and results:
        results[-1] = Bad(content="x")
    if fail_at == 5 and results:
        results[-1] = PlainTextContent(content="caf\u00e9 \udc80")
    if fail_at == 3 and results:
        # a value the JSON encoder cannot write, late in the payload (after output has started)
        results[-1] = XlsxContent(sheets=[XlsxSheet(name="S", data=[["ok", 1], [object()]], text="t")])

    def fake_read_file(path, **k):
        if fail_at == 1:
            raise RuntimeError("boom")
        if fail_at == 4:
            from sharepoint2text.parsing.exceptions import ExtractionFailedError
            raise ExtractionFailedError("nope")
        return iter(results)

    class St:
        st_size = [10, limit, limit + 1][size_kind]

    class FakePath:
        def __init__(self, p):
            self.p = str(p)

        def exists(self):
            return exists

        def stat(self):
            return St()

        def __str__(self):
            return self.p

        def __fspath__(self):
            return self.p
    class AsciiOut(io.StringIO):
        """a stdout whose encoding cannot represent every character (C locale / redirected to a pipe): write()
        fails on such text, as TextIOWrapper does, after earlier writes have gone through"""
        encoding = "ascii"

        def write(self, text):
            text.encode("ascii")
            return io.StringIO.write(self, text)

    out, err = (AsciiOut() if fail_at == 5 else io.StringIO()), io.StringIO()
    argv = ["some/file.txt"] + (["--json"] if as_json else []) + (["--json-unit"] if as_unit else []) + \
        (["--binary"] if binary else [])
    import sys
    with ctx.stub(sharepoint2text, read_file=fake_read_file), ctx.stub(cli, Path=FakePath), \
            ctx.stub(sys, stdout=out, stderr=err):
        try:
            rc = cli.main(argv)
        except SystemExit as e:
            rc = e.code
        except Exception as e:
            rc = ("raised", type(e).__name__)
    so, se = out.getvalue(), err.getvalue()
    info = dict(argv=argv, rc=rc, stdout=so[:80], stderr=se[:120], stage=fail_at, n=n_res, exists=exists, size=size_kind)
    if ctx.perturb == "expect_rc2":
        ctx.require(rc == 2, "twin", **info)
    ctx.require(rc in (0, 1), "exit-code-not-0-or-1", **info)
    if rc == 0:
        ctx.require(so.endswith("\n") and se == "", "success-with-stderr-or-no-output", **info)
    else:
        ctx.require(so == "", "failure-left-output-on-stdout", **info)
        ctx.require(se.count("\n") == 1 and se.endswith("\n") and len(se) > 1, "failure-diagnostic-not-one-line", **info)
    should_fail = (not exists) or size_kind == 2 or n_res == 0 or fail_at in (1, 4) or \
        (fail_at == 2 and n_res > 0 and (as_unit or not (as_json))) or (fail_at == 3 and n_res > 0 and (as_json or as_unit)) or \
        (binary and not (as_json or as_unit)) or (fail_at == 5 and n_res > 0 and not (as_json or as_unit))
    if not should_fail:
        ctx.require(rc == 0, "valid-run-failed", **info)


def _targets_k1():
    import sharepoint2text
    return list(_extractors().values())


KERNELS = [
    Kernel("K1", "every extractor: an exception of any class injected at any collaborator call comes out as an "
                 "ExtractionError (library errors as themselves)",
           k1_wrapper_surface, targets=_targets_k1, strength="structure",
           parts=lambda tier: [{"extractor": n, "max_calls": 25 if tier == "quick" else 80} for n in sorted(_extractors())],
           perturb=[("expect_raw_exception", {"extractor": "read_docx", "max_calls": 25})],
           choices=["index of the failing collaborator call (every call made while extracting a fixture)",
                    "exception class (5 library errors, 12 others incl. MemoryError/RecursionError/struct/zlib/BadZipFile)"],
           stubs=["every callable module global named in the extractor function is wrapped; the k-th call raises"],
           assumptions=["collaborators = callables named in the extractor's own code (first level); deeper frames are "
                        "reached through them", "one fixture file per extractor provides the call sequence"],
           outside=["which exceptions real malformed bytes provoke inside third-party parsers (over-approximated by the "
                    "injected classes); BaseException subclasses"],
           timeout={"quick": 280, "thorough": 1500}),
    Kernel("K1g", "every extractor on empty / magic-only / truncated / tail-damaged / foreign-format input: terminates, only "
                  "library errors, nothing written to the process's standard output", k1_empty_and_garbage,
           targets=_targets_k1, strength="structure", core=False,
           choices=["extractor", "input: 11 short byte strings, or another format's fixture whole / half / 64 bytes"],
           timeout={"quick": 280, "thorough": 1500}),
    Kernel("K2", "input-walking loops terminate on every bounded input (RTF strippers, PPT record walk, XLS FILEPASS walk, DOC "
                 "PNG chunk walk)",
           k2_termination,
           targets=lambda: [
               __import__("sharepoint2text.parsing.extractors.ms_legacy.rtf_extractor", fromlist=["x"])._RtfParser._strip_rtf_full_with_pages,
               __import__("sharepoint2text.parsing.extractors.ms_legacy.rtf_extractor", fromlist=["x"])._RtfParser._strip_rtf_simple,
               __import__("sharepoint2text.parsing.extractors.ms_legacy.rtf_extractor", fromlist=["x"])._RtfParser._remove_ignorable_groups,
               __import__("sharepoint2text.parsing.extractors.ms_legacy.ppt_extractor", fromlist=["x"])._iter_records,
               __import__("sharepoint2text.parsing.extractors.util.encryption", fromlist=["x"]).is_xls_encrypted,
               __import__("sharepoint2text.parsing.extractors.ms_legacy.doc_extractor",
                          fromlist=["x"])._DocReader._extract_png_images_from_bytes],
           parts=_k2_parts, perturb=[("expect_timeout", {"fn": "rtf_ignorable", "len": 2})], max_depth=400,
           symbolic=["every character of the RTF text (from the RTF lexeme alphabet) / every byte of the record stream"],
           assumptions=["more than 400 solver decisions or 40000 executed lines on one path of an input of <= 6 characters / 32 bytes stands for non-termination; a hit is replayed on the real function in a child process under a 5 s hard wall-clock limit"],
           outside=["inputs longer than the bound (RTF 5/6 characters, record streams 20 / 28-32 bytes)",
                    "time spent inside a single C-level call (super-linear regular expressions on whole inputs "
                    "terminate and execute no repository lines: seed C01-c is not detected)",
                    "loops driven by third-party iterators (pypdf, SharePoint paging)",
                    "the other byte-walking loops of the repository (DOC DIB scan, XLS BLIP scan, PPT container parse, 7z "
                    "header parse; the JPEG segment walks are explored by C14/K1)"],
           timeout={"quick": 280, "thorough": 2400}),
    Kernel("K3", "CLI: result and exit 0, or empty stdout + one stderr line + exit 1", k3_cli,
           targets=lambda: [__import__("sharepoint2text.cli", fromlist=["x"]).main], strength="structure",
           perturb=["expect_rc2"],
           choices=["file exists", "size small / = limit / > limit", "0..2 results", "failing stage (read_file, observer, "
                    "unserialisable value late in the payload, extraction error)", "--json / --json-unit / --binary"],
           stubs=["sharepoint2text.read_file, Path.exists/stat, sys.stdout/stderr"]),
]

META = {
    "level_text": "Fault position and exception class are symbolic over every collaborator call of all 21 registered "
                  "extractors (exhaustive fault enumeration through the real wrappers); the input-walking loops are executed "
                  "on fully symbolic bounded inputs and every feasible path must terminate; the CLI contract is explored "
                  "over existence/size/result-count/failure-stage/flag combinations, including a failure while the output "
                  "is being written; every extractor is run on damaged fixtures in a child process whose standard output "
                  "is captured at file-descriptor level.",
    "level_note": "Mostly fault / structure exploration: the solver enumerates the bounded schedule space, each path is a "
                  "native run of the real code. K2 has symbolic data reaching the loops' own branches. Outside: what real "
                  "malformed bytes do inside third-party parsers.",
    "technique": "symbolic fault schedules over the real extractor wrappers + symbolic bounded inputs through the real "
                 "loops with a per-path decision/line bound, hits replayed under a hard wall-clock limit (symrun)",
}
