"""C09 - archive processing is confined: no host file is read or written."""
import io

from vf.core import Kernel
from vf import symrun as S
from vf import pathmodel


def _sz():
    import sharepoint2text.parsing.extractors.util.sevenzip as m
    return m


def _ae():
    import sharepoint2text.parsing.extractors.archive_extractor as m
    return m


def ref_contained(P, base):
    """reference file-system semantics (no symlinks): does opening path P stay inside base?
    Works on str and CharStr (comparisons on CharStr fork)."""
    if isinstance(base, S.CharStr) and isinstance(P, str):
        P = S.CharStr(P)
    if not P.startswith(base):
        return False
    rest = P[len(base):]
    if len(rest) == 0:
        return True
    if not rest.startswith("/"):
        return False
    depth = 0
    for comp in rest.split("/"):
        if comp == "" or comp == ".":
            continue
        if comp == "..":
            depth -= 1
            if depth < 0:
                return False
        else:
            depth += 1
    return True


class Recorder:
    def __init__(self):
        self.opened = []
        self.mkdirs = []

    def open(self, path, mode="r", *a, **k):
        self.opened.append((path, mode))
        return io.BytesIO(b"host-or-member-bytes")

    def mkdir(self, path, *a, **k):
        self.mkdirs.append(path)


def _name(ctx):
    n = ctx.params["len"]
    # characters that matter for path semantics get their own codes; everything else is 'a'..'c'
    return ctx.fresh_chars("name", n, 1, 127)


BASE = "/tmp/private_dir"


def k1_write_side(ctx):
    """7z extraction: every path created/opened for a member lies inside the extraction dir"""
    sz = _sz()
    name = _name(ctx)
    is_dir = ctx.flag("is_directory")
    rec = Recorder()
    reader = object.__new__(sz.SevenZipReader)
    reader._files = [sz.FileInfo(filename=name, uncompressed=1, is_directory=is_dir)]
    reader._folder_to_files = {0: [0]}
    with ctx.shadow(sz, os=pathmodel.OsShadow(cwd="/cwd")), ctx.stub(sz, open=rec.open, _mkdirs=rec.mkdir):
        try:
            reader._extract_files_from_folder(BASE, 0, b"x")
            rejected = False
        except sz.Bad7zFile:
            rejected = True
        except Exception as e:
            ctx.fail("extraction-raised-other", exc=type(e).__name__, name=str(name))
            return
    for p, mode in rec.opened:
        ctx.require(ref_contained(p, BASE), "write-outside-extraction-dir", path=str(p), name=str(name))
    for p in rec.mkdirs:
        # makedirs(exist_ok=True) on the extraction dir itself or one of its ancestors is a no-op
        inside = ref_contained(p, BASE)
        if not inside:
            inside = ref_contained(BASE, p) if len(p) > 0 else False
        ctx.require(inside, "mkdir-outside-extraction-dir", path=str(p), name=str(name))
    if ctx.perturb == "expect_all_rejected":
        ctx.require(rejected, "twin")


def k2_read_side(ctx):
    """7z re-read: every path opened for a listed member lies inside the temp dir"""
    ae = _ae()
    sz = _sz()
    name = _name(ctx)
    rec = Recorder()
    fi = sz.FileInfo(filename=name, uncompressed=1, is_directory=False)
    seen = []
    with ctx.shadow(ae, os=pathmodel.OsShadow(cwd="/cwd", exists=lambda p: True)), \
            ctx.shadow(sz, os=pathmodel.OsShadow(cwd="/cwd")), \
            ctx.stub(ae, open=rec.open, _process_archive_entry=lambda *a, **k: iter(seen.append(a) or ())):
        if ctx.concrete:
            import os
            real_exists = os.path.exists
            os.path.exists = lambda p: True
        try:
            list(ae._process_7z_files_sequential([(fi, name, "x.txt")], BASE, "arch.7z"))
        except Exception as e:
            ctx.fail("reread-raised", exc=type(e).__name__)
        finally:
            if ctx.concrete:
                os.path.exists = real_exists
    for p, mode in rec.opened:
        ctx.require(ref_contained(p, BASE), "read-outside-temp-dir", path=str(p), name=str(name))
    if ctx.perturb == "expect_nothing_opened":
        ctx.require(not rec.opened, "twin")


# ---------------------------------------------------------------------------------------
# K3 skip rules
# ---------------------------------------------------------------------------------------

PREFIXES = ["", "d/", "__MACOSX/", ".h/", "d/e/"]


def k3_skip_rules(ctx):
    ae = _ae()
    from vf.props import c07
    from sharepoint2text.parsing import router as r
    base = ctx.fresh_chars("basename", ctx.params["len"], 1, 127)
    if not ctx.concrete:
        for ch in base.c:
            ctx.assume(ch != 47)      # a basename contains no '/'
    else:
        ctx.assume("/" not in base)
    prefix = PREFIXES[ctx.choice("prefix", len(PREFIXES))]
    filename = (S.CharStr(prefix) + base) if not ctx.concrete else prefix + base
    mime = c07.MimeStub(ctx, r)
    known = ctx.params.get("known_active", [])
    if ctx.concrete:
        ae._is_supported_file_cached.cache_clear()
        cm = ctx.stub(r, mimetypes=mime)
        cm2 = ctx.stub(ae, _noop=None)
    else:
        cm = ctx.shadow(r, **c07._shadows(ctx, r, mime))
        cm2 = ctx.shadow(ae, _is_supported_file_cached=lambda b: r.is_supported_file(b))
    with cm, cm2:
        skipped = ae._should_skip_file(filename, base)
        supported = r.is_supported_file(base)
    if ctx.concrete:
        ae._is_supported_file_cached.cache_clear()
    hidden = base.startswith(".")
    macos = filename.startswith("__MACOSX/")
    exp = c07._spec_expected(base.lower(), None)
    nested = (exp == "read_archive")
    info = dict(filename=str(filename), basename=str(base))
    if bool(hidden):
        ctx.require(skipped, "hidden-member-not-skipped", **info)
    elif bool(macos):
        ctx.require(skipped, "macos-resource-fork-not-skipped", **info)
    elif not supported:
        ctx.require(skipped, "unsupported-member-not-skipped", **info)
    elif nested:
        ctx.require(skipped if ctx.perturb != "expect_nested_processed" else not skipped,
                    "nested-archive-not-skipped", **info)
    else:
        ctx.require(not skipped, "visible-supported-member-skipped", **info)


# ---------------------------------------------------------------------------------------
# K4 member kinds and sizes (ZIP / TAR loops on fake containers)
# ---------------------------------------------------------------------------------------

class FakeZipInfo:
    def __init__(self, filename, file_size, isdir, flag_bits=0):
        self.filename, self.file_size, self._d, self.flag_bits = filename, file_size, isdir, flag_bits
        self.compress_size = file_size

    def is_dir(self):
        return self._d


class FakeTarMember:
    KINDS = ["reg", "dir", "sym", "lnk", "chr", "blk", "fifo"]

    def __init__(self, name, size, kind):
        self.name, self.size, self.kind = name, size, kind
        self.linkname = "secret.txt"

    def isreg(self):
        return self.kind == "reg"

    def isfile(self):
        return self.kind == "reg"

    def isdir(self):
        return self.kind == "dir"

    def issym(self):
        return self.kind == "sym"

    def islnk(self):
        return self.kind == "lnk"

    def ischr(self):
        return self.kind == "chr"

    def isblk(self):
        return self.kind == "blk"

    def isfifo(self):
        return self.kind == "fifo"

    def isdev(self):
        return self.kind in ("chr", "blk", "fifo")


NAMES = ["a.txt", ".hidden.txt", "__MACOSX/a.txt", "inner.zip", "pic.xyz", "d/b.txt"]


def k4_member_kinds(ctx):
    ae = _ae()
    fmt = ctx.params["fmt"]
    limit = ae._config.max_memory_size
    n = 1 + ctx.choice("n_members", 2)
    members, meta = [], []
    for i in range(n):
        nm = NAMES[ctx.choice(f"name{i}", len(NAMES))]
        size = ctx.fresh_int(f"size{i}", 0, 2 ** 40)
        kind = FakeTarMember.KINDS[ctx.choice(f"kind{i}", len(FakeTarMember.KINDS))] if fmt == "tar" else \
            ["reg", "dir"][ctx.choice(f"kind{i}", 2)]
        meta.append((nm, size, kind))
        members.append(FakeTarMember(nm, size, kind) if fmt == "tar" else FakeZipInfo(nm, size, kind == "dir"))
    reached, extracted, reads = [], [], []

    def entry(filename, file_data, archive_path, basename):
        reached.append(filename)
        return iter(())

    class FakeZip:
        def __init__(self, *a, **k):
            pass

        def __enter__(self):
            return self

        def __exit__(self, *a):
            return False

        def infolist(self):
            return members

        def read(self, info, pwd=None):
            reads.append(info.filename)
            return b"data"

        def extract(self, *a, **k):
            extracted.append(a)

        extractall = extract

    class FakeTar(FakeZip):
        def getmembers(self):
            return members

        def extractfile(self, member):
            reads.append(member.name)
            if member.kind in ("sym", "lnk"):
                return io.BytesIO(b"content of the link target")
            if member.kind != "reg":
                return None
            return io.BytesIO(b"data")

    class ZipMod:
        ZipFile = FakeZip
        BadZipFile = __import__("zipfile").BadZipFile

    class TarMod:
        TarError = __import__("tarfile").TarError

        @staticmethod
        def open(fileobj=None, mode="r"):
            return FakeTar()

    with ctx.stub(ae, _process_archive_entry=entry, zipfile=ZipMod, tarfile=TarMod):
        try:
            if fmt == "zip":
                list(ae._extract_from_zip_optimized(io.BytesIO(b""), "a.zip"))
            else:
                list(ae._extract_from_tar_optimized(io.BytesIO(b""), "a.tar"))
        except Exception as e:
            ctx.fail("loop-raised", exc=type(e).__name__)
            return
    ctx.require(not extracted, "member-extracted-to-disk")
    # reference: only regular, visible, supported, non-nested members within the size limit
    ok_names = {"a.txt", "d/b.txt"}
    expected = []
    for nm, size, kind in meta:
        if kind != "reg" or nm not in ok_names:
            continue
        within = (size <= limit) if ctx.perturb != "limit_exclusive" else (size < limit)
        if isinstance(within, S.SymBool):
            within = bool(within)
        if within:
            expected.append(nm)
    ctx.require(reached == expected, "wrong-members-processed", reached=reached, expected=expected,
                members=[(a, str(b), c) for a, b, c in meta])
    ctx.require(all(r in expected for r in reads), "filtered-member-was-decompressed", reads=reads, expected=expected)


# ---------------------------------------------------------------------------------------
# K5 temp directory life-cycle under consumer histories
# ---------------------------------------------------------------------------------------

def k5_tempdir_lifecycle(ctx):
    ae = _ae()
    sz = _sz()
    n = ctx.choice("n_members", 3)
    k = ctx.choice("consumed", n + 1)
    action = ctx.choice("consumer_action", 4)       # exhaust, close, drop+gc, throw
    fail_extract = ctx.flag("extractall_fails")
    log = []

    class TD:
        def __init__(self, *a, **kw):
            self.name = "/tmp/td"

        def __enter__(self):
            log.append("enter")
            return self.name

        def __exit__(self, *a):
            log.append("exit")
            return False

        def cleanup(self):
            log.append("exit")

    class FakeSZ:
        def __init__(self, f, mode="r"):
            pass

        def __enter__(self):
            return self

        def __exit__(self, *a):
            return False

        def needs_password(self):
            return False

        def list(self):
            return [sz.FileInfo(filename=f"f{i}.txt", uncompressed=1, is_directory=False) for i in range(n)]

        def extractall(self, path):
            if fail_extract:
                raise sz.Bad7zFile("boom")

    class TempMod:
        TemporaryDirectory = TD

    def seq(files, temp_dir, archive_path):
        for f in files:
            yield f[1]

    with ctx.stub(ae, SevenZipFile=FakeSZ, tempfile=TempMod, _process_7z_files_sequential=seq,
                  _should_skip_file=lambda a, b: False):
        gen = ae._extract_from_7z_optimized(io.BytesIO(b"7z"), "a.7z")
        got = []
        try:
            for _ in range(k):
                got.append(next(gen))
            if action == 0:
                got += list(gen)
            elif action == 1:
                gen.close()
            elif action == 2:
                del gen
                import gc
                gc.collect()
            else:
                try:
                    gen.throw(RuntimeError("consumer failed"))
                except (RuntimeError, StopIteration):
                    pass
        except StopIteration:
            pass
        except Exception as e:
            if not fail_extract:
                ctx.fail("unexpected-exception", exc=type(e).__name__)
                return
    if ctx.perturb == "expect_no_tempdir":
        ctx.require("enter" not in log, "twin")
    ctx.require(log.count("enter") == log.count("exit"), "temp-dir-not-removed", log=log, consumed=k, action=action)


def _targets_sz():
    sz = _sz()
    return [sz._safe_join, sz.SevenZipReader._extract_files_from_folder, sz._mkdirs]


def _targets_ae():
    ae = _ae()
    return [ae._process_7z_files_sequential, ae._should_skip_file, ae._extract_from_zip_optimized,
            ae._extract_from_tar_optimized, ae._extract_from_7z_optimized]


def _len_parts(top):
    return lambda tier: [{"len": n} for n in range(0, (top if tier == "quick" else top + 2) + 1)]


KERNELS = [
    Kernel("K1", "7z extraction writes only inside the extraction directory (symbolic member name)",
           k1_write_side, targets=_targets_sz, parts=_len_parts(5), perturb=[("expect_all_rejected", {"len": 2})],
           symbolic=["every character of the member name (length 0..5, thorough 7): absolute, dot-dot, backslash, "
                     "drive-like forms are all reachable"],
           stubs=["os.path -> posixpath functions lifted from the stdlib source to bounded symbolic strings "
                  "(vf/pathmodel.py, differentially validated)", "open / _mkdirs -> recorder"],
           assumptions=["POSIX path semantics; no symlinks inside the private directory"],
           outside=["member names longer than the bound; Windows path semantics"],
           timeout={"quick": 280, "thorough": 2400}),
    Kernel("K2", "7z re-read opens only inside the temp directory (symbolic member name)",
           k2_read_side, targets=_targets_ae, parts=_len_parts(5), perturb=[("expect_nothing_opened", {"len": 2})],
           symbolic=["every character of the member name"],
           stubs=["os.path -> lifted posixpath; os.path.exists -> True (the host has every file)", "open -> recorder"],
           timeout={"quick": 280, "thorough": 2400}),
    Kernel("K3", "skip rules: hidden / macOS fork / unsupported / nested archive are skipped, everything else is not",
           k3_skip_rules, targets=_targets_ae, parts=_len_parts(7),
           perturb=[("expect_nested_processed", {"len": 5})],
           symbolic=["every character of the member base name (length 0..7, thorough 9)"],
           choices=["directory prefix", "MIME answer class"],
           stubs=["router tables as lookup proxies, mimetypes -> arbitrary oracle (as C07)"],
           timeout={"quick": 280, "thorough": 2400}),
    Kernel("K4", "ZIP/TAR loops: only regular, visible, supported, non-nested members within the size limit are read",
           k4_member_kinds, targets=_targets_ae, parts=lambda tier: [{"fmt": "zip"}, {"fmt": "tar"}],
           perturb=[("limit_exclusive", {"fmt": "zip"})],
           symbolic=["member sizes (the loop's own size test is the fork)"],
           choices=["member kind (regular, dir, symlink, hardlink, char/block device, fifo)", "member name class", "1..2 members"],
           stubs=["zipfile.ZipFile / tarfile.open -> fake containers; extractfile() of a link returns the link target's "
                  "bytes like the real tarfile does"]),
    Kernel("K5", "7z temp directory is removed under every consumer history", k5_tempdir_lifecycle,
           targets=_targets_ae, strength="structure", perturb=["expect_no_tempdir"],
           choices=["members 0..2", "results consumed before the consumer stops", "exhaust / close / drop+gc / throw",
                    "extractall fails"],
           stubs=["SevenZipFile, tempfile.TemporaryDirectory -> recording stand-ins"]),
]

META = {
    "level_text": "The 7z write side (_safe_join + _extract_files_from_folder), the 7z re-read side and the shared skip filter "
                  "are executed on member names whose every character is symbolic (all names up to length 5/7), with os.path "
                  "replaced by the stdlib's own posixpath algorithms lifted to symbolic strings; z3 decides each character "
                  "test, and the opened/created paths are judged by a reference of file-system containment. ZIP/TAR member "
                  "filtering runs on fake containers with symbolic sizes; the temp-dir life-cycle is explored over consumer "
                  "histories.",
    "level_note": "Trusted: lifted posixpath (validated against the real one on ~4000 cases per run), POSIX semantics, no "
                  "symlinks in the private directory. Outside: OS-level observation of file access, longer names.",
    "technique": "symbolic execution of the archive path handling on bounded symbolic member names (symrun CharStr, stdlib "
                 "posixpath lifted via AST), containment oracle, fake containers with symbolic sizes",
}
