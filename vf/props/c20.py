"""C20 - built-in AES equals FIPS-197 AES in ECB/CBC for every key and block.

Lemma decomposition (every lemma a solver query over the live tables / real functions):
  K1  tables: S-box = affine(inverse), inverse S-box, x2..x14 tables, Rcon  (all 256 x)
  K1b real _xtime/_gf_mul on a symbolic byte vs carry-less multiplication mod 0x11B
  K2  real round functions on a fully symbolic state vs FIPS-197 definitions
  K3  real key schedule + block cipher, S-box/xN tables abstracted as functions justified by K1,
      against a FIPS-197 transcription: all keys, all blocks
  K4  real ECB/CBC drivers + padding + stream wrapper, block cipher abstracted as an
      uninterpreted keyed bijection
"""
import time
import types

import z3

from vf.core import Kernel
from vf import symrun as S


def _aes():
    import sharepoint2text.parsing.extractors.pdf._pypdf_aes_fallback as m
    return m


# ---------------------------------------------------------------------------------------
# independent bit-level specification (FIPS-197 sections 4, 5)
# ---------------------------------------------------------------------------------------

def xtime_z(a):
    # branch-free (GF(2)-linear) form: z3 decides XOR-linear identities instantly in this
    # form and not at all with an if-then-else on the top bit
    return (a << 1) ^ (z3.SignExt(7, z3.Extract(7, 7, a)) & z3.BitVecVal(0x1B, 8))


def clmul_const_z(a, n):
    """a (BV8) times constant n in GF(2^8) mod x^8+x^4+x^3+x+1"""
    acc = z3.BitVecVal(0, 8)
    p = a
    while n:
        if n & 1:
            acc = acc ^ p
        p = xtime_z(p)
        n >>= 1
    return acc


def clmul_z(a, b):
    acc = z3.BitVecVal(0, 8)
    p = a
    for i in range(8):
        acc = z3.If(z3.Extract(i, i, b) == 1, acc ^ p, acc)
        p = xtime_z(p)
    return acc


def rotl8(x, k):
    return z3.RotateLeft(x, k)


def affine_z(b):
    return b ^ rotl8(b, 1) ^ rotl8(b, 2) ^ rotl8(b, 3) ^ rotl8(b, 4) ^ z3.BitVecVal(0x63, 8)


def inv_affine_z(s):
    return rotl8(s, 1) ^ rotl8(s, 3) ^ rotl8(s, 6) ^ z3.BitVecVal(0x05, 8)


def _py_xtime(a):
    a <<= 1
    return (a ^ 0x11B) & 0xFF if a & 0x100 else a


def _py_mul(a, b):
    r = 0
    while b:
        if b & 1:
            r ^= a
        a = _py_xtime(a)
        b >>= 1
    return r


def _py_sbox():
    inv = [0] * 256
    for x in range(1, 256):
        for y in range(1, 256):
            if _py_mul(x, y) == 1:
                inv[x] = y
                break
    out = []
    for x in range(256):
        b = inv[x]
        r = b
        for k in (1, 2, 3, 4):
            r ^= ((b << k) | (b >> (8 - k))) & 0xFF
        out.append(r ^ 0x63)
    return out


class Ops:
    """byte operations of the FIPS transcription over a backend"""

    def __init__(self, sb, isb, mul, xor=lambda a, b: a ^ b):
        self.sb, self.isb, self.mul, self.xor = sb, isb, mul, xor


def fips_expand(key, ops, rcon_pow):
    """FIPS-197 5.2 KeyExpansion; key = list of byte terms; returns list of 4*(Nr+1) words"""
    nk = len(key) // 4
    nr = nk + 6
    w = [key[4 * i:4 * i + 4] for i in range(nk)]
    for i in range(nk, 4 * (nr + 1)):
        t = list(w[i - 1])
        if i % nk == 0:
            t = t[1:] + t[:1]
            t = [ops.sb(b) for b in t]
            t[0] = ops.xor(t[0], rcon_pow(i // nk))
        elif nk > 6 and i % nk == 4:
            t = [ops.sb(b) for b in t]
        w.append([ops.xor(a, b) for a, b in zip(w[i - nk], t)])
    return [[b for word in w[4 * r:4 * r + 4] for b in word] for r in range(nr + 1)]


def fips_cipher(block, rks, ops, perturb=None):
    """FIPS-197 5.1 Cipher, state column-major s[r + 4c]"""
    nr = len(rks) - 1
    s = [ops.xor(a, b) for a, b in zip(block, rks[0])]
    for rnd in range(1, nr + 1):
        s = [ops.sb(b) for b in s]
        s = [s[r + 4 * ((c + r) % 4)] for c in range(4) for r in range(4)]
        if rnd != nr:
            out = []
            coef = [2, 3, 1, 1]
            if perturb == "mixcolumns_coeff_swapped":
                coef = [3, 2, 1, 1]
            for c in range(4):
                col = s[4 * c:4 * c + 4]
                for r in range(4):
                    acc = None
                    for j in range(4):
                        t = ops.mul(coef[(j - r) % 4], col[j])
                        acc = t if acc is None else ops.xor(acc, t)
                    out.append(acc)
            s = out
        s = [ops.xor(a, b) for a, b in zip(s, rks[rnd])]
    return s


def fips_inv_cipher(block, rks, ops, perturb=None):
    """FIPS-197 5.3 InvCipher"""
    nr = len(rks) - 1
    s = [ops.xor(a, b) for a, b in zip(block, rks[nr])]
    for rnd in range(nr - 1, -1, -1):
        s = [s[r + 4 * ((c - r) % 4)] for c in range(4) for r in range(4)]
        s = [ops.isb(b) for b in s]
        s = [ops.xor(a, b) for a, b in zip(s, rks[rnd])]
        if rnd != 0:
            out = []
            coef = [14, 11, 13, 9]
            if perturb == "inv_coeff_swapped":
                coef = [14, 13, 11, 9]
            for c in range(4):
                col = s[4 * c:4 * c + 4]
                for r in range(4):
                    acc = None
                    for j in range(4):
                        t = ops.mul(coef[(j - r) % 4], col[j])
                        acc = t if acc is None else ops.xor(acc, t)
                    out.append(acc)
            s = out
    return s


def _py_ops():
    sb = _py_sbox()
    isb = [0] * 256
    for i, v in enumerate(sb):
        isb[v] = i
    return Ops(lambda x: sb[x], lambda x: isb[x], lambda n, x: x if n == 1 else _py_mul(x, n))


def _py_rcon(i):
    v = 1
    for _ in range(i - 1):
        v = _py_xtime(v)
    return v


FIPS_VECTORS = [
    ("000102030405060708090a0b0c0d0e0f", "00112233445566778899aabbccddeeff",
     "69c4e0d86a7b0430d8cdb78070b4c55a"),
    ("000102030405060708090a0b0c0d0e0f1011121314151617", "00112233445566778899aabbccddeeff",
     "dda97ca4864cdfe06eaf70a0ec0d7191"),
    ("000102030405060708090a0b0c0d0e0f101112131415161718191a1b1c1d1e1f",
     "00112233445566778899aabbccddeeff", "8ea2b7ca516745bfeafc49904b496089"),
    # SP 800-38A F.1.1 ECB-AES128 block 1
    ("2b7e151628aed2a6abf7158809cf4f3c", "6bc1bee22e409f96e93d7e117393172a",
     "3ad77bb40d7a3660a89ecaf32466ef97"),
]


def _validate_transcription():
    """the transcription itself against published known answers (not the deciding step)"""
    ops = _py_ops()
    n = 0
    for k, p, c in FIPS_VECTORS:
        rks = fips_expand(list(bytes.fromhex(k)), ops, _py_rcon)
        out = fips_cipher(list(bytes.fromhex(p)), rks, ops)
        assert bytes(out).hex() == c, ("transcription wrong (cipher)", k)
        back = fips_inv_cipher(list(bytes.fromhex(c)), rks, ops)
        assert bytes(back).hex() == p, ("transcription wrong (inverse)", k)
        n += 2
    return n


# ---------------------------------------------------------------------------------------
# K1: tables (E3)
# ---------------------------------------------------------------------------------------

def _ite_table(values, x):
    t = z3.BitVecVal(values[255] & 0xFF, 8)
    for i in range(254, -1, -1):
        t = z3.If(x == i, z3.BitVecVal(values[i] & 0xFF, 8), t)
    return t


def _k1_runner(kernel, tier, params, perturb):
    m = _aes()
    t0 = time.time()
    stats = {"paths": 0, "queries": 0, "q_unsat": 0, "q_sat": 0, "q_unknown": 0, "solver_s": 0.0,
             "paths_with_require": 0, "decisions": 0, "checks": 0}
    cex, samples, inconcl, errors = [], [], [], []
    x = z3.BitVec("x", 8)

    tabs = {"_SBOX": list(m._SBOX), "_INV_SBOX": list(m._INV_SBOX)}
    for n in (2, 3, 9, 11, 13, 14):
        tabs[f"_MUL{n}"] = list(getattr(m, f"_MUL{n}"))
    if perturb == "sbox_bit_flipped":
        tabs["_SBOX"][0x53] ^= 0x01
    if perturb == "mul11_entry":
        tabs["_MUL11"][0x80] ^= 0x10
    for name, v in tabs.items():
        if len(v) != 256 or any((not isinstance(b, int)) or b < 0 or b > 255 for b in v):
            cex.append({"label": "table-shape", "inputs": {"table": name, "len": len(v)}, "info": {}})

    def ask(label, bad, var=x, table=None):
        s = z3.Solver()
        s.set("timeout", 120000)
        s.add(bad)
        t1 = time.time()
        r = s.check()
        stats["solver_s"] += time.time() - t1
        for k in ("paths", "queries", "paths_with_require", "decisions"):
            stats[k] += 1
        stats["q_" + str(r)] += 1
        if len(samples) < 3:
            samples.append({"decisions": [], "pc": [f"{label}: {r}"]})
        if r == z3.sat:
            cex.append({"label": label, "inputs": {"x": s.model().eval(var, model_completion=True).as_long(),
                                                    "table": table}, "info": {}})
        elif r == z3.unknown:
            inconcl.append(f"{label}: unknown")

    if not cex:
        sx = _ite_table(tabs["_SBOX"], x)
        ask("sbox-not-affine-of-inverse",
            z3.Not(z3.If(x == 0, sx == 0x63, clmul_z(x, inv_affine_z(sx)) == 1)), table="_SBOX")
        # affine/inv_affine used above are themselves checked to be mutually inverse
        ask("affine-lemma", inv_affine_z(affine_z(x)) != x)
        ask("inv-sbox-not-inverse", _ite_table(tabs["_INV_SBOX"], sx) != x, table="_INV_SBOX")
        ask("inv-sbox-not-inverse-2", _ite_table(tabs["_SBOX"], _ite_table(tabs["_INV_SBOX"], x)) != x,
            table="_INV_SBOX")
        for n in (2, 3, 9, 11, 13, 14):
            ask(f"mul-table-{n}", _ite_table(tabs[f"_MUL{n}"], x) != clmul_const_z(x, n), table=f"_MUL{n}")
        # Rcon[i] = x^(i-1)
        rc = list(m._RCON)
        i = z3.BitVec("i", 8)
        pw = z3.BitVecVal(1, 8)
        spec = z3.BitVecVal(0, 8)
        terms = []
        for k in range(1, len(rc)):
            terms.append((k, pw))
            pw = xtime_z(pw)
        tab = z3.BitVecVal(0, 8)
        for k in range(len(rc) - 1, 0, -1):
            tab = z3.If(i == k, z3.BitVecVal(rc[k] & 0xFF, 8), tab)
        for k, t in reversed(terms):
            spec = z3.If(i == k, t, spec)
        if len(rc) < 11:
            cex.append({"label": "rcon-too-short", "inputs": {"len": len(rc)}, "info": {}})
        ask("rcon", z3.And(i >= 1, i <= len(rc) - 1, z3.simplify(tab) != z3.simplify(spec)), var=i, table="_RCON")
    return {"stats": stats, "fork_sites": {"repo": {}, "harness": {"table-lemma": stats["queries"]}},
            "notes": {}, "shadows": [], "stubs": [], "cex": cex, "inconclusive": inconcl,
            "errors": errors, "samples": samples, "wall_s": time.time() - t0,
            "e3": {"tables_read_from": "live module attributes at this run"}}


def _k1_replay(kernel, tier, params, inputs):
    """concrete re-check of one table entry against the python-level specification"""
    m = _aes()
    name, x = inputs.get("table"), inputs.get("x")
    if name is None:
        return {"violated": True, "detail": ["table-shape", inputs]}
    tab = list(getattr(m, name))
    if name == "_SBOX":
        ok = tab[x] == _py_sbox()[x]
    elif name == "_INV_SBOX":
        sb = list(m._SBOX)
        ok = tab[sb[x]] == x and sb[tab[x]] == x
    elif name.startswith("_MUL"):
        ok = tab[x] == _py_mul(x, int(name[4:]))
    elif name == "_RCON":
        ok = tab[x] == _py_rcon(x)
    else:
        ok = True
    return {"violated": not ok, "detail": [name, {"x": x, "value": tab[x]}]}


# ---------------------------------------------------------------------------------------
# K1b: real _xtime / _gf_mul (E2)
# ---------------------------------------------------------------------------------------

def k1b_gfmul(ctx):
    m = _aes()
    a = ctx.fresh_bv("a", 8)
    mode = ctx.params.get("mode", "tables")
    if mode == "xtime":
        got = m._xtime(a)
        if ctx.concrete:
            ctx.require(got == _py_xtime(a), "xtime", got=got)
        else:
            ctx.require(got == S.SymBV(xtime_z(a.z)), "xtime")
        return
    if mode == "tables":
        mult = (2, 3, 9, 11, 13, 14)
        b = mult[ctx.choice("multiplier", len(mult))]
    else:
        b = ctx.params["b0"] + ctx.choice("b_low", ctx.params["span"])
    got = m._gf_mul(a, b)
    if ctx.concrete:
        ctx.require(got == _py_mul(a, b), "gf_mul", b=b, got=got)
    else:
        spec = clmul_const_z(a.z, b)
        if ctx.perturb == "wrong_poly":
            spec = spec ^ z3.If(z3.Extract(7, 7, a.z) == 1, z3.BitVecVal(2, 8), z3.BitVecVal(0, 8))
        ctx.require(got == S.SymBV(spec), "gf_mul", b=b)


def _k1b_parts(tier):
    parts = [{"mode": "xtime"}, {"mode": "tables"}]
    if tier == "thorough":
        parts += [{"mode": "all", "b0": b0, "span": 16} for b0 in range(0, 256, 16)]
    return parts


# ---------------------------------------------------------------------------------------
# K2: round functions (E2, single path, fully symbolic state)
# ---------------------------------------------------------------------------------------

def _sem_tables(ctx, m):
    """the xN tables as their semantic functions (justified by K1)"""
    return {f"_MUL{n}": S.FnTable(lambda z, n=n: clmul_const_z(z, n)) for n in (2, 3, 9, 11, 13, 14)}


def _uf_tables():
    sb, isb = S.UFTable("SBOX"), S.UFTable("INV_SBOX")
    sb.inverse, isb.inverse = isb, sb
    t = {"_SBOX": sb, "_INV_SBOX": isb}
    for n in (2, 3, 9, 11, 13, 14):
        t[f"_MUL{n}"] = S.UFTable(f"MUL{n}")
    return t


def _eq_all(got, spec):
    return z3.And(*[(g == s).z if isinstance(g == s, S.SymBool) else z3.BoolVal(bool(g == s))
                    for g, s in zip(got, spec)])


def k2_round_functions(ctx):
    m = _aes()
    which = ctx.params["fn"]
    st = [ctx.fresh_bv(f"s{i}", 8) for i in range(16)]
    key = [ctx.fresh_bv(f"k{i}", 8) for i in range(16)]
    state = list(st)
    if ctx.concrete:
        ops = _py_ops()
        mul = ops.mul
        sbf, isbf = ops.sb, ops.isb
        tabs = {}
    else:
        uf = _uf_tables()
        tabs = dict(uf)
        tabs.update(_sem_tables(ctx, m))
        mul = lambda n, x: x if n == 1 else S.SymBV(clmul_const_z(x.z, n))
        sbf = lambda x: uf["_SBOX"][x]
        isbf = lambda x: uf["_INV_SBOX"][x]

    def matrix(col_state, coef):
        out = []
        for c in range(4):
            col = col_state[4 * c:4 * c + 4]
            for r in range(4):
                acc = None
                for j in range(4):
                    t = mul(coef[(j - r) % 4], col[j])
                    acc = t if acc is None else acc ^ t
                out.append(acc)
        return out

    with ctx.shadow(m, **tabs):
        if which == "shift_rows":
            m._shift_rows(state)
            spec = [st[r + 4 * ((c + r) % 4)] for c in range(4) for r in range(4)]
            if ctx.perturb == "shift_direction":
                spec = [st[r + 4 * ((c - r) % 4)] for c in range(4) for r in range(4)]
        elif which == "inv_shift_rows":
            m._inv_shift_rows(state)
            spec = [st[r + 4 * ((c - r) % 4)] for c in range(4) for r in range(4)]
        elif which == "shift_inverse":
            m._shift_rows(state)
            m._inv_shift_rows(state)
            spec = st
        elif which == "mix_columns":
            m._mix_columns(state)
            spec = matrix(st, [2, 3, 1, 1] if ctx.perturb != "mix_coeff" else [3, 2, 1, 1])
        elif which == "inv_mix_columns":
            m._inv_mix_columns(state)
            spec = matrix(st, [14, 11, 13, 9])
        elif which == "mix_inverse":
            m._mix_columns(state)
            m._inv_mix_columns(state)
            spec = st
        elif which == "add_round_key":
            m._add_round_key(state, key)
            spec = [a ^ b for a, b in zip(st, key)]
        elif which == "sub_bytes":
            m._sub_bytes(state)
            spec = [sbf(a) for a in st]
        elif which == "inv_sub_bytes":
            m._inv_sub_bytes(state)
            spec = [isbf(a) for a in st]
        else:
            raise KeyError(which)
    if ctx.concrete:
        ctx.require(list(state) == list(spec), which, state=[int(x) for x in state])
    else:
        # one query per output byte (each depends on at most one column = 32 input bits)
        for i, (g, sp) in enumerate(zip(state, spec)):
            r = (g == sp)
            ctx.require(r.z if isinstance(r, S.SymBool) else bool(r), which, byte=i)


K2_FUNCS = ["shift_rows", "inv_shift_rows", "shift_inverse", "mix_columns", "inv_mix_columns",
            "add_round_key", "sub_bytes", "inv_sub_bytes", "mix_inverse"]


# ---------------------------------------------------------------------------------------
# K3: key schedule + block cipher (E2, tables abstracted)
# ---------------------------------------------------------------------------------------

def k3_cipher(ctx):
    m = _aes()
    nbytes = ctx.params["key_bytes"]
    what = ctx.params["what"]
    key = [ctx.fresh_bv(f"key{i}", 8) for i in range(nbytes)]
    blk = [ctx.fresh_bv(f"blk{i}", 8) for i in range(16)]
    if ctx.concrete:
        ops = _py_ops()
        rks_spec = fips_expand(list(key), ops, _py_rcon)
        rks = m._expand_key(bytes(key))
        ctx.require([list(r) for r in rks] == rks_spec, "key-schedule")
        if what == "encrypt":
            ctx.require(list(m._aes_encrypt_block(bytes(blk), rks)) == fips_cipher(list(blk), rks_spec, ops),
                        "encrypt-block")
        else:
            ctx.require(list(m._aes_decrypt_block(bytes(blk), rks)) == fips_inv_cipher(list(blk), rks_spec, ops),
                        "decrypt-block")
        return
    uf = _uf_tables()
    ops = Ops(lambda x: uf["_SBOX"][x], lambda x: uf["_INV_SBOX"][x],
              lambda n, x: x if n == 1 else uf[f"_MUL{n}"][x])
    rcon_live = m._RCON
    with ctx.shadow(m, bytes=S.sym_bytes, **uf):
        rks = m._expand_key(S.SymBytes(key))
        # Rcon values are concrete table entries proved by K1; the spec uses x^(i-1) itself
        rks_spec = fips_expand(list(key), ops, _py_rcon)
        if ctx.perturb == "rcon_shifted":
            rks_spec = fips_expand(list(key), ops, lambda i: _py_rcon(i + 1))
        ok_ks = z3.And(*[_eq_all(list(r), s) for r, s in zip(rks, rks_spec)])
        ctx.require(len(rks) == len(rks_spec), "round-key-count", got=len(rks))
        ctx.require(ok_ks, "key-schedule")
        if what == "encrypt":
            out = m._aes_encrypt_block(S.SymBytes(blk), rks)
            spec = fips_cipher(list(blk), rks_spec, ops, ctx.perturb)
            ctx.require(_eq_all(list(out), spec), "encrypt-block")
        else:
            out = m._aes_decrypt_block(S.SymBytes(blk), rks)
            spec = fips_inv_cipher(list(blk), rks_spec, ops, ctx.perturb)
            ctx.require(_eq_all(list(out), spec), "decrypt-block")


def _k3_parts(tier):
    return [{"key_bytes": kb, "what": w} for kb in (16, 24, 32) for w in ("encrypt", "decrypt")]


def _k3_kat_runner(kernel, tier, params, perturb):
    """known answers through the REAL code and the transcription (validates the
    transcription and the table abstraction; not the deciding step)"""
    m = _aes()
    t0 = time.time()
    cex = []
    n = 0
    try:
        n = _validate_transcription()
    except AssertionError as e:
        return {"stats": {"paths": 0}, "fork_sites": {"repo": {}, "harness": {}}, "notes": {}, "shadows": [],
                "stubs": [], "cex": [], "inconclusive": [], "errors": [f"FIPS transcription fails its own "
                                                                         f"known answers: {e}"],
                "samples": [], "wall_s": time.time() - t0}
    for k, p, c in FIPS_VECTORS:
        got = m.aes_ecb_encrypt(bytes.fromhex(k), bytes.fromhex(p)).hex()
        back = m.aes_ecb_decrypt(bytes.fromhex(k), bytes.fromhex(c)).hex()
        n += 2
        if (got != c or back != p) and not perturb:
            cex.append({"label": "known-answer", "inputs": {"key": k, "pt": p}, "info": {"got": got}})
    if perturb == "kat_wrong_expected":
        cex.append({"label": "known-answer", "inputs": {"key": "x", "pt": "y"}, "info": {}})
    st = {"paths": n, "queries": 0, "q_unsat": 0, "q_sat": 0, "q_unknown": 0, "solver_s": 0.0,
          "paths_with_require": n, "decisions": n, "checks": 0}
    return {"stats": st, "fork_sites": {"repo": {}, "harness": {"kat": n}}, "notes": {}, "shadows": [],
            "stubs": [], "cex": cex, "inconclusive": [], "errors": [],
            "samples": [{"decisions": [], "pc": ["FIPS-197 C.1-C.3, SP800-38A F.1.1 through real code + transcription"]}],
            "wall_s": time.time() - t0}


def _kat_replay(kernel, tier, params, inputs):
    m = _aes()
    for k, p, c in FIPS_VECTORS:
        if k == inputs.get("key"):
            return {"violated": m.aes_ecb_encrypt(bytes.fromhex(k), bytes.fromhex(p)).hex() != c or
                    m.aes_ecb_decrypt(bytes.fromhex(k), bytes.fromhex(c)).hex() != p,
                    "detail": ["known-answer", {}]}
    return {"violated": False, "detail": None}


# ---------------------------------------------------------------------------------------
# K4: modes, padding, wrapper (E2, block cipher = uninterpreted keyed bijection)
# ---------------------------------------------------------------------------------------

class BlockUF:
    """E/D as uninterpreted functions BV128 x Key -> BV128 with D(E(x,k),k) = x and
    E(D(x,k),k) = x applied as rewrites"""

    def __init__(self):
        self.memo = {}

    def _word(self, blk):
        parts = []
        for e in list(blk):
            if isinstance(e, S.SymBV):
                parts.append(e.z if e.w == 8 else z3.Extract(7, 0, e.z))
            else:
                parts.append(z3.BitVecVal(int(e), 8))
        return z3.simplify(z3.Concat(*parts))

    def _bytes(self, w):
        return S.SymBytes([S.SymBV(z3.simplify(z3.Extract(127 - 8 * i, 120 - 8 * i, w)), 8) for i in range(16)])

    def apply(self, name, inv, blk, key_id):
        w = self._word(blk)
        hit = self.memo.get((inv, key_id, w.get_id()))
        if hit is not None:
            return self._bytes(hit)
        f = z3.Function(f"{name}_{key_id}", z3.BitVecSort(128), z3.BitVecSort(128))
        out = f(w)
        self.memo[(name, key_id, out.get_id())] = w
        self._keep = getattr(self, "_keep", []) + [w, out]
        return self._bytes(out)


def _wrapper_closures(m):
    """the CryptAES method bodies installed by patch_pypdf_fallback_aes, taken from the
    function's code constants (so nothing in pypdf is patched by the check)"""
    out = {}
    for c in m.patch_pypdf_fallback_aes.__code__.co_consts:
        if isinstance(c, types.CodeType):
            out[c.co_name] = types.FunctionType(c, vars(m))
    return out


def k4_modes(ctx):
    m = _aes()
    what = ctx.params["what"]
    nb = ctx.choice("n_blocks", ctx.params.get("max_blocks", 3) + 1)
    buf = BlockUF()

    def enc_blk(block, rk):
        if len(block) != 16:
            raise ValueError("Invalid AES block size")
        return buf.apply("E", "D", block, rk)

    def dec_blk(block, rk):
        if len(block) != 16:
            raise ValueError("Invalid AES block size")
        return buf.apply("D", "E", block, rk)

    if ctx.concrete:
        key = bytes(range(16))
        data = ctx.fresh_bytes("data", 16 * nb)
        iv = ctx.fresh_bytes("iv", 16)
        # concrete replay runs the real block cipher: check round trip + CBC/ECB structure
        if what == "ecb":
            c = m.aes_ecb_encrypt(key, data)
            ok = all(c[16 * i:16 * i + 16] == m.aes_ecb_encrypt(key, data[16 * i:16 * i + 16]) for i in range(nb))
            ctx.require(ok and m.aes_ecb_decrypt(key, c) == data, "ecb")
        elif what == "cbc":
            c = m.aes_cbc_encrypt(key, iv, data)
            prev, ok = iv, True
            for i in range(nb):
                blk = bytes(a ^ b for a, b in zip(data[16 * i:16 * i + 16], prev))
                prev = m.aes_ecb_encrypt(key, blk)
                ok = ok and c[16 * i:16 * i + 16] == prev
            ctx.require(ok and m.aes_cbc_decrypt(key, iv, c) == data, "cbc")
        return
    data = ctx.fresh_bytes("data", 16 * nb)
    iv = ctx.fresh_bytes("iv", 16)
    with ctx.shadow(m, bytes=S.sym_bytes, bytearray=S.sym_bytearray, memoryview=S.sym_memoryview,
                    _aes_encrypt_block=enc_blk, _aes_decrypt_block=dec_blk,
                    _get_round_keys=lambda key: "k"):
        if what == "ecb":
            c = m.aes_ecb_encrypt("key", data)
            spec = []
            for i in range(nb):
                spec += list(enc_blk(data[16 * i:16 * i + 16], "k"))
            ctx.require(len(c) == 16 * nb, "ecb-length")
            if nb:
                ctx.require(_eq_all(list(c), spec), "ecb-blocks-independent")
            back = m.aes_ecb_decrypt("key", c)
            if nb:
                ctx.require(_eq_all(list(back), list(data)), "ecb-decrypt-inverts")
        else:
            c = m.aes_cbc_encrypt("key", iv, data)
            prev = iv
            spec = []
            for i in range(nb):
                x = S.SymBytes([a ^ b for a, b in zip(data[16 * i:16 * i + 16], prev)])
                if ctx.perturb == "cbc_chain_plain" and i > 0:
                    x = S.SymBytes([a ^ b for a, b in zip(data[16 * i:16 * i + 16], data[16 * i - 16:16 * i])])
                prev = enc_blk(x, "k")
                spec += list(prev)
            ctx.require(len(c) == 16 * nb, "cbc-length")
            if nb:
                ctx.require(_eq_all(list(c), spec), "cbc-chaining")
            back = m.aes_cbc_decrypt("key", iv, c)
            if nb:
                ctx.require(_eq_all(list(back), list(data)), "cbc-decrypt-inverts")
            # decryption of an arbitrary ciphertext follows the CBC equations too
            c2 = ctx.fresh_bytes("ct", 16 * nb)
            p2 = m.aes_cbc_decrypt("key", iv, c2)
            prev = iv
            spec = []
            for i in range(nb):
                blk = c2[16 * i:16 * i + 16]
                spec += [a ^ b for a, b in zip(dec_blk(blk, "k"), prev)]
                prev = blk
            if nb:
                ctx.require(_eq_all(list(p2), spec), "cbc-decrypt-equations")


def k4_lengths(ctx):
    """ValueError <=> wrong key / iv / data length (lengths symbolic, contents irrelevant)"""
    m = _aes()
    klen = ctx.choice("key_len", 41)
    dlen = ctx.choice("data_len", 34)
    ivlen = 15 + ctx.choice("iv_len_minus_15", 3)
    mode = ctx.params["mode"]
    key, data, iv = bytes(klen), bytes(dlen), bytes(ivlen)
    fn = [lambda: m.aes_ecb_encrypt(key, data), lambda: m.aes_ecb_decrypt(key, data),
          lambda: m.aes_cbc_encrypt(key, iv, data), lambda: m.aes_cbc_decrypt(key, iv, data)][mode]
    should_fail = (klen not in (16, 24, 32)) or (dlen % 16 != 0) or (mode >= 2 and ivlen != 16)
    try:
        out = fn()
        raised = None
    except ValueError:
        raised = "ValueError"
    except Exception as e:
        raised = type(e).__name__
    if should_fail:
        ctx.require(raised == "ValueError", "bad-length-not-rejected-with-ValueError",
                    key_len=klen, data_len=dlen, iv_len=ivlen, mode=mode, raised=raised)
    else:
        ctx.require(raised is None and len(out) == dlen, "good-lengths-rejected",
                    key_len=klen, data_len=dlen, mode=mode, raised=raised)


def k4_padding(ctx):
    """pad/unpad round trip for every length with symbolic content; unpad of arbitrary data
    removes exactly a valid PKCS#7 tail or raises ValueError"""
    m = _aes()
    n = ctx.choice("length", ctx.params.get("max_len", 48) + 1)
    data = ctx.fresh_bytes("data", n)
    with ctx.shadow(m, bytes=S.sym_bytes):
        padded = m._pkcs7_pad(data, 16)
        ctx.require(len(padded) % 16 == 0 and 1 <= len(padded) - n <= 16, "pad-length", n=n, got=len(padded))
        try:
            back = m._pkcs7_unpad(padded, 16)
        except Exception as e:
            ctx.fail("valid-padding-rejected", n=n, exc=type(e).__name__)
            return
        r = (back == data)
        ctx.require(r if not isinstance(r, S.SymBool) else r.z, "unpad-pad-roundtrip", n=n)
        # arbitrary (non-empty, block-aligned) plaintext tail
        if n and n % 16 == 0:
            try:
                out = m._pkcs7_unpad(data, 16)
                raised = False
            except ValueError:
                raised = True
            last = data[n - 1]
            if raised:
                # must not have been a valid padding: exists no p in 1..16 with tail == p*p
                valid = z3.Or(*[z3.And(*[(data[n - 1 - j] == p).z if not ctx.concrete else
                                         z3.BoolVal(data[n - 1 - j] == p) for j in range(p)])
                                for p in range(1, 17)]) if not ctx.concrete else \
                    any(all(data[n - 1 - j] == p for j in range(p)) for p in range(1, 17))
                ctx.require(z3.Not(valid) if not ctx.concrete else (not valid), "valid-padding-rejected", n=n)
            else:
                k = n - len(out)
                ctx.require(1 <= k <= 16, "unpad-removed-wrong-count", removed=k)
                conds = [(data[n - 1 - j] == k) for j in range(k)]
                ctx.require(z3.And(*[c.z if isinstance(c, S.SymBool) else z3.BoolVal(bool(c)) for c in conds])
                            if not ctx.concrete else all(conds), "unpad-removed-non-padding", removed=k)
                r2 = (out == data[:n - k])
                ctx.require(r2 if not isinstance(r2, S.SymBool) else r2.z, "unpad-changed-payload")


def k4_wrapper(ctx):
    """CryptAES.encrypt/decrypt as installed by patch_pypdf_fallback_aes: IV prepended, data
    padded, decrypt(encrypt(d)) == d; block cipher abstracted (symbolic) / real (replay)"""
    m = _aes()
    cl = _wrapper_closures(m)
    n = ctx.choice("length", ctx.params.get("max_len", 33) + 1)
    data = ctx.fresh_bytes("data", n)
    iv = ctx.fresh_bytes("iv", 16)

    class Obj:
        key = bytes(range(16))

    class Secrets:
        @staticmethod
        def token_bytes(k):
            assert k == 16
            return iv
    buf = BlockUF()
    shadows = {}
    if not ctx.concrete:
        shadows = dict(bytes=S.sym_bytes, bytearray=S.sym_bytearray, memoryview=S.sym_memoryview,
                       _aes_encrypt_block=lambda b, rk: buf.apply("E", "D", b, rk),
                       _aes_decrypt_block=lambda b, rk: buf.apply("D", "E", b, rk),
                       _get_round_keys=lambda key: "k")
    with ctx.shadow(m, **shadows), ctx.stub(m, secrets=Secrets):
        try:
            enc = cl["_cryptaes_encrypt"](Obj(), data)
        except Exception as e:
            ctx.fail("wrapper-encrypt-raised", n=n, exc=type(e).__name__)
            return
        ctx.require(len(enc) == 16 + 16 * (n // 16 + 1), "wrapper-length", n=n, got=len(enc))
        r = (enc[:16] == iv)
        ctx.require(r if not isinstance(r, S.SymBool) else r.z, "iv-not-prepended")
        try:
            dec = cl["_cryptaes_decrypt"](Obj(), enc)
        except Exception as e:
            ctx.fail("wrapper-roundtrip", n=n, exc=type(e).__name__)
            return
        r = (dec == data)
        ctx.require(r if not isinstance(r, S.SymBool) else r.z, "wrapper-roundtrip", n=n)
        if not ctx.concrete:
            # ciphertext body is CBC(iv, pad(data))
            padded = m._pkcs7_pad(data, 16)
            body = m.aes_cbc_encrypt("key", iv, padded)
            r = (enc[16:] == body)
            ctx.require(r if not isinstance(r, S.SymBool) else r.z, "wrapper-body-not-cbc-of-padded")


def _targets_tables():
    m = _aes()
    return [m._xtime, m._gf_mul, m._build_mul_table, m._build_rcon]


def _targets_round():
    m = _aes()
    return [m._shift_rows, m._inv_shift_rows, m._mix_columns, m._inv_mix_columns, m._add_round_key,
            m._sub_bytes, m._inv_sub_bytes]


def _targets_cipher():
    m = _aes()
    return [m._expand_key, m._rot_word, m._sub_word, m._aes_encrypt_block, m._aes_decrypt_block] + _targets_round()


def _targets_modes():
    m = _aes()
    return [m.aes_ecb_encrypt, m.aes_ecb_decrypt, m.aes_cbc_encrypt, m.aes_cbc_decrypt, m._chunks,
            m._pkcs7_pad, m._pkcs7_unpad, m.patch_pypdf_fallback_aes, m._get_round_keys]


k1 = Kernel("K1", "S-box / inverse S-box / xN tables / Rcon equal their GF(2^8) definitions for all 256 inputs",
            None, engine="E3", runner=_k1_runner, targets=_targets_tables,
            perturb=["sbox_bit_flipped", "mul11_entry"],
            symbolic=["table index x (8-bit), one universally quantified query per table"],
            assumptions=["tables are read from the imported module at run time (no cached encoding)"])
k1.replayer = _k1_replay
kat = Kernel("K3v", "FIPS-197 App. C / SP 800-38A known answers through real code and transcription",
             None, engine="E3", runner=_k3_kat_runner, targets=_targets_cipher, core=False,
             strength="structure", perturb=["kat_wrong_expected"])
kat.replayer = _kat_replay

KERNELS = [
    k1,
    Kernel("K1b", "real _xtime/_gf_mul on a symbolic byte == carry-less multiplication mod 0x11B",
           k1b_gfmul, targets=_targets_tables, parts=_k1b_parts, perturb=[("wrong_poly", {"mode": "tables"})],
           symbolic=["a (8-bit)", "multiplier b: the six table multipliers; thorough: all 256"]),
    Kernel("K2", "real round functions on a fully symbolic 16-byte state == FIPS-197 definitions",
           k2_round_functions, targets=_targets_round,
           parts=lambda tier: [{"fn": f} for f in K2_FUNCS],
           perturb=[("mix_coeff", {"fn": "mix_columns"}), ("shift_direction", {"fn": "shift_rows"})],
           symbolic=["16 state bytes", "16 round-key bytes"],
           assumptions=["xN tables replaced by their GF(2^8) functions and S-boxes by mutually inverse "
                        "uninterpreted functions - justified by K1's table lemmas"],
           solver_timeout_ms=600000, timeout={"quick": 300, "thorough": 1500}),
    Kernel("K3", "real _expand_key/_aes_encrypt_block/_aes_decrypt_block == FIPS-197 transcription, all keys and blocks",
           k3_cipher, targets=_targets_cipher, parts=_k3_parts,
           perturb=[("mixcolumns_coeff_swapped", {"key_bytes": 16, "what": "encrypt"}),
                    ("rcon_shifted", {"key_bytes": 16, "what": "encrypt"}),
                    ("inv_coeff_swapped", {"key_bytes": 16, "what": "decrypt"})],
           symbolic=["16/24/32 key bytes", "16 block bytes"],
           assumptions=["S-box, inverse S-box and xN tables abstracted as uninterpreted functions (K1 proves the "
                        "tables equal the FIPS definitions; the transcription uses the same symbols)",
                        "decrypt(encrypt(b)) = b follows from equality with FIPS Cipher/InvCipher plus K1 "
                        "(inverse S-box) and K2 (inv_mix o mix = id, inv_shift o shift = id)"],
           solver_timeout_ms=600000, timeout={"quick": 400, "thorough": 1500}),
    kat,
    Kernel("K4", "real ECB/CBC drivers: block independence, chaining equations, decrypt inverts encrypt",
           k4_modes, targets=_targets_modes,
           parts=lambda tier: [{"what": w, "max_blocks": 3 if tier == "quick" else 5} for w in ("ecb", "cbc")],
           perturb=[("cbc_chain_plain", {"what": "cbc", "max_blocks": 3})],
           stubs=["_aes_encrypt_block/_aes_decrypt_block -> uninterpreted keyed bijection E/D on 128-bit words",
                  "_get_round_keys -> key token"],
           symbolic=["data of 0..3 (5) blocks", "iv", "arbitrary ciphertext"], choices=["number of blocks"]),
    Kernel("K4l", "ValueError <=> wrong key / IV / data length", k4_lengths, targets=_targets_modes,
           strength="structure", choices=["key length 0..40", "data length 0..33", "iv length 15..17", "mode"],
           parts=lambda tier: [{"mode": i} for i in range(4)],
           timeout={"quick": 300, "thorough": 900}),
    Kernel("K4p", "PKCS#7 pad/unpad: round trip for every length, unpad removes exactly a valid tail",
           k4_padding, targets=_targets_modes,
           bounds={"quick": {"max_len": 33}, "thorough": {"max_len": 64}},
           symbolic=["content bytes"], choices=["length"]),
    Kernel("K4w", "stream wrapper: fresh IV prepended, pads on encrypt, removes exactly that padding on decrypt",
           k4_wrapper, targets=_targets_modes,
           bounds={"quick": {"max_len": 33}, "thorough": {"max_len": 64}},
           stubs=["secrets.token_bytes -> arbitrary 16 symbolic bytes", "block cipher -> keyed bijection"],
           symbolic=["content bytes", "iv"], choices=["length"]),
]

META = {
    "level_text": "Lemma decomposition decided by z3 over the live tables and the real functions: each byte table "
                  "equals its GF(2^8) definition for all 256 inputs; the real round functions, key schedule and "
                  "block cipher, executed on fully symbolic keys (128/192/256) and blocks, are term-equal to a "
                  "FIPS-197 transcription; the real ECB/CBC drivers and the stream wrapper satisfy the mode "
                  "equations for 0..3 (5) symbolic blocks with the block cipher as an uninterpreted bijection.",
    "level_note": "Trusted: the FIPS-197 transcription in the harness (validated on the Appendix C / SP 800-38A "
                  "vectors); abstraction of tables as functions is justified by kernel K1. Outside: messages "
                  "longer than the block bound (loop body identical per block), pypdf's own use of the provider.",
    "technique": "z3 bit-vector lemmas over live tables + symbolic execution of the real AES functions on "
                 "SymBV proxies with uninterpreted S-box/xN functions, equality with a FIPS-197 transcription",
}
