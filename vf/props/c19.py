"""C19 - OMML -> LaTeX conversion is total, deterministic, order-preserving and balanced."""
from xml.etree import ElementTree as ET

from vf.core import Kernel
from vf import symrun as S

M = "{http://schemas.openxmlformats.org/officeDocument/2006/math}"


def _mod():
    import sharepoint2text.parsing.extractors.util.omml_to_latex as m
    return m


# operand slots per structural element (OMML spec / converter docstring)
SLOTS = {
    "f": ["num", "den"], "sSup": ["e", "sup"], "sSub": ["e", "sub"], "sSubSup": ["e", "sub", "sup"],
    "rad": ["deg", "e"], "nary": ["sub", "sup", "e"], "d": ["e"], "func": ["fName", "e"],
    "bar": ["e"], "acc": ["e"],
}
KINDS = ["r", "f", "sSup", "sSub", "sSubSup", "rad", "nary", "d", "m", "func", "bar", "acc", "prop", "box"]
# run texts: unique tokens Qn are used to count "exactly once, in order"
TEXTS = ["Q", "Qα", "(", "[", ")", "]", " ", "", "sin", "Q{", "αQ)"]
SIMPLE_KINDS = ["r", "f", "sSup", "rad", "nary", "d", "func", "acc"]
NARY_OPS = ["∑", "∫", "∏", "⋃", ""]
DELIMS = ["(", "[", "|", "", "{"]
ACCENTS = ["̂", "̃", "⃗", "x"]


class Gen:
    """symbolic structure -> real ET.Element tree + abstract description"""

    def __init__(self, ctx):
        self.ctx = ctx
        self.n_run = 0
        self.runs = []          # (token or None, raw text) in document order
        self.has_brace_text = False
        self.malformed_rad = False
        self.k = 0
        self.second = ctx.params.get("second")      # thorough tier: level-2 kind fixed per part
        self.flag_budget = ctx.params.get("run_flag_budget")   # runs whose m:rPr presence is a choice

    def nm(self, s):
        self.k += 1
        return f"{s}{self.k}"

    def run(self, parent, texts=None):
        ctx = self.ctx
        texts = texts or TEXTS
        t = texts[ctx.choice(self.nm("text"), len(texts))]
        tok = None
        if "Q" in t:
            tok = f"Q{self.n_run}"
            t = t.replace("Q", tok)
            self.n_run += 1
        if "{" in t or "}" in t:
            self.has_brace_text = True
        r = ET.SubElement(parent, M + "r")
        if self.flag_budget is None or len(self.runs) < self.flag_budget:
            if ctx.flag(self.nm("rPr")):
                ET.SubElement(r, M + "rPr")
        te = ET.SubElement(r, M + "t")
        te.text = t if t != "" or ctx.flag(self.nm("empty_as_text")) else None
        self.runs.append((tok, t))
        return ("r", t)

    def node(self, parent, depth, kinds=None, simple=False, leaf_texts=None):
        ctx = self.ctx
        kinds = kinds or (SIMPLE_KINDS if simple else KINDS)
        if simple and self.second and depth == self.ctx.params.get("depth", 2) - 1:
            kinds = [self.second]
        if depth <= 0:
            return self.run(parent, (leaf_texts or ["Q"]) if simple else None)
        kind = kinds[ctx.choice(self.nm("kind"), len(kinds))]
        if kind == "r":
            return self.run(parent, ["Q", "(", ")", "αQ)"] if simple else None)
        if kind == "prop":
            ET.SubElement(parent, M + "ctrlPr")
            return ("prop",)
        if kind == "box":
            b = ET.SubElement(parent, M + "box")
            return ("box", self.node(b, depth - 1, simple=True))
        el = ET.SubElement(parent, M + kind)
        desc = {"kind": kind, "ops": {}}
        if kind == "m":
            rows = 1 + ctx.choice(self.nm("rows"), 2)
            cols = 1 + ctx.choice(self.nm("cols"), 2)
            if ctx.flag(self.nm("mPr")):
                ET.SubElement(el, M + "mPr")
            grid = []
            for ri in range(rows):
                mr = ET.SubElement(el, M + "mr")
                row = []
                for ci in range(cols):
                    e = ET.SubElement(mr, M + "e")
                    # the last cell ranges over the simple child alphabet, the others hold a token; the
                    # first cell may be empty (sparse / diagonal matrices)
                    last = (ri == rows - 1 and ci == cols - 1)
                    if ri == 0 and ci == 0 and not last and ctx.flag(self.nm("empty_first_cell")):
                        row.append(("empty",))
                    else:
                        row.append(self.node(e, depth - 1, simple=True) if last else self.run(e, ["Q"]))
                    desc.setdefault("cells", []).append(e)
                grid.append(row)
            desc["grid"] = grid
            desc["shape"] = (rows, cols)
            return desc
        # property child with optional chr / begChr / endChr, attribute present or absent
        if kind in ("nary", "acc"):
            if simple or ctx.flag(self.nm("pr")):
                pr = ET.SubElement(el, M + (kind + "Pr"))
                if simple or ctx.flag(self.nm("chr")):
                    c = ET.SubElement(pr, M + "chr")
                    if simple or ctx.flag(self.nm("chr_val")):
                        vals = NARY_OPS if kind == "nary" else ACCENTS
                        v = vals[0] if simple else vals[ctx.choice(self.nm("chr_v"), len(vals))]
                        c.set(M + "val", v)
                        desc["chr"] = v
                    else:
                        desc["chr"] = "NOVAL"
        if kind == "d" and not simple:
            if ctx.flag(self.nm("dPr")):
                pr = ET.SubElement(el, M + "dPr")
                for which in ("begChr", "endChr"):
                    if ctx.flag(self.nm(which)):
                        c = ET.SubElement(pr, M + which)
                        if ctx.flag(self.nm(which + "_val")):
                            v = DELIMS[ctx.choice(self.nm(which + "_v"), len(DELIMS))]
                            c.set(M + "val", v)
                            desc[which] = v
                            if v in "{}" and v:
                                self.has_brace_text = True
                        else:
                            desc[which] = "NOVAL"
        if kind == "rad" and not simple and ctx.flag(self.nm("radPr")):
            pr = ET.SubElement(el, M + "radPr")
            ET.SubElement(pr, M + "degHide").set(M + "val", "1")
        n_e = 1
        if kind == "d" and not simple:
            n_e = ctx.choice(self.nm("d_n_e"), 3)
        # one operand slot (the focus) ranges over the full child alphabet, the others hold a
        # plain token run: keeps every feature reachable without the full product
        # (in the simple alphabet every slot is filled; with sub-trees of depth >= 2 below it - thorough
        # tier - again only a chosen focus slot carries one, or the product explodes)
        all_slots = simple and depth <= 1
        focus = None if all_slots else SLOTS[kind][ctx.choice(self.nm("focus"), len(SLOTS[kind]))]
        for slot in SLOTS[kind]:
            reps = n_e if (kind == "d" and slot == "e") else 1
            for rep in range(reps):
                if not simple and kind != "d" and not ctx.flag(self.nm("has_" + slot)):
                    desc["ops"].setdefault(slot, None)
                    continue
                s = ET.SubElement(el, M + slot)
                if all_slots or (slot == focus and rep == 0):
                    # a radical's operand may be the documented malformed lone bracket
                    child = self.node(s, depth - 1, simple=True,
                                      leaf_texts=["Q", "("] if (kind == "rad" and slot == "e") else None)
                else:
                    # below the first level (thorough tier) the other operands may also be a closing bracket
                    child = self.run(s, ["Q", ")"] if (simple and not all_slots) else ["Q"])
                desc["ops"].setdefault(slot, [])
                desc["ops"][slot].append((s, child))
                if kind == "rad" and slot == "e" and isinstance(child, tuple) and child[0] == "r" \
                        and child[1].strip() in ("(", "[", "{"):
                    self.malformed_rad = True
        return desc


def _balanced(s):
    d = 0
    for ch in s:
        if ch == "{":
            d += 1
        elif ch == "}":
            d -= 1
            if d < 0:
                return False
    return d == 0


def _wrap(elems):
    root = ET.Element(M + "oMath")
    for e in elems:
        root.append(e)
    return root


def k1_tree(ctx):
    m = _mod()
    g = Gen(ctx)
    root = ET.Element(M + "oMath")
    first = ctx.params.get("first")
    depth = ctx.params.get("depth", 2)
    descs = [g.node(root, depth, kinds=[first] if first else None)]
    if first in ("r", "rad", "sSup", "box") and ctx.flag("second_sibling"):
        descs.append(g.node(root, 1, kinds=["r", "rad", "sSup"], simple=True))
    xml = ET.tostring(root, encoding="unicode")
    try:
        out = m.omml_to_latex(root)
    except Exception as e:
        ctx.fail("conversion-raised", exc=type(e).__name__, msg=str(e)[:80], xml=xml)
        return
    ctx.require(isinstance(out, str), "result-not-str", xml=xml)
    out2 = m.omml_to_latex(root)
    ctx.require(out == out2, "not-deterministic", xml=xml, out=out, out2=out2)
    # every run's text once, in order
    pos = -1
    for tok, raw in g.runs:
        if tok is None:
            continue
        ctx.require(out.count(tok) == 1, "run-text-lost-or-duplicated", token=tok, count=out.count(tok),
                    xml=xml, out=out)
        ctx.require(out.find(tok) > pos, "run-text-out-of-order", token=tok, xml=xml, out=out)
        pos = out.find(tok)
    for tok, raw in g.runs:
        if "α" in raw:
            ctx.require(out.count("\\alpha") >= 1 and "α" not in out, "greek-not-mapped", xml=xml, out=out)
    if not g.has_brace_text:
        ctx.require(_balanced(out) if ctx.perturb != "expect_unbalanced" else not _balanced(out),
                    "unbalanced-braces", xml=xml, out=out)
    ctx.require("None" not in out, "python-None-in-output", xml=xml, out=out)
    # structural templates, compositional: operands rendered by the converter itself
    if not g.malformed_rad:
        for d in descs:
            _check_template(ctx, m, d, out if len(descs) == 1 else None, xml)
        if len(descs) > 1:
            # no documented malformed radical in the formula: what follows an element does not change how it is
            # rendered - the whole is the concatenation of the top-level children converted one by one
            parts_ = []
            for child in list(root):
                solo = ET.Element(M + "oMath")
                solo.append(child)
                parts_.append(m.omml_to_latex(solo))
            ctx.require(out == "".join(parts_), "siblings-not-rendered-independently", xml=xml, out=out,
                        one_by_one=parts_)


def _conv(m, slot_entry):
    """convert(operand) := converter applied to the operand element's children"""
    if not slot_entry:
        return ""
    s, _child = slot_entry[0]
    return m.omml_to_latex(s)


def _check_template(ctx, m, d, whole, xml):
    if not isinstance(d, dict):
        if isinstance(d, tuple) and d and d[0] == "box":
            _check_template(ctx, m, d[1], whole, xml)
        return
    kind, ops = d["kind"], d.get("ops", {})
    if whole is None:
        return
    c = lambda slot: _conv(m, ops.get(slot))
    exp = None
    if kind == "f":
        exp = "\\frac{%s}{%s}" % (c("num"), c("den"))
    elif kind == "sSup":
        exp = "%s^{%s}" % (c("e"), c("sup"))
    elif kind == "sSub":
        exp = "%s_{%s}" % (c("e"), c("sub"))
    elif kind == "sSubSup":
        exp = "%s_{%s}^{%s}" % (c("e"), c("sub"), c("sup"))
    elif kind == "rad":
        deg = c("deg").strip()
        exp = ("\\sqrt[%s]{%s}" % (deg, c("e"))) if deg else ("\\sqrt{%s}" % c("e"))
    elif kind == "bar":
        exp = "\\overline{%s}" % c("e")
    elif kind == "func":
        fn = c("fName")
        known = {"sin": "\\sin", "cos": "\\cos", "tan": "\\tan", "log": "\\log", "ln": "\\ln", "lim": "\\lim",
                 "exp": "\\exp", "max": "\\max", "min": "\\min"}
        exp = "%s{%s}" % (known.get(fn.strip(), fn), c("e"))
    elif kind == "nary":
        op = d.get("chr", "∑")
        if op == "NOVAL":
            return
        name = {"∑": "\\sum", "∫": "\\int", "∏": "\\prod"}.get(op)
        if name is None:
            return
        ctx.require(whole.startswith(name), "nary-operator-form", expected=name, out=whole, xml=xml)
        sub, sup, e = c("sub"), c("sup"), c("e")
        if sub.strip():
            ctx.require("_{%s}" % sub in whole, "nary-lower-limit-missing", out=whole, xml=xml)
        if sup.strip():
            ctx.require("^{%s}" % sup in whole, "nary-upper-limit-missing", out=whole, xml=xml)
        ctx.require(whole.endswith(e), "nary-operand-not-in-place", out=whole, xml=xml)
        return
    elif kind == "d":
        beg, end = d.get("begChr", "("), d.get("endChr", ")")
        if "NOVAL" in (beg, end):
            return
        es = [m.omml_to_latex(s) for s, _ in ops.get("e", [])]
        ctx.require(whole.startswith(beg) and whole.endswith(end) and len(whole) >= len(beg) + len(end),
                    "delimiter-form", out=whole, xml=xml)
        # exactly the declared delimiters (an explicitly empty m:val = no delimiter on that side): between
        # them the operands in order, the first directly after the opening and the last directly before
        # the closing delimiter; what separates two operands is the converter's choice
        rest = whole[len(beg):len(whole) - len(end)]
        if not es:
            ctx.require(rest == "", "delimiter-form", out=whole, xml=xml, why="text between the delimiters of an empty m:d")
            return
        ctx.require(rest.startswith(es[0]) and rest.endswith(es[-1]), "delimiter-form", out=whole, xml=xml,
                    why="operands not directly inside the declared delimiters")
        p = 0
        for e in es:
            q = rest.find(e, p)
            ctx.require(q >= 0, "delimiter-operand-missing", out=whole, xml=xml)
            p = q + len(e)
        return
    elif kind == "acc":
        ch = d.get("chr", None)
        name = {"̂": "\\hat", "̃": "\\tilde", "⃗": "\\vec"}.get(ch)
        if name is None:
            return
        exp = "%s{%s}" % (name, c("e"))
    elif kind == "m":
        # documented form: \begin{matrix} rows \end{matrix}, rows separated by \\ and cells by & - every
        # cell keeps its slot, an empty one too
        rows, cols = d["shape"]
        cells = [m.omml_to_latex(e) for e in d["cells"]]
        if any(("&" in c_ or "\\\\" in c_ or "matrix" in c_) for c_ in cells):
            return
        ctx.require(whole.startswith("\\begin{matrix}") and whole.endswith("\\end{matrix}"), "matrix-form",
                    out=whole, xml=xml)
        ctx.require(whole.count("&") == rows * (cols - 1) and whole.count("\\\\") == rows - 1, "matrix-form",
                    out=whole, xml=xml, rows=rows, cols=cols)
        p = 0
        for c_ in cells:
            q = whole.find(c_, p)
            ctx.require(q >= 0, "matrix-cell-missing", out=whole, xml=xml)
            p = q + len(c_)
        return
    if exp is not None:
        if ctx.perturb == "frac_swapped" and kind == "f":
            exp = "\\frac{%s}{%s}" % (c("den"), c("num"))
        ctx.require(whole == exp, "structural-template", kind=kind, expected=exp, out=whole, xml=xml)


# ---------------------------------------------------------------------------------------
# K2: symbolic local tag names on a stand-in element (the converter's own comparisons
# partition the names)
# ---------------------------------------------------------------------------------------

class FakeElem:
    """pure-python stand-in for ET.Element (tag may be a symbolic string)"""

    def __init__(self, tag, text=None, attrib=None):
        self.tag = tag
        self.text = text
        self.attrib = attrib or {}
        self.children = []

    def __iter__(self):
        return iter(self.children)

    def __len__(self):
        return len(self.children)

    def get(self, k, default=None):
        return self.attrib.get(k, default)

    def _desc(self):
        for c in self.children:
            yield c
            yield from c._desc()

    def _match(self, path):
        deep = path.startswith(".//")
        want = path[3:] if deep else path
        # namespaces contain '/', so split steps only at '/{'
        steps = want.replace("/{", "\x00{").split("\x00")
        pool = list(self._desc() if deep else self.children)
        for k, step in enumerate(steps):
            hits = [c for c in pool if c.tag == step]
            if k == len(steps) - 1:
                yield from hits
                return
            pool = [g for h in hits for g in h.children]

    def find(self, path, ns=None):
        for c in self._match(path):
            return c
        return None

    def findall(self, path, ns=None):
        return list(self._match(path))


TAG_LENS = (1, 2, 3, 4, 5)


def k2_symbolic_tags(ctx):
    m = _mod()
    n_children = ctx.params.get("children", 2)
    top_kind = ctx.params.get("top")

    def tag(name):
        n = TAG_LENS[ctx.choice(name + "_len", len(TAG_LENS))]
        t = ctx.fresh_chars(name, n, 65, 122)
        if ctx.concrete:
            return M + t
        return S.CharStr(M) + t

    root = FakeElem(M + "oMath")
    top = FakeElem(tag("top") if top_kind is None else M + top_kind)
    root.children.append(top)
    if top_kind in ("nary", "acc", "d"):
        # property child: chr / begChr with or without its m:val attribute
        if ctx.flag("pr"):
            pr = FakeElem(M + top_kind + "Pr")
            top.children.append(pr)
            c = FakeElem(M + ("begChr" if top_kind == "d" else "chr"))
            if ctx.flag("val"):
                c.attrib[M + "val"] = ["∑", "[", "̂"][["nary", "d", "acc"].index(top_kind)]
            pr.children.append(c)
    toks = []
    kids = []
    for i in range(n_children):
        ch = FakeElem(tag(f"child{i}"))
        r = FakeElem(M + "r")
        t = FakeElem(M + "t", text=f"Q{i}")
        r.children.append(t)
        ch.children.append(r)
        top.children.append(ch)
        kids.append(ch)
        toks.append(f"Q{i}")
    if not ctx.concrete:
        ctx.hash_universe = set(m._SKIP_TAGS)
    try:
        out = m.omml_to_latex(root)
    except Exception as e:
        ctx.fail("conversion-raised", exc=type(e).__name__, msg=str(e)[:80], top=str(top.tag)[-8:],
                 children=[str(c.tag)[-8:] for c in top.children])
        return
    out = str(out)
    skip = set(m._SKIP_TAGS)

    def local(t):
        return str(t).split("}")[-1]
    info = dict(top=local(top.tag), children=[local(c.tag) for c in top.children], out=out)
    ctx.require(_balanced(out), "unbalanced-braces", **info)
    ctx.require("None" not in out, "python-None-in-output", **info)
    for i in range(n_children):
        ctx.require(out.count(toks[i]) <= 1, "run-text-duplicated", token=toks[i], **info)


# ---------------------------------------------------------------------------------------
# K3: determinism through the real carrier - formulas of a SEQUENCE of generated DOCX files read
# through read_docx in one process: every document reports the conversion of its own trees
# ---------------------------------------------------------------------------------------
_W = "http://schemas.openxmlformats.org/wordprocessingml/2006/main"
_MM = "http://schemas.openxmlformats.org/officeDocument/2006/math"


def _r(t):
    return "<m:r><m:t>%s</m:t></m:r>" % t


# formula shapes; the token is filled in per occurrence so that every formula of a run is distinct
_K3_SHAPES = [
    lambda t: "<m:f><m:num>%s</m:num><m:den>%s</m:den></m:f>" % (_r(t), _r("5")),
    lambda t: "<m:sSub><m:e>%s</m:e><m:sub>%s</m:sub></m:sSub>" % (_r(t), _r("2")),
    lambda t: "<m:rad><m:deg/><m:e>%s</m:e></m:rad>" % _r(t),
    lambda t: "<m:d><m:dPr><m:begChr m:val=\"[\"/><m:endChr m:val=\"\"/></m:dPr><m:e>%s</m:e></m:d>" % _r(t),
]


def _docx_bytes(formulas):
    import io
    import zipfile
    body = "".join('<w:p><w:r><w:t>T%d</w:t></w:r><m:oMath>%s</m:oMath></w:p>' % (i, f) for i, f in enumerate(formulas))
    doc = ('<?xml version="1.0" encoding="UTF-8" standalone="yes"?><w:document xmlns:w="%s" xmlns:m="%s">'
           '<w:body>%s</w:body></w:document>' % (_W, _MM, body))
    b = io.BytesIO()
    with zipfile.ZipFile(b, "w") as z:
        z.writestr("[Content_Types].xml",
                   '<?xml version="1.0" encoding="UTF-8"?><Types xmlns="http://schemas.openxmlformats.org/package/'
                   '2006/content-types"><Default Extension="rels" ContentType="application/vnd.openxmlformats-package.'
                   'relationships+xml"/><Default Extension="xml" ContentType="application/xml"/><Override PartName='
                   '"/word/document.xml" ContentType="application/vnd.openxmlformats-officedocument.wordprocessingml.'
                   'document.main+xml"/></Types>')
        z.writestr("_rels/.rels",
                   '<?xml version="1.0" encoding="UTF-8"?><Relationships xmlns="http://schemas.openxmlformats.org/'
                   'package/2006/relationships"><Relationship Id="rId1" Type="http://schemas.openxmlformats.org/'
                   'officeDocument/2006/relationships/officeDocument" Target="word/document.xml"/></Relationships>')
        z.writestr("word/document.xml", doc)
    return b.getvalue()


def k3_docx_sequence(ctx):
    """N documents, each with 1..2 formulas of solver-chosen shapes over distinct tokens, read one after the
    other (and the first one again at the end): the formulas a document reports are the conversions of ITS
    trees (reference: omml_to_latex on a fresh parse of the same XML), whatever was read before"""
    import gc
    import io
    from sharepoint2text.parsing.extractors.ms_modern.docx_extractor import read_docx
    m = _mod()
    n_docs = ctx.params.get("docs", 3)
    docs = []
    tok = 0
    for d in range(n_docs):
        # quick tier: only the first document varies its number of formulas
        n_f = 1 + (ctx.choice(f"doc{d}_formulas_minus_1", 2) if (d == 0 or ctx.params.get("all_vary")) else 0)
        fs = []
        for k in range(n_f):
            if d == 0 and k == 0 and "first_shape" in ctx.params:
                shape = ctx.params["first_shape"]
            else:
                shape = ctx.choice(f"doc{d}_f{k}_shape", len(_K3_SHAPES))
            fs.append(_K3_SHAPES[shape]("Q%d" % tok))
            tok += 1
        docs.append(fs)
    order = list(range(n_docs)) + [0]
    for pos, d in enumerate(order):
        fs = docs[d]
        expected = [m.omml_to_latex(ET.fromstring('<m:oMath xmlns:m="%s">%s</m:oMath>' % (_MM, f))) for f in fs]
        if ctx.perturb == "expect_first_documents_formulas":
            expected = [m.omml_to_latex(ET.fromstring('<m:oMath xmlns:m="%s">%s</m:oMath>' % (_MM, f)))
                        for f in docs[0]]
        try:
            res = list(read_docx(io.BytesIO(_docx_bytes(fs))))
        except Exception as e:
            ctx.fail("read_docx-raised", exc=type(e).__name__, msg=str(e)[:80], position=pos)
            return
        got = [f.latex for f in res[0].formulas]
        text = res[0].get_full_text()
        del res
        gc.collect()
        ctx.require(got == expected, "formula-of-another-document-reported", position=pos, document=d,
                    got=got, expected=expected)
        for e in expected:
            ctx.require(e in text, "formula-missing-from-full-text", position=pos, document=d, latex=e, text=text[:120])


def _targets():
    m = _mod()
    return [m.omml_to_latex, m.convert_greek_and_symbols]


def _k1_parts(tier):
    if tier == "quick":
        return [{"first": k, "depth": 2} for k in KINDS if k not in ("prop",)]
    parts = [{"first": "r", "depth": 3}]
    for k in KINDS:
        if k in ("prop", "r"):
            continue
        parts += [{"first": k, "depth": 3, "second": k2, "run_flag_budget": 3} for k2 in SIMPLE_KINDS]
    return parts


KERNELS = [
    Kernel("K1", "bounded OMML trees: total, deterministic, runs once in order, balanced braces, structural templates",
           k1_tree, targets=_targets, parts=_k1_parts, strength="structure",
           perturb=[("frac_swapped", {"first": "f", "depth": 2}), ("expect_unbalanced", {"first": "sSup", "depth": 2})],
           choices=["node kind per position (11 structural tags, run, property element, unknown wrapper)",
                    "presence of every operand child, property child, chr/begChr/endChr and their m:val attribute",
                    "run text from an alphabet (unique token, token+alpha, each bracket, blank, empty, sin, literal brace)",
                    "n-ary operator / delimiter / accent character", "matrix rows x cols", "second top-level sibling"],
           assumptions=["trees come from real xml.etree Elements built by the harness (what the OOXML readers hand over)",
                        "structural template oracle is compositional: operands are rendered by the converter itself; "
                        "skipped for trees containing a documented malformed radical"],
           outside=["trees deeper than 2 (3) levels of structure or with more than 2 operands per slot",
                    "thorough tier, depth 3: below the first level one focus operand per element carries the sub-tree "
                    "(the others hold a token run) and only the first 3 runs vary m:rPr presence"],
           timeout={"quick": 280, "thorough": 2400}),
    Kernel("K2", "symbolic element names: the converter's own tag tests partition them; balance, no duplication",
           k2_symbolic_tags, targets=_targets,
           parts=lambda tier: [{"top": None, "children": 1 if tier == "quick" else 2}] +
           [{"top": k, "children": 2} for k in list(SLOTS) + ["m", "box"]],
           symbolic=["local name of the top element and of each child (length 1..5, letters)"],
           stubs=["ET.Element -> pure-python stand-in with find/findall/get/iter (tags may be symbolic)"],
           timeout={"quick": 280, "thorough": 2400}),
]

KERNELS.append(
    Kernel("K3", "formulas through the DOCX carrier: a sequence of documents read in one process, each reports its own",
           k3_docx_sequence, targets=lambda: _targets() + [__import__(
               "sharepoint2text.parsing.extractors.ms_modern.docx_extractor", fromlist=["x"]).read_docx],
           strength="structure",
           parts=lambda tier: [{"docs": 3, "first_shape": k, **({} if tier == "quick" else {"all_vary": True})}
                               for k in range(len(_K3_SHAPES))],
           timeout={"quick": 200, "thorough": 1500},
           perturb=["expect_first_documents_formulas"],
           choices=["formulas per document (1..2)", "shape of every formula (fraction, subscript, radical, delimiter "
                    "with an explicitly empty closing character)"],
           assumptions=["reference = omml_to_latex on a fresh parse of the same formula XML (K1/K2 judge the converter "
                        "itself); documents are generated WordprocessingML packages"],
           outside=["history effects that need more than 3 documents or other carriers (pptx) - see C15/C06"]))

META = {
    "level_text": "The real omml_to_latex is executed on every OMML tree of a bounded grammar (depth 2, thorough 3; all 11 "
                  "structural elements, every optional child/attribute present or absent, run texts from a bracket/Greek/"
                  "blank alphabet) with the tree shape as solver-enumerated symbolic choices, and on a stand-in element "
                  "whose tag names are symbolic strings so that the converter's own comparisons split the cases; "
                  "totality, determinism, run-text order/multiplicity, brace balance and compositional templates are "
                  "checked on every path; a third kernel reads sequences of generated DOCX files with solver-chosen formulas "
                  "through read_docx and requires every document to report the conversion of its own trees.",
    "level_note": "Mostly structure exploration (K1): symbolic values are consumed by the tree generator; K2 has symbolic "
                  "data reaching the converter's branches. Trusted: ElementTree. Outside: deeper/wider trees.",
    "technique": "bounded-exhaustive symbolic structure exploration of OMML trees through the real converter (symrun "
                 "choices) + symbolic tag names on a stand-in element",
}
