"""C10 - archive members come out as themselves: right bytes, name, order."""
import io
import struct
import zlib

import z3

from vf.core import Kernel
from vf import symrun as S


def _sz():
    import sharepoint2text.parsing.extractors.util.sevenzip as m
    return m


def _ae():
    import sharepoint2text.parsing.extractors.archive_extractor as m
    return m


# ---------------------------------------------------------------------------------------
# an independent 7z writer (7zFormat.txt, COPY coder) used for public-API replay
# ---------------------------------------------------------------------------------------

def _num7(n):
    """7z variable-length number"""
    for k in range(9):
        if n < (1 << (7 * (k + 1))) and k < 8:
            first = (0xFF << (8 - k)) & 0xFF
            first |= n >> (8 * k)
            return bytes([first]) + (n & ((1 << (8 * k)) - 1)).to_bytes(k, "little")
    return b"\xff" + n.to_bytes(8, "little")


def write_7z(folders, names=None, empty=None):
    """folders: list of lists of member byte strings (one list per folder, COPY coder);
    names: list of member names (files with data, in order, then entries flagged empty);
    empty: list of names of entries without data stream (appended at the end)"""
    empty = empty or []
    files = [m for f in folders for m in f]
    names = names or [f"f{i}.txt" for i in range(len(files))]
    packed = b"".join(files)
    h = b"\x01\x04"
    h += b"\x06" + _num7(0) + _num7(len(folders)) + b"\x09" + b"".join(_num7(sum(map(len, f))) for f in folders) + b"\x00"
    h += b"\x07\x0b" + _num7(len(folders)) + b"\x00"
    for f in folders:
        h += _num7(1) + bytes([1]) + b"\x00"            # one coder, id size 1, COPY = 00
    h += b"\x0c" + b"".join(_num7(sum(map(len, f))) for f in folders) + b"\x00"
    h += b"\x08\x0d" + b"".join(_num7(len(f)) for f in folders)
    sizes = b"".join(_num7(len(m)) for f in folders for m in f[:-1])
    if sizes:
        h += b"\x09" + sizes
    h += b"\x00"        # end substreams
    h += b"\x00"        # end streams info
    n_all = len(files) + len(empty)
    h += b"\x05" + _num7(n_all)
    if empty:
        bits = [False] * len(files) + [True] * len(empty)
        vec = bytearray((n_all + 7) // 8)
        for i, b in enumerate(bits):
            if b:
                vec[i // 8] |= 0x80 >> (i % 8)
        h += b"\x0e" + _num7(len(vec)) + bytes(vec)
    nm = b"\x00" + b"".join(n.encode("utf-16-le") + b"\x00\x00" for n in list(names) + list(empty))
    h += b"\x11" + _num7(len(nm)) + nm
    h += b"\x00\x00"
    sh = struct.pack("<QQI", len(packed), len(h), zlib.crc32(h) & 0xFFFFFFFF)
    return b"7z\xbc\xaf\x27\x1c\x00\x04" + struct.pack("<I", zlib.crc32(sh) & 0xFFFFFFFF) + sh + packed + h


# ---------------------------------------------------------------------------------------
# K1: 7z layout arithmetic on descriptors
# ---------------------------------------------------------------------------------------

class Desc:
    """a piece of the archive body: (start, length), never materialised"""

    def __init__(self, start, length):
        self.start, self.length = start, length

    def sym_len(self):
        return self.length

    def __len__(self):
        return int(self.length)

    def __getitem__(self, sl):
        a = 0 if sl.start is None else sl.start
        b = self.length if sl.stop is None else sl.stop
        return Desc(self.start + a, b - a)


class Body:
    def __init__(self, total):
        self.pos = 0
        self.total = total

    def seek(self, p, whence=0):
        self.pos = self.total if whence == 2 else p
        return self.pos

    def tell(self):
        return self.pos

    def read(self, n=-1):
        d = Desc(self.pos, n)
        self.pos = self.pos + n
        return d


def k1_layout(ctx):
    sz = _sz()
    nf = 1 + ctx.choice("n_folders", ctx.params.get("max_folders", 3))
    P0 = 32 + ctx.fresh_int("pack_pos", 0, 1000)
    known = ctx.params.get("known_active", [])
    folders, file_sizes, pack_sizes, expect = [], [], [], []
    pos = P0
    k = 0
    for f in range(nf):
        ns = 1 + ctx.choice(f"streams{f}", 2)
        sizes = [ctx.fresh_int(f"size{f}_{j}", 1, 2 ** 20) for j in range(ns)]
        tot = sizes[0] if ns == 1 else sizes[0] + sizes[1]
        folders.append(sz.Folder(coders=[(sz.CODER_COPY, None)], unpack_sizes=[tot], num_streams=ns))
        pack_sizes.append(tot)
        off = pos
        for s_ in sizes:
            file_sizes.append(s_)
            expect.append((f"f{k}.txt", off, s_))
            off = off + s_
            k += 1
        pos = pos + tot
    total = pos
    n_files = len(file_sizes)
    reader = object.__new__(sz.SevenZipReader)
    body = Body(total)
    reader._archive_file = body
    reader._stream = body
    reader._files, reader._folders = [], folders
    reader._pack_positions, reader._pack_sizes = [P0], list(pack_sizes)
    reader._file_sizes, reader._header_offset, reader._folder_to_files = list(file_sizes), 32, {}
    written = []

    class Out:
        def __init__(self, path):
            self.path = path

        def __enter__(self):
            return self

        def __exit__(self, *a):
            return False

        def write(self, data):
            written.append((self.path, data))

    def fake_open(path, mode="r"):
        return Out(path)

    with ctx.shadow(sz, len=S.sym_len), ctx.stub(sz, open=fake_open, _mkdirs=lambda p: None), \
            ctx.stub(sz.os, makedirs=lambda *a, **k: None):
        try:
            reader._build_file_list(n_files, [False] * n_files, [e[0] for e in expect], [0] * n_files)
            reader.extractall("/tmp/x", source_file=body)
        except sz.Bad7zFile as e:
            ctx.fail("well-formed-archive-rejected", msg=str(e)[:80], folders=nf)
            return
    ctx.require(len(written) == n_files, "member-count", got=len(written), expected=n_files)
    for (path, d), (name, off, size) in zip(written, expect):
        ctx.require(path.endswith("/" + name), "member-order-or-name", path=path, expected=name)
        if ctx.perturb == "expect_first_folder_offset":
            off = P0
        if ctx.concrete:
            ok = (d.start == off and d.length == size)
        else:
            ok = z3.And(S._as_int_term(d.start) == S._as_int_term(off), S._as_int_term(d.length) == S._as_int_term(size))
        ctx.require(ok, "member-bytes-from-wrong-place", member=name, folders=nf)


def _k1_public_replay(kernel, tier, params, inputs):
    """unit-level replay + the same layout as a real COPY-coder 7z through read_archive"""
    from vf import symrun
    v, detail = symrun.replay_concrete(k1_layout, inputs, tier=tier, params=params)
    out = {"violated": bool(v), "detail": detail}
    if v:
        try:
            ae = _ae()
            nf = 1 + int(inputs.get("n_folders", 0))
            folders, names, k = [], [], 0
            for f in range(nf):
                ns = 1 + int(inputs.get(f"streams{f}", 0))
                fl = []
                for j in range(ns):
                    fl.append(f"content of member {k}".encode())
                    names.append(f"f{k}.txt")
                    k += 1
                folders.append(fl)
            data = write_7z(folders, names)
            got = [r.get_full_text() for r in ae.read_archive(io.BytesIO(data), "a.7z")]
            out["public_api"] = {"expected": [f"content of member {i}" for i in range(k)], "got": got}
            out["public_api_violated"] = got != [f"content of member {i}" for i in range(k)]
        except Exception as e:
            out["public_api_error"] = repr(e)
    return out


# ---------------------------------------------------------------------------------------
# K2: number / bit-vector decoding vs the 7z specification
# ---------------------------------------------------------------------------------------

class ByteStream:
    def __init__(self, data):
        self.data, self.pos = data, 0

    def read(self, n):
        out = self.data[self.pos:self.pos + n]
        self.pos += len(out)
        return out

    def tell(self):
        return self.pos

    def seek(self, p):
        self.pos = p


class SymStruct:
    """struct stand-in for little-endian unsigned formats on symbolic bytes"""
    error = struct.error

    @staticmethod
    def unpack(fmt, data):
        if isinstance(data, (bytes, bytearray)):
            return struct.unpack(fmt, data)
        assert fmt in ("<B", "<H", "<I", "<Q"), fmt
        return (S._from_bytes(data, "little"),)


def _reader_on(sz, data):
    r = object.__new__(sz.SevenZipReader)
    r._stream = ByteStream(data)
    return r


def k2_numbers(ctx):
    sz = _sz()
    what = ctx.params["what"]
    if what == "number":
        data = ctx.fresh_bytes("b", 9)
        r = _reader_on(sz, data)
        with ctx.shadow(sz, struct=SymStruct):
            got = r._read_number()
        consumed = r._stream.pos
        if ctx.concrete:
            first = data[0]
            n = 0
            while n < 8 and first & (0x80 >> n):
                n += 1
            exp = int.from_bytes(data[1:1 + n], "little")
            if n < 8:
                exp |= (first & ((0x80 >> n) - 1)) << (8 * n)
            if ctx.perturb == "high_bits_dropped":
                exp = int.from_bytes(data[1:1 + n], "little")
            ctx.require(got == exp and consumed == 1 + n, "7z-number-decoding", got=got, expected=exp, consumed=consumed)
            return
        # specification as a z3 term (7zFormat.txt "REAL_UINT64"), independent of the loop
        b = [x.z for x in data]
        first = b[0]
        cases = []
        for n in range(9):
            lead = z3.And(*[z3.Extract(7 - i, 7 - i, first) == 1 for i in range(n)]) if n else z3.BoolVal(True)
            stop = (z3.Extract(7 - n, 7 - n, first) == 0) if n < 8 else z3.BoolVal(True)
            val = z3.BitVecVal(0, 64)
            for i in range(n):
                val = val | (z3.ZeroExt(56, b[1 + i]) << (8 * i))
            if n < 8 and ctx.perturb != "high_bits_dropped":
                mask = (0x80 >> n) - 1
                val = val | (z3.ZeroExt(56, first & mask) << (8 * n))
            cases.append((z3.And(lead, stop), val, 1 + n))
        g = got.z if isinstance(got, S.SymBV) else z3.BitVecVal(int(got), 64)
        g = z3.ZeroExt(64 - g.size(), g) if g.size() < 64 else z3.Extract(63, 0, g)
        ok = z3.And(*[z3.Implies(c, z3.And(g == v, z3.BoolVal(consumed == k))) for c, v, k in cases])
        ctx.require(ok, "7z-number-decoding", consumed=consumed)
    else:
        count = ctx.choice("count", 18)
        check_defined = ctx.flag("check_defined")
        nbytes = (count + 7) // 8 + (1 if check_defined else 0)
        data = ctx.fresh_bytes("v", nbytes + 1)
        r = _reader_on(sz, data)
        with ctx.shadow(sz, struct=SymStruct):
            got = r._read_boolean_vector(count, check_defined=check_defined)
        ctx.require(len(got) == count, "bit-vector-length", got=len(got))
        base = 0
        all_def = None
        if check_defined:
            all_def = (data[0] != 0)
            base = 1
        for i in range(count):
            byte = data[base + i // 8]
            bitpos = (i % 8) if ctx.perturb != "bit_order_lsb" else 7 - (i % 8)
            bit = ((byte >> (7 - bitpos)) & 1) != 0
            if check_defined:
                if ctx.concrete:
                    exp = True if all_def else bool(bit)
                    ctx.require(bool(got[i]) == exp, "bit-vector-decoding", index=i)
                else:
                    gi = got[i].z if isinstance(got[i], S.SymBool) else z3.BoolVal(bool(got[i]))
                    ctx.require(gi == z3.If(all_def.z, z3.BoolVal(True), bit.z), "bit-vector-decoding", index=i)
            else:
                if ctx.concrete:
                    ctx.require(bool(got[i]) == bool(bit), "bit-vector-decoding", index=i)
                else:
                    gi = got[i].z if isinstance(got[i], S.SymBool) else z3.BoolVal(bool(got[i]))
                    ctx.require(gi == bit.z, "bit-vector-decoding", index=i)


# ---------------------------------------------------------------------------------------
# K4: order, labels, isolation of member failures (ZIP / TAR / 7z loops)
# ---------------------------------------------------------------------------------------

def k4_order_labels(ctx):
    ae = _ae()
    from vf.props.c09 import FakeZipInfo, FakeTarMember
    fmt = ctx.params["fmt"]
    n = ctx.choice("n_members", 4)
    names_voc = ["a.txt", "d/b.csv", "c.md", "e/f/g.txt", "/srv/abs.txt"]   # the last one: stored under an absolute name
    members, kinds = [], []
    for i in range(n):
        nm = names_voc[ctx.choice(f"name{i}", len(names_voc))]
        corrupt = ctx.flag(f"corrupt{i}")
        members.append((nm, corrupt))
    calls = []

    class Res:
        def __init__(self, path, data):
            self.path, self.data = path, data

    def fake_get_extractor(basename):
        def ex(f, path=None):
            data = f.read()
            calls.append((basename, path))
            if data.startswith(b"CORRUPT"):
                yield Res(path, b"partial")        # a result before the failure is legitimate
                raise ValueError("corrupt member")
            yield Res(path, data)
        return ex

    def payload(i, nm, corrupt):
        return (b"CORRUPT" if corrupt else b"DATA") + f":{i}:{nm}".encode()

    class FakeZip:
        def __init__(self, *a, **k):
            pass

        def __enter__(self):
            return self

        def __exit__(self, *a):
            return False

        def infolist(self):
            return [FakeZipInfo(nm, 10, False) for nm, _ in members]

        def read(self, info, pwd=None):
            i = [k for k, (nm, _) in enumerate(members) if nm == info.filename]
            i = self._next(info.filename)
            return payload(i, *members[i])

        _seen = None

        def _next(self, name):
            if self._seen is None:
                self._seen = {}
            idxs = [k for k, (nm, _) in enumerate(members) if nm == name]
            c = self._seen.get(name, 0)
            self._seen[name] = c + 1
            return idxs[min(c, len(idxs) - 1)]

    class FakeTar(FakeZip):
        def getmembers(self):
            return [FakeTarMember(nm, 10, "reg") for nm, _ in members]

        def extractfile(self, m):
            i = self._next(m.name)
            return io.BytesIO(payload(i, *members[i]))

    class ZipMod:
        ZipFile = FakeZip
        BadZipFile = __import__("zipfile").BadZipFile

    class TarMod:
        TarError = __import__("tarfile").TarError

        @staticmethod
        def open(fileobj=None, mode="r"):
            return FakeTar()

    with ctx.stub(ae, zipfile=ZipMod, tarfile=TarMod, _get_file_extractor_cached=fake_get_extractor,
                  _should_skip_file=lambda a, b: False):
        try:
            if fmt == "zip":
                out = list(ae._extract_from_zip_optimized(io.BytesIO(b""), "arch.zip"))
            else:
                out = list(ae._extract_from_tar_optimized(io.BytesIO(b""), "arch.tar"))
        except Exception as e:
            ctx.fail("member-failure-escaped", exc=type(e).__name__, members=members)
            return
    exp = []
    for i, (nm, corrupt) in enumerate(members):
        path = f"arch.{fmt}!/{nm}"
        if corrupt:
            exp.append((path, b"partial"))
        else:
            exp.append((path, payload(i, nm, corrupt)))
    if ctx.perturb == "expect_reversed" and len(exp) > 1:
        exp = exp[::-1]
    got = [(r.path, r.data) for r in out]
    ctx.require(got == exp, "results-order-label-or-isolation", got=repr(got)[:200], expected=repr(exp)[:200])
    ctx.require([c[0] for c in calls] == [nm.rsplit("/", 1)[-1] for nm, _ in members], "extractor-chosen-by-basename",
                calls=calls)


# ---------------------------------------------------------------------------------------
# K2d: LZMA2 dictionary size handed to the decoder == xz file format 5.3.1 for every property byte
# ---------------------------------------------------------------------------------------

def k2_lzma2_dict(ctx):
    """a decoder set up with a smaller dictionary than the stream was written with rejects (or garbles)
    members whose matches reach further back: the member would not come out as itself"""
    import lzma as real_lzma
    sz = _sz()
    calls = []

    class Dec:
        def __init__(self, format, memlimit, filters):
            calls.append((format, filters))

        def decompress(self, data, max_length=-1):
            return b"12345678"

    class FakeLzma:
        FORMAT_ALONE, FORMAT_RAW, FORMAT_XZ, FORMAT_AUTO = (real_lzma.FORMAT_ALONE, real_lzma.FORMAT_RAW,
                                                            real_lzma.FORMAT_XZ, real_lzma.FORMAT_AUTO)
        FILTER_LZMA2, FILTER_LZMA1 = real_lzma.FILTER_LZMA2, real_lzma.FILTER_LZMA1
        LZMAError = real_lzma.LZMAError

        @staticmethod
        def LZMADecompressor(format=real_lzma.FORMAT_AUTO, memlimit=None, filters=None):
            return Dec(format, memlimit, filters)

    b = ctx.conc(ctx.fresh_int("prop_byte", 0, 39), 0, 39)
    rd = object.__new__(sz.SevenZipReader)
    with ctx.stub(sz, lzma=FakeLzma):
        try:
            rd._apply_decoder(sz.CODER_LZMA2, bytes([b]), b"\x01\x02", [8])
        except Exception as e:
            ctx.fail("lzma2-folder-raised", exc=type(e).__name__, msg=str(e)[:80], prop_byte=b)
            return
    ctx.require(len(calls) == 1 and calls[0][0] == real_lzma.FORMAT_RAW, "lzma2-decoder-setup", calls=repr(calls)[:120])
    filters = calls[0][1]
    ctx.require(isinstance(filters, list) and len(filters) == 1 and filters[0].get("id") == real_lzma.FILTER_LZMA2,
                "lzma2-decoder-setup", filters=repr(filters)[:120])
    # xz-file-format 5.3.1 (same encoding in 7z): 2^(b/2+12) for even b, 3*2^((b-1)/2+11) for odd b
    spec = (1 << (b // 2 + 12)) if b % 2 == 0 else 3 * (1 << ((b - 1) // 2 + 11))
    if ctx.perturb == "expect_power_of_two":
        spec = 1 << (b // 2 + 12)
    ctx.require(filters[0].get("dict_size") == spec, "lzma2-dictionary-size", prop_byte=b,
                got=filters[0].get("dict_size"), expected=spec)


# ---------------------------------------------------------------------------------------
# K5: container detection on a symbolic 512-byte header == the formats' own signatures
# ---------------------------------------------------------------------------------------

class _HeaderFile:
    """what _detect_archive_type_optimized needs from its BytesIO: seek / read of the first block"""

    def __init__(self, data):
        self.data = data

    def seek(self, *a):
        return 0

    def tell(self):
        return 0

    def read(self, n=-1):
        return self.data[:n] if n is not None and n >= 0 else self.data


def _eqb(data, off, lit):
    out = None
    for i, ch in enumerate(lit):
        c = (data[off + i] == ch)
        out = c if out is None else (out & c)
    return out


def k5_detect(ctx):
    ae = _ae()
    n = ctx.params.get("len", 512)
    data = ctx.fresh_bytes("h", n)
    # reference signatures: APPNOTE 4.3.7 / 4.3.16, 7zFormat.txt, RFC 1952, bzip2 ("BZh"), xz 2.1.1.1,
    # POSIX ustar ("ustar\0" "00") and GNU tar ("ustar  \0") at offset 257
    refs = [("zip", 0, b"PK\x03\x04"), ("zip", 0, b"PK\x05\x06"), ("7z", 0, b"7z\xbc\xaf\x27\x1c"),
            ("tar.gz", 0, b"\x1f\x8b\x08"), ("tar.bz2", 0, b"BZh"), ("tar.xz", 0, b"\xfd7zXZ\x00")]
    if n >= 265:
        refs += [("tar", 257, b"ustar\x0000"), ("tar", 257, b"ustar  \x00")]
    which = ctx.choice("signature", len(refs))
    kind, off, lit = refs[which]
    ctx.assume(_eqb(data, off, lit))
    if off:
        # a plain tar: the block does not start with one of the other signatures
        for k2, o2, l2 in refs:
            if o2 == 0:
                ctx.assume(~_eqb(data, 0, l2[:2]))
    got = ae._detect_archive_type_optimized(_HeaderFile(data))
    if ctx.perturb == "expect_gzip_for_all":
        kind = "tar.gz"
    ctx.require(got == kind, "container-not-recognised", signature=repr(lit), got=repr(got), expected=kind)


# ---------------------------------------------------------------------------------------
# K6: tar archives as the standard library writes them (ustar / GNU / pax x none / gz / bz2 / xz)
# through read_archive: every member comes out, in order, with its own text
# ---------------------------------------------------------------------------------------

def k6_tar_formats(ctx):
    import tarfile
    ae = _ae()
    fmt = (tarfile.USTAR_FORMAT, tarfile.GNU_FORMAT, tarfile.PAX_FORMAT)[ctx.choice("tar_format", 3)]
    comp = ("", "gz", "bz2", "xz")[ctx.choice("compression", 4)]
    n = 1 + ctx.choice("members_minus_1", 3)
    long_name = ctx.flag("first_member_name_over_100_chars")
    dir_first = ctx.flag("directory_entry_first")
    names, texts = [], []
    buf = io.BytesIO()
    with tarfile.open(fileobj=buf, mode="w:" + comp, format=fmt) as tf:
        if dir_first:
            ti = tarfile.TarInfo("docs")
            ti.type = tarfile.DIRTYPE
            tf.addfile(ti)
        for i in range(n):
            nm = "docs/" + (("n" * 120 + "_") if (long_name and i == 0 and fmt != tarfile.USTAR_FORMAT) else "") + "m%d.txt" % i
            body = ("member %d text Q%d" % (i, i)).encode()
            ti = tarfile.TarInfo(nm)
            ti.size = len(body)
            tf.addfile(ti, io.BytesIO(body))
            names.append(nm)
            texts.append(body.decode())
    if ctx.perturb == "expect_reversed" and n > 1:
        texts = texts[::-1]
    try:
        res = list(ae.read_archive(io.BytesIO(buf.getvalue()), "a.tar" + ("." + comp if comp else "")))
    except Exception as e:
        ctx.fail("tar-archive-rejected", exc=type(e).__name__, msg=str(e)[:100], format=fmt, compression=comp)
        return
    got = [r.get_full_text() for r in res]
    ctx.require(got == texts, "tar-members-differ", got=got, expected=texts, format=fmt, compression=comp)


def _targets_k1():
    sz = _sz()
    return [sz.SevenZipReader._build_file_list, sz.SevenZipReader.extractall, sz.SevenZipReader._decompress_folder,
            sz.SevenZipReader._apply_decoder, sz.SevenZipReader._extract_files_from_folder]


k1 = Kernel("K1", "7z: every member is written from its own place in the packed stream (folders x streams, symbolic sizes)",
            k1_layout, targets=_targets_k1,
            bounds={"quick": {"max_folders": 3}, "thorough": {"max_folders": 4}},
            perturb=["expect_first_folder_offset"],
            symbolic=["pack position", "size of every member"], choices=["1..3 (4) folders", "1..2 streams per folder"],
            stubs=["archive body -> (offset,length) descriptors never materialised", "open/_mkdirs/os.makedirs -> recorder"],
            assumptions=["COPY coder, one packed stream per folder (what standard packers write for non-BCJ2 methods)"],
            outside=["LZMA/LZMA2/deflate/bz2 decompressor correctness (C libraries)"])
k1.replayer = _k1_public_replay

KERNELS = [
    k1,
    Kernel("K2", "7z number and bit-vector decoding == 7zFormat.txt on symbolic bytes", k2_numbers,
           targets=lambda: [_sz().SevenZipReader._read_number, _sz().SevenZipReader._read_boolean_vector,
                            _sz().SevenZipReader._read_uint8, _sz().SevenZipReader._read_bytes],
           parts=lambda tier: [{"what": "number"}, {"what": "bits"}],
           perturb=[("high_bits_dropped", {"what": "number"}), ("bit_order_lsb", {"what": "bits"})],
           symbolic=["9 stream bytes (number)", "bit-vector bytes; count 0..17; all-defined byte"],
           stubs=["struct.unpack -> little-endian assembly of symbolic bytes"]),
    Kernel("K2d", "7z LZMA2: dictionary size handed to the decoder == xz format 5.3.1, every property byte 0..39",
           k2_lzma2_dict, targets=lambda: [_sz().SevenZipReader._apply_decoder, _sz().SevenZipReader._decompress_lzma2],
           perturb=["expect_power_of_two"],
           symbolic=["LZMA2 property byte (solver-enumerated, all 40 defined values)"],
           stubs=["lzma as seen from sevenzip -> decoder recording its filter chain"],
           outside=["property byte 40 (4 GiB - 1: the reader falls back to a preset) and invalid bytes > 40"]),
    Kernel("K5", "container detection: a header carrying a format's own signature is routed to that format",
           k5_detect, targets=lambda: [_ae()._detect_archive_type_optimized],
           parts=lambda tier: [{"len": 512}, {"len": 300}],
           perturb=[("expect_gzip_for_all", {"len": 512})],
           symbolic=["all 512 (300) bytes of the first block"],
           choices=["which reference signature the block carries (zip local header / empty zip, 7z, gzip, bzip2, xz, "
                    "POSIX ustar, GNU tar)"],
           stubs=["BytesIO -> header holder (seek/read)"],
           outside=["old V7 tar (no magic) and blocks that carry two signatures at once"]),
    Kernel("K6", "tar as the standard library writes it (ustar/GNU/pax x plain/gz/bz2/xz): all members, in order, own text",
           k6_tar_formats, targets=lambda: [_ae().read_archive, _ae()._extract_from_tar_optimized],
           strength="structure", perturb=["expect_reversed"],
           choices=["tar header format", "compression wrapper", "1..3 members", "long first member name (GNU longname / "
                    "pax header)", "directory entry first"]),
    Kernel("K3", "member filter: exactly the visible, supported, non-nested members are processed (shared with C09/K3)",
           lambda ctx: __import__("vf.props.c09", fromlist=["x"]).k3_skip_rules(ctx),
           targets=lambda: [_ae()._should_skip_file],
           parts=lambda tier: [{"len": n} for n in range(0, (6 if tier == "quick" else 9))],
           perturb=[("expect_nested_processed", {"len": 5})],
           symbolic=["every character of the member base name (length 0..5, thorough 8)"],
           choices=["directory prefix (none, plain, __MACOSX/, dot-directory, nested)", "MIME answer class"],
           stubs=["router tables as lookup proxies, mimetypes -> arbitrary oracle (as C07)"],
           timeout={"quick": 280, "thorough": 2400}),
    Kernel("K4", "ZIP/TAR loops: archive order, archive!/member labels, extractor by basename, a corrupt member affects only itself",
           k4_order_labels, targets=lambda: [_ae()._extract_from_zip_optimized, _ae()._extract_from_tar_optimized,
                                             _ae()._process_archive_entry],
           parts=lambda tier: [{"fmt": "zip"}, {"fmt": "tar"}], strength="structure",
           perturb=[("expect_reversed", {"fmt": "zip"})],
           choices=["0..3 members", "member name", "member corrupt?"],
           stubs=["zipfile/tarfile -> fake containers", "extractor lookup -> recording extractor that fails on corrupt payloads"]),
]

META = {
    "level_text": "The real 7z layout code (_build_file_list, extractall, _decompress_folder, _extract_files_from_folder) runs "
                  "on an archive body of (offset,length) descriptors with every member size and the pack position symbolic: "
                  "z3 decides that each member is written from exactly its own byte range for all sizes, 1..3 folders x 1..2 "
                  "streams; number and bit-vector decoding are compared with the 7z specification on fully symbolic bytes; "
                  "order, labels and failure isolation of the ZIP/TAR loops are explored on fake containers; the LZMA2 dictionary size "
                  "handed to the decoder is compared with the xz specification for every property byte, container detection "
                  "runs on a fully symbolic first block against the formats' own signatures, and tar archives in all three "
                  "header formats x four wrappers go through read_archive.",
    "level_note": "Trusted: COPY coder semantics; decompressors are C libraries. Counterexamples of K1 are also replayed "
                  "through read_archive on a real COPY-coder 7z written by the harness.",
    "technique": "symbolic execution of the 7z reader on symbolic sizes / bytes (symrun SymInt, SymBV), equality with the "
                 "format specification, replay through a harness-written 7z",
}
