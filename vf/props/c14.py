"""C14 - images are returned bit-exact, numbered, on the right unit.

Kernels
  K1   dimension sniffers vs the file-format specifications on symbolic header bytes
       (docx/pptx/xlsx._get_image_pixel_dimensions, image_utils.detect_image_type +
       get_image_dimensions / get_jpeg_dimensions): "its pixel size when the file declares one",
       "the matching content type"
  K1r  relational: the three copies of _get_image_pixel_dimensions agree on EVERY input
       (fully symbolic buffer, no well-formedness assumption)
  K1s  the struct stand-in used for image_utils agrees with the real struct module
  K2   relationship-target resolution (pptx._normalize_relative_path, xlsx._resolve_drawing_path /
       _resolve_image_path, docx "word/" + target through _extract_images_from_context, epub
       resolve_href) on a Target whose every character is symbolic, vs OPC / RFC 3986 reference
       resolution for the three shapes the property names (relative, parent-relative, absolute)
  K2s  the CharStr-aware source variants used by K2 == the original functions
  K3   structure exploration through the public readers: generated pptx/docx/xlsx/epub/odp packages
       (units x images x present/missing x relationship order x failing media read): bit-exact bytes,
       nothing extra, document order, numbers 1..n, content type, pixel size, unit attribution, unit
       views == document iterators
  K3v  unit views vs document iterators on content instances (pdf, pptx, xlsx, odp, ods)
  K5   generated PDFs: JPEG image XObjects announced by every form of /Filter (name, one-element array,
       transport filters in front of DCTDecode) through read_pdf
  K4   shared media x access order: generated pptx/docx/xlsx/epub/odp packages in which every anchor
       chooses the media part it shows (a new one or any part shown earlier: one relationship reused,
       several relationships with one Target, the same part on several units), read by a consumer whose
       opening / chunked reading of two returned images is interleaved in every possible way: each
       image still delivers the embedded file, numbering/order/attribution as in K3

Oracles are written from the file-format specifications (PNG 1.2 section 11.2.2, GIF89a section 18,
BMP BITMAPFILEHEADER + DIB header, ITU T.81 Annex B), from ECMA-376 part 2 (OPC) / RFC 3986 5.2 and
from the property text, not from the code.  Every deviation of the library found so far is recorded
in /verif/known_findings.json with a class predicate over the harness inputs; the info fields
``variant``, ``shape``, ``explained``, ``restart``, ``single_gap`` exist for those predicates.
"""
import io
import struct as _real_struct
import sys

import z3

from vf.core import Kernel
from vf import symrun as S


# ---------------------------------------------------------------------------------------
# repository access (never at import time)
# ---------------------------------------------------------------------------------------

def _mods():
    from sharepoint2text.parsing.extractors.ms_modern import docx_extractor, pptx_extractor, xlsx_extractor
    from sharepoint2text.parsing.extractors.util import image_utils
    return {"docx": docx_extractor, "pptx": pptx_extractor, "xlsx": xlsx_extractor, "util": image_utils}


# ---------------------------------------------------------------------------------------
# byte helpers working on bytes and on SymBytes alike
# ---------------------------------------------------------------------------------------

def _u(b, off, n, order):
    return S._from_bytes(list(b[off:off + n]), order)


def _sgn(b, off, n, order):
    return S._from_bytes(list(b[off:off + n]), order, signed=True)


def _eq(a, b):
    """equality of two optional numbers -> python bool or SymBool"""
    if a is None or b is None:
        return a is None and b is None
    return a == b


def _both(a, b):
    if a is True:
        return b
    if b is True:
        return a
    if a is False or b is False:
        return False
    return a & b


def _not(x):
    return (not x) if isinstance(x, bool) else ~x


def _conc_bv(ctx, v, lo, hi):
    """fork a bounded symbolic unsigned value into its concrete values (binary splitting with
    unsigned comparisons); python ints pass through"""
    if isinstance(v, int):
        return v
    while lo < hi:
        mid = (lo + hi) // 2
        if v <= mid:
            hi = mid
        else:
            lo = mid + 1
    ctx.assume(v == lo)
    return lo


class StructShadow:
    """the name ``struct`` as seen from image_utils: unpack/unpack_from of integer codes with an
    explicit byte order, on symbolic buffers; everything else is the real module (K1s checks the
    agreement on concrete buffers, including the error behaviour on short buffers)"""
    error = _real_struct.error
    pack = staticmethod(_real_struct.pack)
    calcsize = staticmethod(_real_struct.calcsize)
    Struct = _real_struct.Struct
    _SIZE = {"B": 1, "b": 1, "H": 2, "h": 2, "I": 4, "i": 4, "L": 4, "l": 4, "Q": 8, "q": 8}
    _ORDER = {"<": "little", ">": "big", "!": "big"}

    @classmethod
    def _parse(cls, fmt):
        """-> (byte order, [(size, signed), ...]) for an explicit order followed by integer codes"""
        if len(fmt) < 2 or fmt[0] not in cls._ORDER or any(c not in cls._SIZE for c in fmt[1:]):
            raise S.Unsupported("struct format %r" % (fmt,))
        return cls._ORDER[fmt[0]], [(cls._SIZE[c], c in "bhilq") for c in fmt[1:]]

    @classmethod
    def _fields(cls, buf, offset, order, codes):
        out = []
        for size, signed in codes:
            out.append(S._from_bytes(list(buf[offset:offset + size]), order, signed=signed))
            offset += size
        return tuple(out)

    @classmethod
    def unpack(cls, fmt, buf):
        if isinstance(buf, (bytes, bytearray)):
            return _real_struct.unpack(fmt, buf)
        order, codes = cls._parse(fmt)
        size = sum(sz for sz, _ in codes)
        if len(buf) != size:
            raise _real_struct.error("unpack requires a buffer of %d bytes" % size)
        return cls._fields(buf, 0, order, codes)

    @classmethod
    def unpack_from(cls, fmt, buf, offset=0):
        if isinstance(buf, (bytes, bytearray)):
            return _real_struct.unpack_from(fmt, buf, offset)
        order, codes = cls._parse(fmt)
        size = sum(sz for sz, _ in codes)
        if offset < 0:
            offset += len(buf)
        if offset < 0 or len(buf) - offset < size:
            raise _real_struct.error("unpack_from requires a buffer of at least %d bytes" % (offset + size))
        return cls._fields(buf, offset, order, codes)


# ---------------------------------------------------------------------------------------
# the specifications
# ---------------------------------------------------------------------------------------

PNG_SIG = b"\x89PNG\r\n\x1a\n"                       # PNG 1.2, 3.1
# ITU T.81 table B.1: SOF0-3, SOF5-7, SOF9-11, SOF13-15 (C4 = DHT, C8 = JPG reserved, CC = DAC)
SOF = (0xC0, 0xC1, 0xC2, 0xC3, 0xC5, 0xC6, 0xC7, 0xC9, 0xCA, 0xCB, 0xCD, 0xCE, 0xCF)
# DIB header sizes whose width/height are signed 32-bit at offsets 18/22 of the file
BMP_INFO_SIZES = (40, 52, 56, 64, 108, 124)
BMP_CORE_SIZE = 12                                   # BITMAPCOREHEADER: unsigned 16-bit at 18/20
CONTENT_TYPE = {"png": "image/png", "jpeg": "image/jpeg", "gif": "image/gif", "bmp": "image/bmp"}


def _member(v, values):
    """v in values as ONE disjunction (python bool or SymBool)"""
    out = False
    for x in values:
        r = (v == x)
        if r is True:
            return True
        if r is False:
            continue
        out = r if out is False else (out | r)
    return out


def spec_declared(ctx, data):
    """What a file DECLARES, per its format specification.  Returns (kind, width, height) when the
    bytes are a well-formed beginning of a PNG/GIF/BMP/JPEG that declares a pixel size, or None
    when the specification gives no answer (unknown signature, truncated before the size fields,
    zero/out-of-range size fields, malformed segment chain): nothing is demanded then."""
    p = ctx.perturb
    n = len(data)
    if n >= 8 and data[:8] == PNG_SIG:
        # first chunk must be IHDR: length 13, type "IHDR", width, height (4 bytes each, big-endian,
        # 1..2^31-1)
        if n < 24:
            return None
        if not (data[8:16] == b"\x00\x00\x00\x0dIHDR"):
            return None
        order = "little" if p == "png_little_endian" else "big"
        w, h = _u(data, 16, 4, order), _u(data, 20, 4, order)
        if p == "png_swapped":
            w, h = h, w
        if (w >= 1) & (w <= 0x7FFFFFFF) & (h >= 1) & (h <= 0x7FFFFFFF):
            return ("png", w, h, "")
        return None
    if n >= 6 and _member(data[:6], (b"GIF87a", b"GIF89a")):
        # logical screen descriptor: width, height unsigned 16-bit little-endian at 6, 8
        if n < 10:
            return None
        w = _u(data, 6, 2, "little")
        h = _u(data, 8 if p != "gif_offset" else 7, 2, "little")
        if (w >= 1) & (h >= 1):
            return ("gif", w, h, "")
        return None
    if n >= 2 and data[:2] == b"BM":
        # BITMAPFILEHEADER (14 bytes) then the DIB header, whose first field is its size
        if n < 26:
            return None
        hs = _u(data, 14, 4, "little")
        if _member(hs, BMP_INFO_SIZES):
            w, h = _sgn(data, 18, 4, "little"), _sgn(data, 22, 4, "little")
            if (w >= 1) & (h != 0) & (h > -0x80000000):
                # negative height = top-down bitmap of |height| rows
                return ("bmp", w, h if p == "bmp_height_signed" else S.sym_abs(h), "")
            return None
        if ctx.params.get("bmp_core", True) and hs == BMP_CORE_SIZE:
            w, h = _u(data, 18, 2, "little"), _u(data, 20, 2, "little")
            if (w >= 1) & (h >= 1):
                return ("bmp", w, h, "bmp-core-header")
        return None
    if n >= 4 and data[:2] == b"\xff\xd8":
        return _spec_jpeg(ctx, data)
    return None


def _spec_jpeg(ctx, data):
    """ITU T.81 B.1.1: after SOI a sequence of marker segments FF <marker> <Lhi> <Llo> <L-2 bytes>,
    each marker optionally preceded by fill bytes FF (B.1.1.2); the first SOFn segment is the frame
    header Lf P Y X Nf...: Y = number of lines, X = samples per line (B.2.2).  Anything else before
    the frame header (stand-alone markers, SOS/EOI, a byte that is not FF where a marker must be,
    a segment that does not fit) is outside what a generated image looks like: assumed away."""
    p = ctx.perturb
    n = len(data)
    max_seg = ctx.params.get("segments", 2)
    max_fill = ctx.params.get("fill", 0)
    sof = SOF + ((0xC4,) if p == "jpeg_c4_is_sof" else ())
    exact = ctx.params.get("exact")
    pos = 2
    any_fill = False
    for seg in range(max_seg + 1):
        ctx.assume(pos + 4 <= n)
        ctx.assume(data[pos] == 0xFF)
        fills = 0
        while fills < max_fill and pos + 5 <= n and data[pos + 1] == 0xFF:
            fills += 1
            pos += 1
            any_fill = True
        m = data[pos + 1]
        ctx.assume(m != 0xFF)
        L = _u(data, pos + 2, 2, "big")
        is_sof = _member(m, sof)
        if exact is not None:
            # partition of the input space by the number of segments before the frame header
            ctx.assume(_not(is_sof) if seg < exact else is_sof)
        if is_sof:
            # frame header: Lf = 8 + 3*Nf, Nf >= 1; the whole segment must be present
            ctx.assume(L >= 11)
            ctx.assume(L <= n - pos - 2)
            h = _u(data, pos + 5, 2, "big")
            w = _u(data, pos + (7 if p != "jpeg_plus2_slip" else 9), 2, "big")
            ctx.assume((w >= 1) & (h >= 1))      # Y = 0 means "defined by a DNL marker later"
            return ("jpeg", w, h, "jpeg-fill-bytes" if any_fill else "")
        # segments with a length field that may precede the frame header:
        # C4 DHT, C8 JPG, CC DAC, DB DQT, DC DNL, DD DRI, DE DHP, DF EXP, E0-EF APPn, F0-FD JPGn, FE COM
        ctx.assume((m == 0xC4) | (m == 0xC8) | (m == 0xCC) | ((m >= 0xDB) & (m <= 0xFE)))
        ctx.assume(L >= 2)
        ctx.assume(L <= n - pos - 2 - 4)
        pos = pos + 2 + _conc_bv(ctx, L, 2, n - pos - 6)
    ctx.assume(False)


# ---------------------------------------------------------------------------------------
# K1: sniffers vs specification
# ---------------------------------------------------------------------------------------

def _call_sniffer(ctx, target, data):
    """run the real code of one target on the buffer; returns (content_type or None, (w, h))"""
    mods = _mods()
    m = mods[target]
    if target == "util":
        with ctx.shadow(m, struct=StructShadow, abs=S.sym_abs):
            det = m.detect_image_type(data)
            if det is None:
                return None, (None, None), None
            kind = det[0]
            if ctx.params.get("alias") and kind == "jpeg":
                kind = "jpg"
            dims = m.get_image_dimensions(data, kind)
            direct = m.get_jpeg_dimensions(data) if det[0] == "jpeg" else None
        return det, dims, direct
    sh = dict(int=S.IntShadow, abs=S.sym_abs)
    if hasattr(m, "_JPEG_SOF_MARKERS"):
        sh["_JPEG_SOF_MARKERS"] = S.SymSet(sorted(m._JPEG_SOF_MARKERS))
    with ctx.shadow(m, **sh):
        dims = m._get_image_pixel_dimensions(data)
    return None, dims, None


def _make_buffer(ctx, fmt):
    """the symbolic file beginning for one part of the input space"""
    N = ctx.params["n"]
    if fmt == "hdr":
        # every length 0..N, every byte symbolic; JPEG beginnings are the other part
        n = ctx.choice("length", N + 1)
        data = ctx.fresh_bytes("b", n)
        if n >= 2:
            ctx.assume(~_as_symbool(data[:2] == b"\xff\xd8"))
        return data
    # jpeg: SOI fixed, everything after it symbolic
    body = ctx.fresh_bytes("b", N - 2)
    if ctx.concrete:
        return b"\xff\xd8" + body
    return S.SymBytes([0xFF, 0xD8] + body.e)


def _as_symbool(r):
    if isinstance(r, S.SymBool):
        return r
    return _B(bool(r))


class _B:
    """python bool with ~ meaning logical not (so that the harness reads the same on both kinds)"""

    def __init__(self, v):
        self.v = v

    def __invert__(self):
        return not self.v

    def __bool__(self):
        return self.v


def k1_sniffers(ctx):
    target, fmt = ctx.params["target"], ctx.params["fmt"]
    data = _make_buffer(ctx, fmt)
    if fmt == "hdr":
        # repository code first: its own branches split the symbolic header
        try:
            det, dims, direct = _call_sniffer(ctx, target, data)
        except Exception as e:
            ctx.fail("sniffer-raised", exc=type(e).__name__, msg=str(e)[:100])
        decl = spec_declared(ctx, data)
    else:
        # JPEG: the specification's well-formedness assumptions first (they bound the walk)
        decl = spec_declared(ctx, data)
        try:
            det, dims, direct = _call_sniffer(ctx, target, data)
        except Exception as e:
            ctx.fail("sniffer-raised", exc=type(e).__name__, msg=str(e)[:100])
    ctx.require(isinstance(dims, tuple) and len(dims) == 2, "sniffer-result-shape", got=repr(dims)[:60])
    if decl is None:
        return
    kind, w, h, variant = decl
    if target == "util":
        ctx.require(det is not None and tuple(det) == (kind, CONTENT_TYPE[kind]),
                    "content-type-differs-from-signature", expected=kind, got=repr(det))
        if direct is not None:
            ctx.require(_both(_eq(direct[0], w), _eq(direct[1], h)),
                        "declared-pixel-size-not-returned", kind=kind, variant=variant,
                        via="get_jpeg_dimensions")
    ctx.require(_both(_eq(dims[0], w), _eq(dims[1], h)), "declared-pixel-size-not-returned",
                kind=kind, variant=variant, got=_show(dims), declared=_show((w, h)))


def _show(t):
    return [x if isinstance(x, int) or x is None else "<sym>" for x in t]


def _k1_parts(tier):
    parts = []
    nh = 32 if tier == "quick" else 64
    for t in ("docx", "pptx", "xlsx", "util"):
        parts.append({"target": t, "fmt": "hdr", "n": nh})
        if tier == "quick":
            parts += [{"target": t, "fmt": "jpeg", "n": 28, "segments": 2, "fill": 0, "exact": k} for k in (0, 1, 2)]
            parts.append({"target": t, "fmt": "jpeg", "n": 24, "segments": 1, "fill": 1})
        else:
            parts += [{"target": t, "fmt": "jpeg", "n": 36, "segments": 3, "fill": 0, "exact": k} for k in (0, 1, 2, 3)]
            parts += [{"target": t, "fmt": "jpeg", "n": 30, "segments": 2, "fill": 2, "exact": k} for k in (0, 1, 2)]
    parts.append({"target": "util", "fmt": "jpeg", "n": 24, "segments": 1, "fill": 0, "alias": True})
    return parts


# ---------------------------------------------------------------------------------------
# K1r: the three copies agree on every input
# ---------------------------------------------------------------------------------------

def k1_agree(ctx):
    fmt = ctx.params["fmt"]
    data = _make_buffer(ctx, fmt)
    if fmt == "jpeg" and not ctx.concrete:
        # partition of the JPEG space by the first byte after SOI being FF or not
        first_ff = ctx.params.get("first_ff")
        if first_ff is not None and len(data) > 2:
            ctx.assume(data[2] == 0xFF if first_ff else data[2] != 0xFF)
    res = {}
    for t in ("docx", "pptx", "xlsx"):
        try:
            res[t] = _call_sniffer(ctx, t, data)[1]
        except Exception as e:
            res[t] = ("raised", type(e).__name__)
    a, b, c = res["docx"], res["pptx"], res["xlsx"]
    if ctx.perturb == "pptx_swapped":
        b = (b[1], b[0])
    for name, x in (("pptx", b), ("xlsx", c)):
        if a[0] == "raised" or x[0] == "raised":
            ctx.require(a == x, "copies-disagree", docx=repr(a), other=name, got=repr(x))
        else:
            ctx.require(_both(_eq(a[0], x[0]), _eq(a[1], x[1])), "copies-disagree",
                        other=name, docx=_show(a), got=_show(x))


def _k1r_parts(tier):
    if tier == "quick":
        return [{"fmt": "hdr", "n": 32}, {"fmt": "jpeg", "n": 13, "first_ff": True},
                {"fmt": "jpeg", "n": 13, "first_ff": False}]
    return [{"fmt": "hdr", "n": 64}, {"fmt": "jpeg", "n": 16, "first_ff": True},
            {"fmt": "jpeg", "n": 16, "first_ff": False}]


# ---------------------------------------------------------------------------------------
# K1s: struct stand-in == struct
# ---------------------------------------------------------------------------------------

def k1_struct_shadow(ctx):
    fmts = [">I", ">H", "<i", "<H", "<I", "<h", ">i", "<HH", ">Hi"]
    fmt = fmts[ctx.choice("fmt", len(fmts))]
    size = _real_struct.calcsize(fmt)
    n = ctx.choice("buflen", 7)
    off = ctx.choice("offset", 4)
    raw = ctx.fresh_bytes("b", n)
    sym = raw if not ctx.concrete else S.SymBytes(list(raw))

    def run(f):
        try:
            return ("ok", f())
        except _real_struct.error:
            return ("struct.error", None)

    if ctx.concrete:
        real = bytes(raw)
        a1, b1 = run(lambda: _real_struct.unpack(fmt, real[off:off + size])), \
            run(lambda: StructShadow.unpack(fmt, sym[off:off + size]))
        a2, b2 = run(lambda: _real_struct.unpack_from(fmt, real, off)), \
            run(lambda: StructShadow.unpack_from(fmt, sym, off))
        ctx.require(a1 == b1 and a2 == b2, "struct-shadow-differs", fmt=fmt)
        return
    # symbolic: the stand-in's value must equal the arithmetic definition of the format
    order = "big" if fmt[0] == ">" else "little"
    r = run(lambda: StructShadow.unpack_from(fmt, sym, off))
    if n - off < size:
        ctx.require(r[0] == "struct.error", "struct-shadow-differs", fmt=fmt)
        return
    ctx.require(r[0] == "ok" and len(r[1]) == len(fmt) - 1, "struct-shadow-differs", fmt=fmt)
    pos = off
    for k, code in enumerate(fmt[1:]):
        fsize = _real_struct.calcsize(fmt[0] + code)
        bs = list(sym[pos:pos + fsize])
        pos += fsize
        if order == "little":
            bs = bs[::-1]
        val = 0
        for x in bs:
            val = val * 256 + x.to_int()
        if code.islower() and ctx.perturb != "unsigned_everywhere":
            top = 1 << (8 * fsize - 1)
            val_s = S.SymInt(z3.If(val.z >= top, val.z - 2 * top, val.z))
        else:
            val_s = val
        ctx.require(r[1][k] == val_s, "struct-shadow-differs", fmt=fmt, field=k)


def _k1_targets():
    m = _mods()
    return [m["docx"]._get_image_pixel_dimensions, m["pptx"]._get_image_pixel_dimensions,
            m["xlsx"]._get_image_pixel_dimensions, m["util"].detect_image_type,
            m["util"].get_image_dimensions, m["util"].get_jpeg_dimensions]


# ---------------------------------------------------------------------------------------
# K2: relationship-target resolution vs OPC / RFC 3986 reference resolution
# ---------------------------------------------------------------------------------------

def _sx_concat(*parts):
    """what an f-string without conversions/format specs computes, on str and CharStr alike"""
    if not any(isinstance(p, S.CharStr) for p in parts):
        return "".join(format(p, "") for p in parts)
    out = S.CharStr("")
    for p in parts:
        out = out + (p if isinstance(p, (S.CharStr, str)) else format(p, ""))
    return out


def _sx_join(sep, items):
    items = list(items)
    if not any(isinstance(p, S.CharStr) for p in items):
        return sep.join(items)
    return S.CharStr(sep).join(items)


_REWRITTEN = {}


def _charstr_variant(fn):
    """The function's own source text (read live), with the two constructs a CharStr cannot pass
    through rewritten mechanically: f"...{x}..." -> _sx_concat(...), "<sep>".join(xs) -> _sx_join.
    Compiled in the function's module globals.  Used in symbolic runs only; replay calls the real
    function object, and K2s checks variant == original on concrete strings."""
    import ast
    import inspect
    import textwrap
    if fn in _REWRITTEN:
        return _REWRITTEN[fn]

    class RW(ast.NodeTransformer):
        def visit_JoinedStr(self, node):
            self.generic_visit(node)
            args = []
            for v in node.values:
                if isinstance(v, ast.Constant):
                    args.append(v)
                elif isinstance(v, ast.FormattedValue) and v.conversion == -1 and v.format_spec is None:
                    args.append(v.value)
                else:
                    raise S.Unsupported("f-string with conversion/format spec")
            return ast.copy_location(ast.Call(func=ast.Name("_sx_concat", ast.Load()), args=args, keywords=[]), node)

        def visit_Call(self, node):
            self.generic_visit(node)
            f = node.func
            if isinstance(f, ast.Attribute) and f.attr == "join" and isinstance(f.value, ast.Constant) \
                    and isinstance(f.value.value, str) and len(node.args) == 1 and not node.keywords:
                return ast.copy_location(ast.Call(func=ast.Name("_sx_join", ast.Load()),
                                                  args=[f.value, node.args[0]], keywords=[]), node)
            return node

    src = textwrap.dedent(inspect.getsource(fn))
    tree = ast.parse(src)
    fd = tree.body[0]
    fd.decorator_list = []
    fd.returns = None
    for a in fd.args.args + fd.args.kwonlyargs:
        a.annotation = None
    tree = ast.fix_missing_locations(RW().visit(tree))
    g = dict(fn.__globals__)
    g["_sx_concat"], g["_sx_join"] = _sx_concat, _sx_join
    if "posixpath" in g:
        # stdlib posixpath lifted to symbolic strings from its own source (vf/pathmodel.py)
        from vf import pathmodel
        g["posixpath"] = pathmodel.PosixPath()
    code = compile(tree, inspect.getsourcefile(fn) or "<variant>", "exec")
    exec(code, g)
    out = g[fd.name]
    _REWRITTEN[fn] = out
    return out


def _plain(seg):
    """an ordinary part-name segment: non-empty, neither starting nor ending with a dot"""
    return len(seg) > 0 and seg[0] != "." and seg[-1] != "."


def _join_segs(segs):
    return _sx_join("/", segs)


def _ref_resolve(ctx, base_dir, target):
    """ECMA-376-2 (OPC) 8.3 / RFC 3986 5.2 on the three reference shapes the property names.
    base_dir: directory of the source part as a ZIP name without leading/trailing slash ("" = root).
    Returns (shape, zip member name); shapes outside the three are assumed away."""
    segs = target.split("/")
    stack = [s for s in base_dir.split("/") if s]
    if len(segs) >= 2 and len(segs[0]) == 0:
        # absolute: "/" + plain segments, relative to the package root
        for s in segs[1:]:
            ctx.assume(_plain(s))
        out = list(segs[1:])
        if ctx.perturb == "absolute_under_base":
            out = stack + out
        return "absolute", _join_segs(out)
    k = 0
    while k < len(segs) - 1 and segs[k] == "..":
        k += 1
    for s in segs[k:]:
        ctx.assume(_plain(s))
    if k == 0:
        return "relative", _join_segs(stack + list(segs))
    ctx.assume(k <= len(stack))          # may not climb above the package root
    if ctx.perturb == "dotdot_ignored":
        return "parent-relative", _join_segs(stack + list(segs[k:]))
    return "parent-relative", _join_segs(stack[:len(stack) - k] + list(segs[k:]))


class _DocxCtxStub:
    """what _extract_images_from_context needs from _DocxContext: one image relationship whose
    target is the symbolic string; records the member name the code asks for"""
    PNG = PNG_SIG + b"\x00\x00\x00\x0dIHDR\x00\x00\x00\x02\x00\x00\x00\x03\x08\x02\x00\x00\x00"

    def __init__(self, target):
        self.relationships = {"rId1": {
            "type": "http://schemas.openxmlformats.org/officeDocument/2006/relationships/image",
            "target": target, "target_mode": ""}}
        self.document_body = None
        self.asked = []

    def get_image_data(self, path):
        self.asked.append(path)
        return self.PNG


K2_FUNCS = ("pptx", "docx", "xlsx-drawing", "xlsx-image", "epub")


def _k2_resolve(ctx, fn_name, base_dir, target):
    """the member name the repository code computes for (source directory, target)"""
    m = _mods()
    pick = (lambda f: f) if ctx.concrete else _charstr_variant
    if fn_name == "pptx":
        return pick(m["pptx"]._normalize_relative_path)(base_dir, target)
    if fn_name == "xlsx-drawing":
        # (target, path of the worksheet part that holds the relationship)
        return pick(m["xlsx"]._resolve_drawing_path)(target, base_dir + "/sheet1.xml")
    if fn_name == "xlsx-image":
        # (target, path of the drawing part that holds the relationship)
        return pick(m["xlsx"]._resolve_image_path)(target, base_dir + "/drawing1.xml")
    if fn_name == "epub":
        from sharepoint2text.parsing.extractors import epub_extractor as ep

        class FakeEpub:
            _opf_dir = base_dir + "/" if base_dir else ""
        return pick(ep._EpubContext.resolve_href)(FakeEpub(), target)
    if fn_name == "docx":
        d = m["docx"]
        stub = _DocxCtxStub(target)
        fnv = pick(d._extract_images_from_context)
        with ctx.shadow(fnv.__globals__, _CONTENT_TYPE_MAP=S.SymMap(d._CONTENT_TYPE_MAP)):
            imgs = fnv(stub)
        ctx.require(len(stub.asked) == 1 and len(imgs) == 1 and imgs[0].error is None,
                    "docx-image-relationship-not-read", asked=len(stub.asked))
        return stub.asked[0]
    raise KeyError(fn_name)


_K2_BASES = {"pptx": ["ppt/slides", "p"], "docx": ["word"], "xlsx-drawing": ["xl/worksheets", "xl"],
             "xlsx-image": ["xl/drawings", "d"], "epub": ["OEBPS", ""]}


def k2_targets(ctx):
    fn_name, n = ctx.params["fn"], ctx.params["len"]
    bases = _K2_BASES[fn_name]
    base_dir = bases[ctx.choice("base", len(bases))]
    # alphabet '.', '/', '0': every combination of dot segments, separators and name characters
    target = ctx.fresh_chars("target", n, 46, 48)
    shape, exp = _ref_resolve(ctx, base_dir, target)
    try:
        got = _k2_resolve(ctx, fn_name, base_dir, target)
    except Exception as e:
        ctx.fail("resolution-raised", exc=type(e).__name__, msg=str(e)[:100], shape=shape)
    ctx.require(got == exp, "target-resolved-to-wrong-member", shape=shape, fn=fn_name, base=base_dir,
                got=str(got), expected=str(exp))


def _k2_parts(tier):
    top = 7 if tier == "quick" else 10
    return [{"fn": f, "len": n} for f in K2_FUNCS for n in range(1, top + 1)]


def k2_variant_check(ctx):
    """the CharStr variants compute the same as the original functions on concrete strings"""
    m = _mods()
    from sharepoint2text.parsing.extractors import epub_extractor as ep
    fns = [m["pptx"]._normalize_relative_path, m["xlsx"]._resolve_drawing_path, m["xlsx"]._resolve_image_path]
    vocab = ["", "a.png", "../media/a.png", "/ppt/media/a.png", "../../a", "a/../b", "./a", "x/y/z.png", "..", "/",
             "//a", "a//b", "../a/../b", "media/../a.png", "/a/../b"]
    t = vocab[ctx.choice("target", len(vocab))]
    f = fns[ctx.choice("fn", len(fns))]
    v = _charstr_variant(f)
    args = ("ppt/slides", t) if f is fns[0] else (t, "xl/worksheets/sheet1.xml" if f is fns[1] else "xl/drawings/drawing1.xml")
    a, b = f(*args), v(*args)
    if ctx.perturb == "variant_differs":
        b = b + "x"
    # (the lifted posixpath model hands back its own string type also for plain input: compare values)
    ctx.require(a == str(b) and isinstance(b, (str, S.CharStr)), "charstr-variant-differs", fn=f.__name__, target=t,
                a=a, b=str(b))
    # and on a CharStr holding the same characters
    c = v(*[S.CharStr(x) if x is t else x for x in args]) if not ctx.concrete else a
    ctx.require(str(c) == a, "charstr-variant-differs", fn=f.__name__, target=t, a=a, b=str(c))


def _k2_targets_fns():
    m = _mods()
    from sharepoint2text.parsing.extractors import epub_extractor as ep
    return [m["pptx"]._normalize_relative_path, m["xlsx"]._resolve_drawing_path, m["xlsx"]._resolve_image_path,
            m["docx"]._extract_images_from_context, ep._EpubContext.resolve_href]


# ---------------------------------------------------------------------------------------
# K3: numbering, unit attribution, unit views - generated packages through the public readers
# ---------------------------------------------------------------------------------------
import zipfile
import zlib


def make_png(w, h):
    def ch(t, d):
        return _real_struct.pack(">I", len(d)) + t + d + _real_struct.pack(">I", zlib.crc32(t + d) & 0xFFFFFFFF)
    raw = b"".join(b"\x00" + b"\x10\x20\x30" * w for _ in range(h))
    return (b"\x89PNG\r\n\x1a\n" + ch(b"IHDR", _real_struct.pack(">IIBBBBB", w, h, 8, 2, 0, 0, 0))
            + ch(b"IDAT", zlib.compress(raw)) + ch(b"IEND", b""))

def make_gif(w, h):
    return b"GIF89a" + _real_struct.pack("<HH", w, h) + b"\x80\x00\x00" + b"\x00\x00\x00\xff\xff\xff" + \
        b"\x2c\x00\x00\x00\x00" + _real_struct.pack("<HH", w, h) + b"\x00\x02\x02\x4c\x01\x00\x3b"

def make_bmp(w, h):
    row = (b"\x10\x20\x30" * w + b"\x00" * 3)[: (3 * w + 3) // 4 * 4]
    px = row * h
    return b"BM" + _real_struct.pack("<IHHI", 54 + len(px), 0, 0, 54) + \
        _real_struct.pack("<IiiHHIIiiII", 40, w, h, 1, 24, 0, len(px), 2835, 2835, 0, 0) + px

def make_jpeg(w, h):
    # SOI, APP0/JFIF, DQT, SOF0 (1 component), then scan bytes (never decoded by the library)
    app0 = b"\xff\xe0" + _real_struct.pack(">H", 16) + b"JFIF\x00\x01\x01\x00\x00\x01\x00\x01\x00\x00"
    dqt = b"\xff\xdb" + _real_struct.pack(">H", 67) + b"\x00" + bytes([16] * 64)
    sof = b"\xff\xc0" + _real_struct.pack(">HBHHB", 11, 8, h, w, 1) + b"\x01\x11\x00"
    sos = b"\xff\xda" + _real_struct.pack(">H", 8) + b"\x01\x01\x00\x00\x3f\x00" + b"\x12\x34\x56"
    return b"\xff\xd8" + app0 + dqt + sof + sos + b"\xff\xd9"

KINDS = [("png", "image/png", make_png), ("jpeg", "image/jpeg", make_jpeg), ("gif", "image/gif", make_gif),
         ("bmp", "image/bmp", make_bmp)]

RELNS = "http://schemas.openxmlformats.org/package/2006/relationships"
R = "http://schemas.openxmlformats.org/officeDocument/2006/relationships"
A = "http://schemas.openxmlformats.org/drawingml/2006/main"

def rels_xml(items):
    return ('<?xml version="1.0" encoding="UTF-8"?><Relationships xmlns="%s">%s</Relationships>' % (
        RELNS, "".join('<Relationship Id="%s" Type="%s" Target="%s"/>' % i for i in items)))

def content_types(overrides):
    return ('<?xml version="1.0" encoding="UTF-8"?><Types xmlns="http://schemas.openxmlformats.org/package/2006/content-types">'
            '<Default Extension="rels" ContentType="application/vnd.openxmlformats-package.relationships+xml"/>'
            '<Default Extension="xml" ContentType="application/xml"/><Default Extension="png" ContentType="image/png"/>'
            '<Default Extension="jpeg" ContentType="image/jpeg"/><Default Extension="gif" ContentType="image/gif"/>'
            '<Default Extension="bmp" ContentType="image/bmp"/>%s</Types>' % "".join(
                '<Override PartName="%s" ContentType="%s"/>' % o for o in overrides))

def _zip(members):
    b = io.BytesIO()
    seen = set()
    with zipfile.ZipFile(b, "w", zipfile.ZIP_DEFLATED) as z:
        for name, data in members:
            if name in seen:            # a media part shown by several anchors is stored once
                continue
            seen.add(name)
            z.writestr(name, data)
    b.seek(0)
    return b

# model: units = [[img, ...], ...]; img = dict(ext, data, present)

_PPTX_TABLE = ('<p:graphicFrame><p:nvGraphicFramePr><p:cNvPr id="90" name="T"/><p:cNvGraphicFramePr/><p:nvPr/>'
               '</p:nvGraphicFramePr><p:xfrm><a:off x="0" y="900000"/><a:ext cx="10" cy="10"/></p:xfrm><a:graphic>'
               '<a:graphicData uri="http://schemas.openxmlformats.org/drawingml/2006/table"><a:tbl><a:tr h="1"><a:tc>'
               '<a:txBody><a:bodyPr/><a:p><a:r><a:t>cell of slide %d</a:t></a:r></a:p></a:txBody></a:tc></a:tr></a:tbl>'
               '</a:graphicData></a:graphic></p:graphicFrame>')


def _rid_for(rid_of, one_rel, m, k):
    """relationship id of the k-th anchor of a part showing media number m: with one_rel a part holds ONE
    relationship per media part and repeated anchors reuse its id, otherwise one relationship per anchor
    (several relationships with the same Target).  -> (id, is a new relationship)"""
    if one_rel and m in rid_of:
        return rid_of[m], False
    rid_of[m] = "rId%d" % (k + 1)
    return rid_of[m], True


def write_pptx(units, reverse_rels=False, one_rel=False, omit_empty_rels=False):
    P = "http://schemas.openxmlformats.org/presentationml/2006/main"
    mem = [("[Content_Types].xml", content_types(
        [("/ppt/presentation.xml", "application/vnd.openxmlformats-officedocument.presentationml.presentation.main+xml")] +
        [("/ppt/slides/slide%d.xml" % (i + 1), "application/vnd.openxmlformats-officedocument.presentationml.slide+xml")
         for i in range(len(units))])),
        ("_rels/.rels", rels_xml([("rId1", R + "/officeDocument", "ppt/presentation.xml")]))]
    prs_rels = [("rId%d" % (i + 1), R + "/slide", "slides/slide%d.xml" % (i + 1)) for i in range(len(units))]
    mem.append(("ppt/_rels/presentation.xml.rels", rels_xml(prs_rels[::-1] if reverse_rels else prs_rels)))
    mem.append(("ppt/presentation.xml",
                '<?xml version="1.0" encoding="UTF-8"?><p:presentation xmlns:p="%s" xmlns:r="%s"><p:sldIdLst>%s</p:sldIdLst></p:presentation>' % (
                    P, R, "".join('<p:sldId id="%d" r:id="rId%d"/>' % (256 + i, i + 1) for i in range(len(units))))))
    n = 0
    for si, imgs in enumerate(units):
        pics, rl, rid_of = [], [], {}
        for k, im in enumerate(imgs):
            n += 1
            m = im.get("media", n)          # media number: anchors of the shared-media kernel name theirs
            rid, new = _rid_for(rid_of, one_rel, m, k)
            if new and not im.get("dangling"):      # dangling: the anchor names an id its part has no relationship for
                rl.append((rid, R + "/image", "../media/image%d.%s" % (m, im["ext"])))
            pics.append('<p:pic><p:nvPicPr><p:cNvPr id="%d" name="Picture %d"/><p:cNvPicPr/><p:nvPr/></p:nvPicPr>'
                        '<p:blipFill><a:blip r:embed="%s"/></p:blipFill><p:spPr><a:xfrm><a:off x="0" y="%d"/>'
                        '<a:ext cx="952500" cy="952500"/></a:xfrm></p:spPr></p:pic>' % (k + 2, k + 1, rid, 1000 * (k + 1)))
            if im["present"]:
                mem.append(("ppt/media/image%d.%s" % (m, im["ext"]), im["data"]))
        mem.append(("ppt/slides/slide%d.xml" % (si + 1),
                    '<?xml version="1.0" encoding="UTF-8"?><p:sld xmlns:p="%s" xmlns:a="%s" xmlns:r="%s"><p:cSld><p:spTree>'
                    '<p:nvGrpSpPr><p:cNvPr id="1" name=""/><p:cNvGrpSpPr/><p:nvPr/></p:nvGrpSpPr><p:grpSpPr/>%s</p:spTree></p:cSld></p:sld>' % (
                        P, A, R, "".join(pics) + _PPTX_TABLE % (si + 1))))
        if rl or not omit_empty_rels:
            mem.append(("ppt/slides/_rels/slide%d.xml.rels" % (si + 1), rels_xml(rl[::-1] if reverse_rels else rl)))
    return _zip(mem)

def write_docx(units, reverse_rels=False, one_rel=False, omit_empty_rels=False):
    W = "http://schemas.openxmlformats.org/wordprocessingml/2006/main"
    imgs = units[0]
    mem = [("[Content_Types].xml", content_types(
        [("/word/document.xml", "application/vnd.openxmlformats-officedocument.wordprocessingml.document.main+xml")])),
        ("_rels/.rels", rels_xml([("rId1", R + "/officeDocument", "word/document.xml")]))]
    paras, rl, rid_of = ['<w:p><w:r><w:t>intro</w:t></w:r></w:p>'], [], {}
    for k, im in enumerate(imgs):
        m = im.get("media", k + 1)
        rid, new = _rid_for(rid_of, one_rel, m, k + 9)
        if new and not im.get("dangling"):
            rl.append((rid, R + "/image", "media/image%d.%s" % (m, im["ext"])))
        paras.append('<w:p><w:r><w:drawing><wp:inline><a:graphic><a:graphicData><pic:pic><pic:nvPicPr><pic:cNvPr id="%d" name="Picture %d"/>'
                     '</pic:nvPicPr><pic:blipFill><a:blip r:embed="%s"/></pic:blipFill></pic:pic></a:graphicData></a:graphic>'
                     '</wp:inline></w:drawing></w:r></w:p>' % (k + 1, k + 1, rid))
        if im["present"]:
            mem.append(("word/media/image%d.%s" % (m, im["ext"]), im["data"]))
    mem.append(("word/document.xml",
                '<?xml version="1.0" encoding="UTF-8"?><w:document xmlns:w="%s" xmlns:wp="http://schemas.openxmlformats.org/drawingml/2006/wordprocessingDrawing" '
                'xmlns:a="%s" xmlns:pic="http://schemas.openxmlformats.org/drawingml/2006/picture" xmlns:r="%s"><w:body>%s</w:body></w:document>' % (
                    W, A, R, "".join(paras))))
    if rl or not omit_empty_rels:
        mem.append(("word/_rels/document.xml.rels", rels_xml(rl[::-1] if reverse_rels else rl)))
    return _zip(mem)

def write_epub(units, reverse_rels=False, one_rel=False):
    imgs = [im for u in units for im in u]
    items = ['<item id="ch%d" href="ch%d.xhtml" media-type="application/xhtml+xml"/>' % (i + 1, i + 1) for i in range(len(units))]
    img_items = []
    mem = [("mimetype", "application/epub+zip"),
           ("META-INF/container.xml", '<?xml version="1.0"?><container version="1.0" xmlns="urn:oasis:names:tc:opendocument:xmlns:container">'
            '<rootfiles><rootfile full-path="OEBPS/content.opf" media-type="application/oebps-package+xml"/></rootfiles></container>')]
    n = 0
    for ui, u in enumerate(units):
        body = ["<p>chapter %d</p>" % (ui + 1)]
        for im in u:
            n += 1
            m = im.get("media", n)
            item = '<item id="img%d" href="images/i%d.%s" media-type="%s"/>' % (m, m, im["ext"], im["ctype"])
            if item not in img_items:       # one manifest item per resource, however often it is shown
                img_items.append(item)
            body.append('<p><img src="images/i%d.%s" alt="x"/></p>' % (m, im["ext"]))
            if im["present"]:
                mem.append(("OEBPS/images/i%d.%s" % (m, im["ext"]), im["data"]))
        mem.append(("OEBPS/ch%d.xhtml" % (ui + 1), '<?xml version="1.0" encoding="UTF-8"?><html xmlns="http://www.w3.org/1999/xhtml"><head><title>c%d</title></head><body>%s</body></html>' % (ui + 1, "".join(body))))
    if reverse_rels:
        img_items = img_items[::-1]
    mem.append(("OEBPS/content.opf", '<?xml version="1.0" encoding="UTF-8"?><package xmlns="http://www.idpf.org/2007/opf" version="3.0" unique-identifier="id">'
                '<metadata xmlns:dc="http://purl.org/dc/elements/1.1/"><dc:title>t</dc:title><dc:identifier id="id">x</dc:identifier><dc:language>en</dc:language></metadata>'
                '<manifest>%s</manifest><spine>%s</spine></package>' % ("".join(items + img_items), "".join('<itemref idref="ch%d"/>' % (i + 1) for i in range(len(units))))))
    return _zip(mem)

def write_odp(units, reverse_rels=False, one_rel=False):
    NS = ('xmlns:office="urn:oasis:names:tc:opendocument:xmlns:office:1.0" xmlns:draw="urn:oasis:names:tc:opendocument:xmlns:drawing:1.0" '
          'xmlns:text="urn:oasis:names:tc:opendocument:xmlns:text:1.0" xmlns:xlink="http://www.w3.org/1999/xlink" '
          'xmlns:svg="urn:oasis:names:tc:opendocument:xmlns:svg-compatible:1.0" xmlns:presentation="urn:oasis:names:tc:opendocument:xmlns:presentation:1.0" '
          'xmlns:table="urn:oasis:names:tc:opendocument:xmlns:table:1.0"')
    mem = [("mimetype", "application/vnd.oasis.opendocument.presentation")]
    man = ['<manifest:file-entry manifest:full-path="/" manifest:media-type="application/vnd.oasis.opendocument.presentation"/>',
           '<manifest:file-entry manifest:full-path="content.xml" manifest:media-type="text/xml"/>']
    pages, n = [], 0
    for ui, u in enumerate(units):
        frames = []
        for im in u:
            n += 1
            href = "Pictures/i%d.%s" % (im.get("media", n), im["ext"])
            frames.append('<draw:frame draw:name="f%d" svg:x="1cm" svg:y="%dcm"><draw:image xlink:href="%s" xlink:type="simple"/></draw:frame>' % (n, n, href))
            entry = '<manifest:file-entry manifest:full-path="%s" manifest:media-type="%s"/>' % (href, im["ctype"])
            if im["present"] and entry not in man:
                mem.append((href, im["data"]))
                man.append(entry)
        pages.append('<draw:page draw:name="page%d">%s</draw:page>' % (ui + 1, "".join(frames)))
    mem.append(("content.xml", '<?xml version="1.0" encoding="UTF-8"?><office:document-content %s office:version="1.2"><office:body><office:presentation>%s</office:presentation></office:body></office:document-content>' % (NS, "".join(pages))))
    mem.append(("META-INF/manifest.xml", '<?xml version="1.0" encoding="UTF-8"?><manifest:manifest xmlns:manifest="urn:oasis:names:tc:opendocument:xmlns:manifest:1.0">%s</manifest:manifest>' % "".join(man)))
    return _zip(mem)

_S_NS = "http://schemas.openxmlformats.org/spreadsheetml/2006/main"
_XDR = "http://schemas.openxmlformats.org/drawingml/2006/spreadsheetDrawing"

def write_xlsx(units, reverse_rels=False, swap_files=False, anchors=("one",), ext_px=None, one_rel=False,
               omit_empty_rels=False):
    """units: per sheet (tab order) list of images.  swap_files: the first tab lives in sheet2.xml and the
    second in sheet1.xml (what Excel leaves behind after the tabs are reordered)."""
    ns = len(units)
    file_of = list(range(1, ns + 1))
    if swap_files and ns == 2:
        file_of = [2, 1]
    mem = [("[Content_Types].xml", content_types(
        [("/xl/workbook.xml", "application/vnd.openxmlformats-officedocument.spreadsheetml.sheet.main+xml")] +
        [("/xl/worksheets/sheet%d.xml" % f, "application/vnd.openxmlformats-officedocument.spreadsheetml.worksheet+xml") for f in file_of] +
        [("/xl/drawings/drawing%d.xml" % f, "application/vnd.openxmlformats-officedocument.drawing+xml") for f in file_of])),
        ("_rels/.rels", rels_xml([("rId1", R + "/officeDocument", "xl/workbook.xml")]))]
    mem.append(("xl/workbook.xml", '<?xml version="1.0" encoding="UTF-8"?><workbook xmlns="%s" xmlns:r="%s"><sheets>%s</sheets></workbook>' % (
        _S_NS, R, "".join('<sheet name="Tab%d" sheetId="%d" r:id="rId%d"/>' % (i + 1, i + 1, i + 1) for i in range(ns)))))
    mem.append(("xl/_rels/workbook.xml.rels", rels_xml([("rId%d" % (i + 1), R + "/worksheet", "worksheets/sheet%d.xml" % file_of[i]) for i in range(ns)])))
    n = 0
    for si, imgs in enumerate(units):
        f = file_of[si]
        mem.append(("xl/worksheets/sheet%d.xml" % f, '<?xml version="1.0" encoding="UTF-8"?><worksheet xmlns="%s" xmlns:r="%s"><sheetData><row r="1"><c r="A1" t="inlineStr"><is><t>tab %d</t></is></c></row></sheetData><drawing r:id="rId1"/></worksheet>' % (_S_NS, R, si + 1)))
        mem.append(("xl/worksheets/_rels/sheet%d.xml.rels" % f, rels_xml([("rId1", R + "/drawing", "../drawings/drawing%d.xml" % f)])))
        anchors_xml, rl, rid_of = [], [], {}
        for k, im in enumerate(imgs):
            n += 1
            m = im.get("media", n)
            rid, new = _rid_for(rid_of, one_rel, m, k)
            if new and not im.get("dangling"):      # dangling: the anchor names an id its part has no relationship for
                rl.append((rid, R + "/image", "../media/image%d.%s" % (m, im["ext"])))
            pic = ('<xdr:pic><xdr:nvPicPr><xdr:cNvPr id="%d" name="Picture %d"/><xdr:cNvPicPr/></xdr:nvPicPr><xdr:blipFill><a:blip r:embed="%s"/></xdr:blipFill><xdr:spPr/></xdr:pic><xdr:clientData/>' % (k + 2, k + 1, rid))
            kind = anchors[k % len(anchors)]
            frm = '<xdr:from><xdr:col>0</xdr:col><xdr:colOff>0</xdr:colOff><xdr:row>%d</xdr:row><xdr:rowOff>0</xdr:rowOff></xdr:from>' % (k * 3)
            if kind == "one":
                e = ext_px or im["size"]
                anchors_xml.append('<xdr:oneCellAnchor>%s<xdr:ext cx="%d" cy="%d"/>%s</xdr:oneCellAnchor>' % (frm, e[0] * 9525, e[1] * 9525, pic))
            else:
                to = '<xdr:to><xdr:col>2</xdr:col><xdr:colOff>0</xdr:colOff><xdr:row>%d</xdr:row><xdr:rowOff>0</xdr:rowOff></xdr:to>' % (k * 3 + 2)
                anchors_xml.append('<xdr:twoCellAnchor>%s%s%s</xdr:twoCellAnchor>' % (frm, to, pic))
            if im["present"]:
                mem.append(("xl/media/image%d.%s" % (m, im["ext"]), im["data"]))
        mem.append(("xl/drawings/drawing%d.xml" % f, '<?xml version="1.0" encoding="UTF-8"?><xdr:wsDr xmlns:xdr="%s" xmlns:a="%s" xmlns:r="%s">%s</xdr:wsDr>' % (_XDR, A, R, "".join(anchors_xml))))
        if rl or not omit_empty_rels:
            mem.append(("xl/drawings/_rels/drawing%d.xml.rels" % f, rels_xml(rl[::-1] if reverse_rels else rl)))
    return _zip(mem)


def _k3_model(ctx, n_units, max_per_unit):
    """symbolic structure -> units = [[image dict]]: count per unit, present/missing per image,
    kind and pixel size by position (distinct bytes per image)"""
    units, n = [], 0
    for u in range(n_units):
        k = ctx.choice("images_on_unit%d" % u, max_per_unit + 1)
        row = []
        for j in range(k):
            dangling = False
            if ctx.params.get("dangling"):
                # "referenced but missing" at either level: the media part is absent from the package, or the
                # anchor's relationship id has no relationship in its own part (the same id string does exist
                # in the parts of the other units: every part numbers its relationships rId1, rId2, ...)
                state = ctx.choice("anchor%d_%d_present_mediamissing_relationshipmissing" % (u, j), 3)
                present, dangling = state == 0, state == 2
            else:
                present = not ctx.flag("missing%d_%d" % (u, j))
            ext, ctype, mk = KINDS[n % 4]
            n += 1
            size = (3 + n, 5 + 2 * n)
            row.append(dict(ext=ext, ctype=ctype, data=mk(*size), present=present, size=size, dangling=dangling))
        units.append(row)
    return units


def _k3_formats():
    from sharepoint2text.parsing.extractors.ms_modern.pptx_extractor import read_pptx
    from sharepoint2text.parsing.extractors.ms_modern.docx_extractor import read_docx
    from sharepoint2text.parsing.extractors.epub_extractor import read_epub
    from sharepoint2text.parsing.extractors.open_office.odp_extractor import read_odp
    # name -> (writer, reader, units are pages/slides/sheets, max units)
    from sharepoint2text.parsing.extractors.ms_modern.xlsx_extractor import read_xlsx
    return {"pptx": (write_pptx, read_pptx, True, 2), "docx": (write_docx, read_docx, False, 1),
            "epub": (write_epub, read_epub, False, 2), "odp": (write_odp, read_odp, True, 2),
            "xlsx": (write_xlsx, read_xlsx, True, 2)}


def _read_fault(real, fail_at):
    """ZipContext.read_bytes stand-in (a plain function, so it binds like the method it replaces): the
    k-th read of an image member raises"""
    count = [0]

    def read_bytes(self, path):
        if path.rsplit(".", 1)[-1].lower() in ("png", "jpeg", "gif", "bmp"):
            count[0] += 1
            if count[0] == fail_at:
                raise OSError("injected read failure")
        return real(self, path)
    return read_bytes


def k3_packages(ctx):
    fmt = ctx.params["format"]
    writer, reader, unit_format, max_units = _k3_formats()[fmt]
    n_units = 1 + ctx.choice("extra_units", max_units)
    units = _k3_model(ctx, n_units, ctx.params["per_unit"])
    reverse = ctx.flag("relationship_order_reversed")
    if ctx.params.get("format") == "epub":
        # EPUB images are package resources; their order IS the manifest order (weaker reading of
        # "document order", see DESIGN): the manifest is always written in the harness's order
        reverse = False
    flat = [im for u in units for im in u if im["present"]]
    fail_at = 0
    if ctx.params.get("faults") and flat:
        fail_at = ctx.choice("read_failure_at", len(flat) + 1)       # 0 = no failure
    opts = {}
    if ctx.params.get("dangling"):
        opts["omit_empty_rels"] = ctx.flag("relationship_part_without_entries_omitted")
    elif fmt == "xlsx" and not ctx.params.get("faults"):
        # tabs reordered after creation (first tab stored in sheet2.xml), anchor kinds, displayed size
        if n_units == 2:
            opts["swap_files"] = ctx.flag("tab_order_differs_from_file_numbers")
        opts["anchors"] = [("one",), ("two",), ("two", "one")][ctx.choice("anchor_kinds", 3)]
        if ctx.flag("picture_resized_on_sheet"):
            opts["ext_px"] = (100, 50)
    blob = writer(units, reverse, **opts)
    from sharepoint2text.parsing.extractors.util import zip_context as zcm
    try:
        if fail_at:
            with ctx.stub(zcm.ZipContext, read_bytes=_read_fault(zcm.ZipContext.read_bytes, fail_at)):
                content = next(iter(reader(blob, "x." + fmt)))
        else:
            content = next(iter(reader(blob, "x." + fmt)))
    except Exception as e:
        ctx.fail("reader-raised", exc=type(e).__name__, msg=str(e)[:120])
    imgs = list(content.iterate_images())
    got = [(i.get_bytes().read(), i.get_content_type(), dict(i.get_metadata())) for i in imgs]
    index_of = {im["data"]: k for k, im in enumerate(flat)}
    shape = {"units": [len(u) for u in units], "present": [[int(im["present"]) for im in u] for u in units],
             "reversed": reverse, "fail_at": fail_at}
    if ctx.params.get("dangling"):
        shape["no_relationship"] = [[int(im["dangling"]) for im in u] for u in units]
    shape.update({k: (",".join(v) if k == "anchors" else bool(v)) for k, v in opts.items()})
    numbers_all = [m["image_number"] for _, _, m in got]
    if fail_at:
        # records without bytes are error placeholders for the unreadable member: they may be returned
        # (and then count in the numbering) but carry no image
        got = [g for g in got if g[0]]
    # no image the document does not contain; bit-exact bytes
    ctx.require(all(b in index_of for b, _, _ in got), "returned-bytes-not-in-document", **shape)
    seq = [index_of[b] for b, _, _ in got]
    numbers = [m["image_number"] for _, _, m in got]
    want_numbers = list(range(1, len(got) + 1))
    if ctx.perturb == "numbers_from_zero":
        want_numbers = list(range(len(got)))
    # signatures of the deviation classes recorded in known_findings.json (used by match.where only)
    unit_of_idx = [ui for ui, u in enumerate(units) for im in u if im["present"]]
    per_unit = [sum(1 for k in seq if 0 <= k < len(unit_of_idx) and unit_of_idx[k] == ui) for ui in range(n_units)]
    restart = [j + 1 for c in per_unit for j in range(c)]
    explained = ""
    if reverse and len(seq) > 1 and seq == sorted(seq, reverse=True):
        explained = "relationship-file-order"
    if opts.get("anchors") == ("two", "one"):
        grouped, base = [], 0
        for u in units:
            idx = [base + j for j, im in enumerate([im for im in u if im["present"]])]
            pos = [j for j, im in enumerate(u) if im["present"]]
            kinds = [("two", "one")[j % 2] for j in pos]
            grouped += [i for i, kd in zip(idx, kinds) if kd == "one"] + [i for i, kd in zip(idx, kinds) if kd == "two"]
            base += len(idx)
        if seq == grouped:
            explained = "anchor-kind-order"
    if fail_at:
        # with a failing media read the surviving images keep document order and gap-free numbers
        ctx.require(seq == sorted(seq) and len(set(seq)) == len(seq), "order-differs-from-document-order",
                    got=seq, explained=explained, **shape)
        want_all = list(range(1, len(numbers_all) + 1)) if ctx.perturb != "numbers_from_zero" else []
        single_gap = (len(numbers_all) > 0 and numbers_all == sorted(set(numbers_all)) and numbers_all[0] >= 1
                      and numbers_all[-1] == len(numbers_all) + 1)
        ctx.require(numbers_all == want_all, "numbers-not-1..n-after-read-failure", numbers=numbers_all,
                    restart=(n_units > 1 and numbers_all == restart), single_gap=single_gap, **shape)
        ctx.require(len(got) >= len(flat) - 1, "image-lost-or-duplicated", got=seq, **shape)
        return
    ctx.require(sorted(seq) == list(range(len(flat))), "image-lost-or-duplicated", got=seq, **shape)
    ctx.require(seq == list(range(len(flat))), "order-differs-from-document-order", got=seq, explained=explained,
                **shape)
    for k, (b, ctype, meta) in enumerate(got):
        ctx.require(ctype == flat[k]["ctype"] and meta["content_type"] == flat[k]["ctype"], "content-type-differs",
                    expected=flat[k]["ctype"], got=ctype, **shape)
    # unit attribution and the two views
    unit_of = {}
    for ui, u in enumerate(units):
        for im in u:
            unit_of[im["data"]] = ui + 1
    ulist = list(content.iterate_units())
    via_units = [i.get_bytes().read() for u in ulist for i in u.get_images()]
    ctx.require(all(b in [g[0] for g in got] for b in via_units), "unit-image-not-in-document-iterator", **shape)
    doc_tables = [t.get_table() for t in content.iterate_tables()]
    unit_tables = [t.get_table() for u in ulist for t in u.get_tables()]
    ctx.require(all(t in doc_tables for t in unit_tables), "unit-table-not-in-document-iterator", **shape)
    if unit_format:
        ctx.require(len(ulist) == n_units, "unit-count-differs", got=len(ulist), **shape)
        ctx.require(via_units == [g[0] for g in got], "views-differ", what="images", **shape)
        ctx.require(unit_tables == doc_tables, "views-differ", what="tables", **shape)
        if fmt == "pptx":
            ctx.require(doc_tables == [[["cell of slide %d" % (k + 1)]] for k in range(n_units)], "table-lost",
                        got=repr(doc_tables)[:120], **shape)
        for ui, u in enumerate(ulist):
            mine = [i.get_bytes().read() for i in u.get_images()]
            ctx.require(all(unit_of[b] == ui + 1 for b in mine), "image-on-wrong-unit", unit=ui + 1, **shape)
        for b, _, meta in got:
            ctx.require(meta["unit_number"] in (None, unit_of[b]), "image-on-wrong-unit",
                        unit_number=meta["unit_number"], expected=unit_of[b], **shape)
    # last, so that a known deviation here does not hide the checks above
    ctx.require(numbers == want_numbers, "numbers-not-1..n", numbers=numbers,
                restart=(n_units > 1 and numbers == restart), **shape)
    for k, (b, ctype, meta) in enumerate(got):
        im = flat[k]
        want = im["size"] if ctx.perturb != "size_swapped" else im["size"][::-1]
        ctx.require((meta["width"], meta["height"]) == want, "pixel-size-not-reported",
                    expected=list(im["size"]), got=[meta["width"], meta["height"]], kind=im["ext"], **shape)


def _k3_parts(tier):
    per = 2 if tier == "quick" else 3
    parts = [{"format": f, "per_unit": per} for f in ("pptx", "docx", "epub", "odp", "xlsx")]
    parts += [{"format": f, "per_unit": per, "faults": True} for f in ("pptx", "epub", "odp", "xlsx")]
    parts += [{"format": f, "per_unit": per, "dangling": True} for f in ("pptx", "docx", "xlsx")]
    return parts


# ---------------------------------------------------------------------------------------
# K4: media parts shared between anchors x the order in which a consumer opens and reads the images
# ---------------------------------------------------------------------------------------
import itertools

# every interleaving of the three steps (open, read a first chunk, read the rest) of two images:
# the 20 words over {0, 1} with three letters each
_K4_PATTERNS = sorted(set(itertools.permutations((0, 0, 0, 1, 1, 1))))


def _k4_model(ctx, n_units, per_unit, max_total, allow_missing):
    """symbolic structure: anchors per unit, and for every anchor WHICH media part it shows - any part an
    earlier anchor (of this or an earlier unit) shows, or a new one.  Anchors showing the same part hold
    the same dict.  -> (units, media pool)"""
    pool, units, total = [], [], 0
    for u in range(n_units):
        if u == 0 and ctx.params.get("first_unit") is not None:
            k = ctx.params["first_unit"]        # partition of the structure space by the first unit's anchors
        else:
            k = ctx.choice("anchors_on_unit%d" % u, min(per_unit, max_total - total) + 1)
        total += k
        row = []
        for j in range(k):
            m = ctx.choice("media_of_anchor%d_%d" % (u, j), len(pool) + 1) if pool else 0
            if m == len(pool):
                ext, ctype, mk = KINDS[m % 4]
                size = (4 + m, 6 + 2 * m)
                present = not (allow_missing and ctx.flag("media%d_missing_from_package" % m))
                pool.append(dict(ext=ext, ctype=ctype, data=mk(*size), present=present, size=size, media=m + 1))
            row.append(pool[m])
        units.append(row)
    return units, pool


def _k4_consume(ctx, imgs, chunks):
    """The consumer.  Either every image is opened and read to the end before the next one is touched, or
    two of the returned images (every pair) are opened and read in two pieces with their six steps
    interleaved in every possible way (this contains: all opened before any is read, read in reverse
    order, alternating chunks); the remaining images are read afterwards.  One stream per image.
    -> (bytes delivered per image, description of the schedule)"""
    g = len(imgs)
    pairs = [(i, j) for i in range(g) for j in range(i + 1, g)]
    mode = ctx.choice("interleaved_pair", len(pairs) + 1) if pairs else 0
    out = [None] * g
    sched = "one-after-the-other"
    if mode:
        pair = pairs[mode - 1]
        pattern = _K4_PATTERNS[ctx.choice("interleaving", len(_K4_PATTERNS))]
        chunk = chunks[ctx.choice("first_read_size", len(chunks))]
        sched = "images %d,%d steps %s first-read %d" % (pair[0] + 1, pair[1] + 1, "".join(str(pair[w] + 1) for w in pattern), chunk)
        stream, pieces, step = {}, {pair[0]: [], pair[1]: []}, {pair[0]: 0, pair[1]: 0}
        for w in pattern:
            x = pair[w]
            if step[x] == 0:
                stream[x] = imgs[x].get_bytes()
            elif step[x] == 1:
                pieces[x].append(stream[x].read(chunk))
            else:
                pieces[x].append(stream[x].read())
            step[x] += 1
        for x in pair:
            if ctx.perturb == "pieces_joined_in_reverse":
                pieces[x].reverse()
            out[x] = b"".join(pieces[x])
    for x in range(g):
        if out[x] is None:
            out[x] = imgs[x].get_bytes().read()
    return out, sched


def _embeds(sub, seq):
    """sub is a subsequence of seq (None components of a sub item match anything)"""
    pos = 0
    for item in sub:
        while pos < len(seq) and not all(a is None or a == b for a, b in zip(item, seq[pos])):
            pos += 1
        if pos == len(seq):
            return False
        pos += 1
    return True


def _first_uses(seq):
    return list(dict.fromkeys(seq))


def k4_shared_media(ctx):
    fmt = ctx.params["format"]
    writer, reader, unit_format, max_units = _k3_formats()[fmt]
    n_units = ctx.params["units"]
    units, pool = _k4_model(ctx, n_units, ctx.params["per_unit"], ctx.params["max_total"], ctx.params.get("missing", False))
    one_rel = bool(ctx.params.get("one_rel"))
    blob = writer(units, False, one_rel=one_rel)
    try:
        content = next(iter(reader(blob, "x." + fmt)))
        imgs = list(content.iterate_images())
    except Exception as e:
        ctx.fail("reader-raised", exc=type(e).__name__, msg=str(e)[:120])
    shape = {"anchors": [[im["media"] for im in u] for u in units], "missing": [im["media"] for im in pool if not im["present"]],
             "one_relationship_per_media": one_rel}
    try:
        delivered, sched = _k4_consume(ctx, imgs, ctx.params["chunks"])
        ctypes = [(i.get_content_type(), dict(i.get_metadata())) for i in imgs]
    except Exception as e:
        ctx.fail("image-access-raised", exc=type(e).__name__, msg=str(e)[:120], **shape)
    shape["schedule"] = sched
    # what the document shows, anchor by anchor (document order); a part missing from the package shows nothing
    shown = [(im["media"], ui + 1) for ui, u in enumerate(units) for im in u if im["present"]]
    by_bytes = {im["data"]: im for im in pool if im["present"]}
    # bit-exact and nothing the document does not contain - whatever the order of opening and reading
    for k, b in enumerate(delivered):
        ctx.require(b in by_bytes, "returned-bytes-not-in-document", image=k + 1, delivered=len(b),
                    of_lengths=sorted(len(x) for x in by_bytes), **shape)
    got = [by_bytes[b] for b in delivered]
    seq = [im["media"] for im in got]
    aseq = [m for m, _ in shown]
    # the property leaves open whether a part shown by several anchors is returned per anchor or once:
    # the returned sequence must lie between "first uses only" and "every anchor", in document order
    ctx.require(set(seq) == set(aseq) and all(seq.count(m) <= aseq.count(m) for m in set(seq)),
                "image-lost-or-duplicated", got=seq, shown=aseq, **shape)
    ctx.require(_embeds([(m,) for m in seq], [(m,) for m in aseq]) and _first_uses(seq) == _first_uses(aseq),
                "order-differs-from-document-order", got=seq, shown=aseq, **shape)
    if ctx.perturb == "shared_part_returned_once":
        ctx.require(seq == _first_uses(aseq), "image-lost-or-duplicated", got=seq, shown=aseq, twin=True, **shape)
    numbers = [m["image_number"] for _, m in ctypes]
    want = list(range(1, len(seq) + 1)) if ctx.perturb != "numbers_from_zero" else list(range(len(seq)))
    ctx.require(numbers == want, "numbers-not-1..n", numbers=numbers, **shape)
    for k, (ctype, meta) in enumerate(ctypes):
        ctx.require(ctype == got[k]["ctype"] and meta["content_type"] == got[k]["ctype"], "content-type-differs",
                    expected=got[k]["ctype"], got=ctype, **shape)
        if fmt != "odp":
            ctx.require((meta["width"], meta["height"]) == got[k]["size"], "pixel-size-not-reported",
                        expected=list(got[k]["size"]), got=[meta["width"], meta["height"]], kind=got[k]["ext"], **shape)
    # units: everything reachable from a unit is reachable from the document; unit formats: same sequence,
    # every image on a unit that shows its part, in an order the anchors allow
    ulist = list(content.iterate_units())
    try:
        per_unit = [[i.get_bytes().read() for i in u.get_images()] for u in ulist]
    except Exception as e:
        ctx.fail("image-access-raised", exc=type(e).__name__, msg=str(e)[:120], **shape)
    via_units = [b for row in per_unit for b in row]
    ctx.require(all(b in delivered for b in via_units), "unit-image-not-in-document-iterator", **shape)
    if unit_format:
        ctx.require(len(ulist) == n_units, "unit-count-differs", got=len(ulist), **shape)
        ctx.require(via_units == delivered, "views-differ", what="images", **shape)
        placed = [(by_bytes[b]["media"], ui + 1) for ui, row in enumerate(per_unit) for b in row]
        ctx.require(_embeds(placed, shown), "image-on-wrong-unit", placed=placed, shown=shown, **shape)
        for (m, un), (_, meta) in zip(placed, ctypes):
            ctx.require(meta["unit_number"] in (None, un), "image-on-wrong-unit", unit_number=meta["unit_number"],
                        expected=un, **shape)


def _k4_parts(tier):
    quick = tier == "quick"
    base = {"max_total": 4, "chunks": [16] if quick else [1, 16, 4096], "missing": not quick}
    parts = []
    for f, max_units, rel_kinds in (("pptx", 2, 2), ("xlsx", 2, 2), ("docx", 1, 2), ("odp", 2, 1), ("epub", 2, 1)):
        for nu in range(1, max_units + 1):
            for one_rel in range(rel_kinds):
                per = (3 if quick else 4) if nu == 1 else (2 if quick else 3)
                part = dict(base, format=f, units=nu, per_unit=per, one_rel=bool(one_rel))
                sub = [part] if nu == 1 else [dict(part, first_unit=k) for k in range(per + 1)]
                # thorough: one part per size of the first read as well (96 parts of <= 4000 paths)
                parts += [dict(q, chunks=[c]) for q in sub for c in q["chunks"]]
    return parts


# ---------------------------------------------------------------------------------------
# K5: PDF image XObjects - every way a /Filter entry can announce an embedded JPEG file
# ---------------------------------------------------------------------------------------
import base64

# ISO 32000-1 7.4: a stream's /Filter is a name or an ARRAY of names applied in order when decoding; the
# transport filters (7.4.2-7.4.4) carry arbitrary data, the image filter (DCTDecode, 7.4.8) comes last
_PDF_TRANSPORT = {"FlateDecode": zlib.compress,
                  "ASCIIHexDecode": lambda d: d.hex().upper().encode() + b">",
                  "ASCII85Decode": lambda d: base64.a85encode(d) + b"~>"}
_PDF_T = sorted(_PDF_TRANSPORT)
# (as array?, transport filters in front of /DCTDecode)
PDF_FILTER_FORMS = ([(False, ()), (True, ())] + [(True, (a,)) for a in _PDF_T]
                    + [(True, (a, b)) for a in _PDF_T for b in _PDF_T])


def write_pdf(units, reverse_rels=False):
    """pages with JPEG image XObjects painted in list order (Do operators); reverse_rels lists the /XObject
    resource dictionary in reverse.  Classic cross-reference table, no compression of the file structure."""
    objs, n_pages = {}, len(units)
    page_ids = [3 + i for i in range(n_pages)]
    nxt = [3 + n_pages]

    def new(body):
        k = nxt[0]
        nxt[0] += 1
        objs[k] = body
        return k

    def stream(d, data):
        return b"<< " + d + b" /Length %d >>\nstream\n" % len(data) + data + b"\nendstream"

    for pi, imgs in enumerate(units):
        names, ops = [], []
        for k, im in enumerate(imgs):
            as_array, chain = im["filter_form"]
            data = im["data"]
            for f in reversed(chain):           # decoding undoes the first array entry first: it is applied last
                data = _PDF_TRANSPORT[f](data)
            if as_array:
                fs = b"[" + b" ".join(b"/" + f.encode() for f in list(chain) + ["DCTDecode"]) + b"]"
            else:
                fs = b"/DCTDecode"
            d = (b"/Type /XObject /Subtype /Image /Width %d /Height %d /ColorSpace /DeviceGray /BitsPerComponent 8 "
                 b"/Filter %s" % (im["size"][0], im["size"][1], fs))
            names.append((b"/Im%d" % (k + 1), new(stream(d, data))))
            ops.append(b"q 100 0 0 100 %d 100 cm /Im%d Do Q" % (50 + 120 * k, k + 1))
        cid = new(stream(b"", b"BT /F1 12 Tf 50 700 Td (page %d) Tj ET\n" % (pi + 1) + b"\n".join(ops)))
        xo = b" ".join(nm + b" %d 0 R" % oid for nm, oid in (names[::-1] if reverse_rels else names))
        objs[page_ids[pi]] = (b"<< /Type /Page /Parent 2 0 R /MediaBox [0 0 612 792] /Contents %d 0 R /Resources << "
                              b"/Font << /F1 << /Type /Font /Subtype /Type1 /BaseFont /Helvetica >> >> "
                              b"/XObject << %s >> >> >>" % (cid, xo))
    objs[1] = b"<< /Type /Catalog /Pages 2 0 R >>"
    objs[2] = b"<< /Type /Pages /Count %d /Kids [%s] >>" % (n_pages, b" ".join(b"%d 0 R" % q for q in page_ids))
    out = io.BytesIO()
    out.write(b"%PDF-1.4\n%\xe2\xe3\xcf\xd3\n")
    offs = {}
    for k in sorted(objs):
        offs[k] = out.tell()
        out.write(b"%d 0 obj\n" % k + objs[k] + b"\nendobj\n")
    x, size = out.tell(), max(objs) + 1
    out.write(b"xref\n0 %d\n0000000000 65535 f \n" % size)
    for k in range(1, size):
        out.write(b"%010d 00000 n \n" % offs[k])
    out.write(b"trailer\n<< /Size %d /Root 1 0 R >>\nstartxref\n%d\n%%%%EOF\n" % (size, x))
    out.seek(0)
    return out


KNOWN_PDF_RESTART = "C14-pdf-numbering-restarts-per-page"


def k5_pdf(ctx):
    from sharepoint2text.parsing.extractors.pdf.pdf_extractor import read_pdf
    n_units = ctx.params["units"]
    forms = PDF_FILTER_FORMS[:ctx.params["forms"]]
    units, n, total = [], 0, 0
    for u in range(n_units):
        if u == 0 and ctx.params.get("first_unit") is not None:
            k = ctx.params["first_unit"]
        else:
            k = ctx.choice("images_on_page%d" % u, min(ctx.params["per_unit"], ctx.params["max_total"] - total) + 1)
        total += k
        row = []
        for j in range(k):
            form = forms[ctx.choice("filter_form%d_%d" % (u, j), len(forms))]
            n += 1
            size = (3 + n, 5 + 2 * n)
            row.append(dict(ext="jpeg", ctype="image/jpeg", data=make_jpeg(*size), size=size, filter_form=form))
        units.append(row)
    reverse = ctx.params["reversed"] if ctx.params.get("reversed") is not None else \
        ctx.flag("xobject_dictionary_order_reversed")
    shape = {"pages": [[("[%s]" if a else "%s") % " ".join(list(c) + ["DCTDecode"]) for a, c in
                        (im["filter_form"] for im in u)] for u in units], "reversed": reverse}
    try:
        content = next(iter(read_pdf(write_pdf(units, reverse), "x.pdf")))
        imgs = list(content.iterate_images())
        got = [(i.get_bytes().read(), i.get_content_type(), dict(i.get_metadata())) for i in imgs]
    except Exception as e:
        ctx.fail("reader-raised", exc=type(e).__name__, msg=str(e)[:120], **shape)
    flat = [im for u in units for im in u]
    index_of = {im["data"]: k for k, im in enumerate(flat)}
    # the embedded file is what the filter chain in front of the image filter transports: bit-exact, nothing extra
    ctx.require(all(b in index_of for b, _, _ in got), "returned-bytes-not-in-document",
                lengths=[len(b) for b, _, _ in got], **shape)
    seq = [index_of[b] for b, _, _ in got]
    ctx.require(sorted(seq) == list(range(len(flat))), "image-lost-or-duplicated", got=seq, **shape)
    ctx.require(seq == list(range(len(flat))), "order-differs-from-document-order", got=seq, **shape)
    for k, (b, ctype, meta) in enumerate(got):
        want = "image/jpeg"                     # the delivered bytes are a JPEG file (SOI ... EOI)
        if ctx.perturb == "content_type_png":
            want = "image/png"
        ctx.require(b[:2] == b"\xff\xd8" and ctype == want and meta["content_type"] == want, "content-type-differs",
                    expected=want, got=ctype, image=k + 1, **shape)
        size = flat[k]["size"] if ctx.perturb != "size_swapped" else flat[k]["size"][::-1]
        ctx.require((meta["width"], meta["height"]) == size, "pixel-size-not-reported", expected=list(flat[k]["size"]),
                    got=[meta["width"], meta["height"]], **shape)
    unit_of = [ui + 1 for ui, u in enumerate(units) for _ in u]
    for k, (b, _, meta) in enumerate(got):
        ctx.require(meta["unit_number"] == unit_of[k], "image-on-wrong-unit", unit_number=meta["unit_number"],
                    expected=unit_of[k], **shape)
    ulist = list(content.iterate_units())
    ctx.require(len(ulist) == n_units, "unit-count-differs", got=len(ulist), **shape)
    per_unit = [[i.get_bytes().read() for i in u.get_images()] for u in ulist]
    ctx.require(per_unit == [[im["data"] for im in u] for u in units], "views-differ", what="images", **shape)
    numbers = [m["image_number"] for _, _, m in got]
    restart = [j + 1 for u in units for j in range(len(u))]
    want = list(range(1, len(got) + 1))
    is_restart = numbers == restart and restart != want
    if is_restart and not ctx.perturb and KNOWN_PDF_RESTART in (ctx.params.get("known_active") or ()):
        return              # recorded finding, still reproducing on this tree: its class is not reported again
    ctx.require(numbers == want, "numbers-not-1..n", numbers=numbers, restart=is_restart, **shape)


def _k5_parts(tier):
    if tier == "quick":
        base = {"per_unit": 2, "max_total": 4, "forms": 5}
        return [dict(base, units=1)] + [dict(base, units=2, first_unit=k) for k in range(3)]
    base = {"per_unit": 3, "max_total": 3, "forms": len(PDF_FILTER_FORMS)}
    parts = [dict(base, units=1)] + [dict(base, units=2, first_unit=k) for k in range(4)]
    return [dict(q, reversed=r) for q in parts for r in (False, True)]


# ---------------------------------------------------------------------------------------
# K3v: unit views vs document iterators on content instances
# ---------------------------------------------------------------------------------------

def k3_views(ctx):
    from sharepoint2text.parsing.extractors import data_types as dt
    kind = ctx.params["kind"]
    n_units = ctx.choice("units", 3)
    counter = [0]

    def table():
        rows = ctx.choice("rows", 3)
        counter[0] += 1
        return [["r%d c%d t%d" % (r, c, counter[0]) for c in range(2)] for r in range(rows)]

    def images(make):
        k = ctx.choice("images", 3)
        out = []
        for _ in range(k):
            counter[0] += 1
            out.append(make(counter[0]))
        return out

    blob = lambda n: PNG_SIG + bytes([n])
    units = []
    for u in range(n_units):
        if kind == "pdf":
            units.append(dt.PdfPage(text="t", images=images(lambda n: dt.PdfImage(index=n, data=blob(n), unit_name=u + 1)),
                                    tables=[table() for _ in range(ctx.choice("tables", 3))]))
        elif kind == "pptx":
            units.append(dt.PptxSlide(slide_number=u + 1, images=images(lambda n: dt.PptxImage(image_index=n, blob=blob(n), slide_number=u + 1)),
                                      tables=[table() for _ in range(ctx.choice("tables", 3))]))
        elif kind == "odp":
            units.append(dt.OdpSlide(slide_number=u + 1, images=images(lambda n: dt.OpenDocumentImage(image_index=n, data=io.BytesIO(blob(n)), unit_name=u + 1)),
                                     tables=[table() for _ in range(ctx.choice("tables", 3))]))
        elif kind == "xlsx":
            units.append(dt.XlsxSheet(name="s%d" % u, data=table(), text="t",
                                      images=images(lambda n: dt.XlsxImage(image_index=n, sheet_index=u, data=io.BytesIO(blob(n))))))
        elif kind == "ods":
            units.append(dt.OdsSheet(name="s%d" % u, data=table(), text="t",
                                     images=images(lambda n: dt.OpenDocumentImage(image_index=n, data=io.BytesIO(blob(n)), unit_name=u + 1))))
    content = {"pdf": lambda: dt.PdfContent(pages=units), "pptx": lambda: dt.PptxContent(slides=units),
               "odp": lambda: dt.OdpContent(slides=units), "xlsx": lambda: dt.XlsxContent(sheets=units),
               "ods": lambda: dt.OdsContent(sheets=units)}[kind]()
    doc_imgs = [id(i) for i in content.iterate_images()]
    doc_tabs = [t.get_table() for t in content.iterate_tables()]
    ulist = list(content.iterate_units())
    unit_imgs = [id(i) for u in ulist for i in u.get_images()]
    unit_tabs = [t.get_table() for u in ulist for t in u.get_tables()]
    if ctx.perturb == "drop_last_unit_image" and unit_imgs:
        unit_imgs = unit_imgs[:-1]
    shape = {"kind": kind, "units": n_units, "doc_tables": len(doc_tabs), "unit_tables": len(unit_tabs)}
    ctx.require(all(i in doc_imgs for i in unit_imgs), "unit-image-not-in-document-iterator", **shape)
    ctx.require(all(t in doc_tabs for t in unit_tabs), "unit-table-not-in-document-iterator", **shape)
    ctx.require(unit_imgs == doc_imgs, "views-differ", what="images", **shape)
    empty_only = [t for t in doc_tabs if t] == unit_tabs
    ctx.require(unit_tabs == doc_tabs, "views-differ", what="tables",
                variant="empty-sheet-table" if empty_only else "", **shape)


KERNELS = [
    Kernel("K1", "dimension sniffers return the pixel size the file declares (PNG IHDR, GIF LSD, BMP DIB header, "
                 "JPEG first SOFn reached by segment lengths) and the matching content type",
           k1_sniffers, targets=_k1_targets, parts=_k1_parts,
           perturb=[("png_little_endian", {"target": "docx", "fmt": "hdr", "n": 32}),
                    ("gif_offset", {"target": "util", "fmt": "hdr", "n": 32}),
                    ("bmp_height_signed", {"target": "xlsx", "fmt": "hdr", "n": 32}),
                    ("jpeg_c4_is_sof", {"target": "pptx", "fmt": "jpeg", "n": 24, "segments": 1, "fill": 0}),
                    ("jpeg_plus2_slip", {"target": "util", "fmt": "jpeg", "n": 24, "segments": 1, "fill": 0})],
           symbolic=["every byte of the file beginning (hdr: all lengths 0..n; jpeg: n bytes after SOI)",
                     "JPEG segment markers, segment lengths and fill bytes"],
           choices=["buffer length"],
           assumptions=["a file 'declares' a size when: PNG signature + IHDR(len 13) with 1 <= w,h < 2^31; GIF87a/89a "
                        "with w,h >= 1; 'BM' + DIB header size in {12,40,52,56,64,108,124} with width >= 1, height != 0; "
                        "JPEG = SOI, <= k length-carrying segments (DHT/DAC/DQT/DRI/APPn/COM/...), each optionally "
                        "preceded by <= f fill bytes, then a complete SOFn segment (Lf >= 11) with X,Y >= 1",
                        "nothing is demanded for files outside that predicate"],
           outside=["files whose size fields lie beyond the buffer bound; JPEGs with more than k segments before SOFn",
                    "TIFF/EMF/WMF (no pixel size demanded)"],
           timeout={"quick": 100, "thorough": 1100}, max_depth=600),
    Kernel("K1r", "the three copies of _get_image_pixel_dimensions (docx/pptx/xlsx) agree on every input",
           k1_agree, targets=lambda: _k1_targets()[:3], parts=_k1r_parts,
           perturb=[("pptx_swapped", {"fmt": "hdr", "n": 32})],
           symbolic=["every byte of the buffer, no well-formedness assumption"],
           choices=["buffer length"],
           outside=["JPEG-prefixed buffers longer than the bound (13 / 16 bytes)"],
           timeout={"quick": 100, "thorough": 1100}, max_depth=600),
    Kernel("K1s", "struct stand-in used for image_utils == struct (values on symbolic bytes, errors on short buffers)",
           k1_struct_shadow, targets=lambda: [], core=False,
           perturb=["unsigned_everywhere"],
           symbolic=["buffer bytes"], choices=["format", "buffer length", "offset"]),
    Kernel("K2", "relationship targets (relative, parent-relative, absolute) resolve to the OPC/RFC 3986 member name: "
                 "pptx._normalize_relative_path, docx 'word/'+target (through _extract_images_from_context), "
                 "xlsx._resolve_drawing_path/_resolve_image_path, epub resolve_href",
           k2_targets, targets=_k2_targets_fns, parts=_k2_parts,
           perturb=[("absolute_under_base", {"fn": "xlsx-drawing", "len": 4}),
                    ("dotdot_ignored", {"fn": "pptx", "len": 4})],
           symbolic=["every character of the Target attribute over the alphabet {'.', '/', '0'} (all strings of "
                     "length 1..7, thorough 1..10)"],
           choices=["directory of the source part"],
           stubs=["docx: _DocxContext -> stub with one image relationship (symbolic target) recording the member "
                  "name asked from get_image_data"],
           assumptions=["target shapes demanded = the three the property names: plain segments; one or more leading "
                        "'..' then plain segments (not above the package root); '/' + plain segments.  Plain segment: "
                        "non-empty, not starting or ending with '.'",
                        "symbolic runs execute the functions' own source with f-strings and '<sep>'.join rewritten to "
                        "CharStr-aware helpers (K2s: variant == original); replay runs the original function objects"],
           outside=["targets with '.' segments, inner '..', empty segments, percent-encoding; ODF xlink:href (used "
                    "verbatim as member name); pptx slide-part targets in _compute_slide_order"],
           timeout={"quick": 100, "thorough": 1100}, max_depth=600),
    Kernel("K2s", "CharStr variants of the resolution functions == the original functions on concrete strings",
           k2_variant_check, targets=lambda: _k2_targets_fns()[:3], core=False, strength="structure",
           perturb=["variant_differs"], choices=["target from a vocabulary", "function"]),
    Kernel("K3", "generated pptx/docx/xlsx/epub/odp packages through the public readers: bytes bit-exact, nothing extra, "
                 "document order, numbers 1..n (also when a media read fails), content type, pixel size, unit "
                 "attribution, unit views == document iterators",
           k3_packages, targets=lambda: [r for _, r, _, _ in _k3_formats().values()], parts=_k3_parts,
           strength="structure", core=False,
           perturb=[("numbers_from_zero", {"format": "odp", "per_unit": 2}),
                    ("size_swapped", {"format": "docx", "per_unit": 2})],
           choices=["number of units (1..2)", "images per unit (0..2, thorough 0..3)", "media member present/missing",
                    "pptx/docx/xlsx 'dangling' parts: per anchor present / media part missing / relationship missing "
                    "(the anchor's r:embed id has no relationship in its own part while the other parts use the same "
                    "id strings), relationship part without entries written or omitted",
                    "relationship / manifest order reversed", "index of the failing media read",
                    "xlsx: tab order differs from sheetN.xml numbering, anchor kinds (oneCell/twoCell/mixed), picture "
                    "resized on the sheet"],
           stubs=["ZipContext.read_bytes -> raises OSError at the chosen image read (fault parts only)"],
           assumptions=["images are PNG/JPEG/GIF/BMP written by the harness with distinct pixel sizes; every anchor "
                        "references its own media member (media shared between anchors: K4)"],
           outside=["odt, ods, odg, rtf packages (no writer in the harness; pdf: K5); external links",
                    "bit-exactness of zipfile itself"],
           timeout={"quick": 100, "thorough": 1100}),
    Kernel("K4", "media parts shared between anchors (one relationship reused, several relationships with one Target, "
                 "the same part on several slides/sheets/chapters) x the consumer's access order: every returned image "
                 "delivers the embedded file bit-exact however the opening and (chunked) reading of two images is "
                 "interleaved; shared parts returned per anchor or once, in document order, numbered 1..n, on a unit "
                 "that shows them; unit views == document iterator",
           k4_shared_media, targets=lambda: [r for _, r, _, _ in _k3_formats().values()], parts=_k4_parts,
           strength="structure", core=False,
           perturb=[("shared_part_returned_once", {"format": "pptx", "units": 2, "per_unit": 2, "max_total": 4,
                                                   "chunks": [16], "missing": False, "one_rel": True, "first_unit": 2}),
                    ("pieces_joined_in_reverse", {"format": "xlsx", "units": 1, "per_unit": 3, "max_total": 4,
                                                  "chunks": [16], "missing": False, "one_rel": False}),
                    ("numbers_from_zero", {"format": "epub", "units": 2, "per_unit": 2, "max_total": 4,
                                           "chunks": [16], "missing": False, "one_rel": False, "first_unit": 1})],
           choices=["anchors per unit (<= 4 in all; units 1..2)", "for every anchor the media part it shows: any part "
                    "shown earlier or a new one (all sharing patterns)", "thorough: media part missing from the package",
                    "consumer: one image after the other, or a pair of returned images (every pair) whose steps open / "
                    "read first chunk / read rest are interleaved in all 20 ways", "size of the first read (16; "
                    "thorough 1, 16, 4096)"],
           assumptions=["a part shown by several anchors may be returned per anchor or once (the property text leaves "
                        "it open): accepted are exactly the sequences between 'first uses' and 'every anchor' in "
                        "document order", "one stream per image object (get_bytes() called once per schedule step "
                        "'open'); re-reading happens only after the schedule, through the unit views"],
           outside=["two streams of the SAME image object open at once; threads; pixel size of odp images (K3)",
                    "odt, ods, odg, pdf, rtf packages"],
           timeout={"quick": 300, "thorough": 1100}),
    Kernel("K5", "generated PDFs through read_pdf: JPEG image XObjects whose /Filter is a name, a one-element array or "
                 "a filter chain (transport filters FlateDecode / ASCIIHexDecode / ASCII85Decode in front of DCTDecode): "
                 "bytes == the embedded JPEG file, content type image/jpeg, declared size, document (paint) order, "
                 "page attribution, page views == document iterator, numbers 1..n",
           k5_pdf, targets=lambda: [__import__("sharepoint2text.parsing.extractors.pdf.pdf_extractor", fromlist=["x"]).read_pdf],
           parts=_k5_parts, strength="structure", core=False,
           perturb=[("content_type_png", {"units": 1, "per_unit": 2, "max_total": 4, "forms": 5}),
                    ("size_swapped", {"units": 1, "per_unit": 2, "max_total": 4, "forms": 5})],
           choices=["pages 1..2, images per page 0..2 (thorough 0..3, <= 3 in all)",
                    "per image the form of /Filter: /DCTDecode, [/DCTDecode], [/T /DCTDecode] (quick), "
                    "[/T1 /T2 /DCTDecode] (thorough), T over FlateDecode, ASCIIHexDecode, ASCII85Decode",
                    "/XObject resource dictionary listed in paint order or reversed"],
           assumptions=["document order of a page = order of the Do operators of its content stream",
                        "only DCTDecode images have an embedded FILE (raw sample images are re-encoded: outside)"],
           outside=["JPXDecode / CCITT / JBIG2 / raw-sample images, inline images, form XObjects, LZW / RunLength "
                    "transport, /DecodeParms, one XObject painted on several pages, encrypted files"],
           timeout={"quick": 100, "thorough": 1100}),
    Kernel("K3v", "unit views vs document iterators on content instances (pdf, pptx, xlsx, odp, ods): inclusion and, "
                  "for these page/slide/sheet formats, equality as sequences",
           k3_views, targets=lambda: [__import__("sharepoint2text.parsing.extractors.data_types", fromlist=["x"]).XlsxContent.iterate_units],
           parts=lambda tier: [{"kind": k} for k in ("pdf", "pptx", "xlsx", "odp", "ods")],
           strength="structure", core=False, perturb=[("drop_last_unit_image", {"kind": "pptx"})],
           choices=["number of units 0..2", "tables per unit 0..2", "rows per table 0..2", "images per unit 0..2"]),
]

META = {
    "level_text": "The real dimension sniffers (three copies of _get_image_pixel_dimensions, image_utils "
                  "detect_image_type/get_image_dimensions/get_jpeg_dimensions) are executed on file beginnings whose "
                  "every byte is symbolic; z3 decides on each path that the returned size equals what the PNG/GIF/BMP/"
                  "JPEG specification says the file declares, and that the three copies agree on every input. The "
                  "relationship-target resolvers of pptx/docx/xlsx/epub are executed on a Target whose every character "
                  "is symbolic and compared with OPC/RFC 3986 resolution for relative, parent-relative and absolute "
                  "targets. Numbering, order, unit attribution and the unit/document views are explored on generated "
                  "packages through the public readers (structure choices, failing media read); K4 adds every pattern "
                  "of media parts shared between anchors and every interleaving of opening / chunked reading of two "
                  "returned images by the consumer.",
    "level_note": "Trusted: the reading of the format specifications in spec_declared and of OPC in _ref_resolve; the "
                  "struct stand-in (K1s) and the f-string/join rewriting for symbolic strings (K2s, and replay on the "
                  "original functions). Outside: size fields beyond the buffer bound, JPEGs with more segments before "
                  "SOFn than the bound, targets with dot segments or percent-encoding, odt/ods/odg/pdf/rtf packages.",
    "technique": "symbolic execution of the real sniffers on z3 bit-vector bytes and of the real resolvers on bounded "
                 "symbolic strings (symrun), per-path SMT query against specification oracles, relational query "
                 "between the three sniffer copies, bounded-exhaustive structure exploration through the public API",
}
