"""C14 - images are returned bit-exact, numbered, on the right unit.

Kernels
  K1   dimension sniffers vs the file-format specifications on symbolic header bytes
       (docx/pptx/xlsx._get_image_pixel_dimensions, image_utils.detect_image_type +
       get_image_dimensions / get_jpeg_dimensions): "its pixel size when the file declares one",
       "the matching content type"
  K1r  relational: the three copies of _get_image_pixel_dimensions agree on EVERY input
       (fully symbolic buffer, no well-formedness assumption)
  K1s  the struct stand-in used for image_utils agrees with the real struct module
  K2   relationship-target resolution (pptx._normalize_relative_path, xlsx._resolve_drawing_path /
       _resolve_image_path, docx "word/" + target, epub resolve_href) vs OPC / RFC 3986 part-name
       resolution (posixpath.normpath(join(dirname(source), target)), absolute = package root)
  K3   numbering and unit views on symbolic content (see the kernel docstrings)

Oracles are written from the file-format specifications (PNG 1.2 section 11.2.2, GIF89a section 18,
BMP BITMAPFILEHEADER + DIB header, ITU T.81 Annex B) and from ECMA-376 part 2 (OPC) section 8/9,
not from the code.
"""
import io
import struct as _real_struct
import sys

import z3

from vf.core import Kernel
from vf import symrun as S


# ---------------------------------------------------------------------------------------
# repository access (never at import time)
# ---------------------------------------------------------------------------------------

def _mods():
    from sharepoint2text.parsing.extractors.ms_modern import docx_extractor, pptx_extractor, xlsx_extractor
    from sharepoint2text.parsing.extractors.util import image_utils
    return {"docx": docx_extractor, "pptx": pptx_extractor, "xlsx": xlsx_extractor, "util": image_utils}


# ---------------------------------------------------------------------------------------
# byte helpers working on bytes and on SymBytes alike
# ---------------------------------------------------------------------------------------

def _u(b, off, n, order):
    return S._from_bytes(list(b[off:off + n]), order)


def _sgn(b, off, n, order):
    return S._from_bytes(list(b[off:off + n]), order, signed=True)


def _eq(a, b):
    """equality of two optional numbers -> python bool or SymBool"""
    if a is None or b is None:
        return a is None and b is None
    return a == b


def _both(a, b):
    if a is True:
        return b
    if b is True:
        return a
    if a is False or b is False:
        return False
    return a & b


def _conc_bv(ctx, v, lo, hi):
    """fork a bounded symbolic unsigned value into its concrete values (binary splitting with
    unsigned comparisons); python ints pass through"""
    if isinstance(v, int):
        return v
    while lo < hi:
        mid = (lo + hi) // 2
        if v <= mid:
            hi = mid
        else:
            lo = mid + 1
    ctx.assume(v == lo)
    return lo


class StructShadow:
    """the name ``struct`` as seen from image_utils: unpack/unpack_from of ONE integer code with an
    explicit byte order, on symbolic buffers; everything else is the real module (K1s checks the
    agreement on concrete buffers, including the error behaviour on short buffers)"""
    error = _real_struct.error
    pack = staticmethod(_real_struct.pack)
    calcsize = staticmethod(_real_struct.calcsize)
    Struct = _real_struct.Struct
    _SIZE = {"B": 1, "b": 1, "H": 2, "h": 2, "I": 4, "i": 4, "L": 4, "l": 4, "Q": 8, "q": 8}
    _ORDER = {"<": "little", ">": "big", "!": "big"}

    @classmethod
    def _parse(cls, fmt):
        if len(fmt) != 2 or fmt[0] not in cls._ORDER or fmt[1] not in cls._SIZE:
            raise S.Unsupported("struct format %r" % (fmt,))
        return cls._ORDER[fmt[0]], cls._SIZE[fmt[1]], fmt[1] in "bhilq"

    @classmethod
    def unpack(cls, fmt, buf):
        if isinstance(buf, (bytes, bytearray)):
            return _real_struct.unpack(fmt, buf)
        order, size, signed = cls._parse(fmt)
        if len(buf) != size:
            raise _real_struct.error("unpack requires a buffer of %d bytes" % size)
        return (S._from_bytes(list(buf), order, signed=signed),)

    @classmethod
    def unpack_from(cls, fmt, buf, offset=0):
        if isinstance(buf, (bytes, bytearray)):
            return _real_struct.unpack_from(fmt, buf, offset)
        order, size, signed = cls._parse(fmt)
        if offset < 0:
            offset += len(buf)
        if offset < 0 or len(buf) - offset < size:
            raise _real_struct.error("unpack_from requires a buffer of at least %d bytes" % (offset + size))
        return (S._from_bytes(list(buf[offset:offset + size]), order, signed=signed),)


# ---------------------------------------------------------------------------------------
# the specifications
# ---------------------------------------------------------------------------------------

PNG_SIG = b"\x89PNG\r\n\x1a\n"                       # PNG 1.2, 3.1
# ITU T.81 table B.1: SOF0-3, SOF5-7, SOF9-11, SOF13-15 (C4 = DHT, C8 = JPG reserved, CC = DAC)
SOF = (0xC0, 0xC1, 0xC2, 0xC3, 0xC5, 0xC6, 0xC7, 0xC9, 0xCA, 0xCB, 0xCD, 0xCE, 0xCF)
# DIB header sizes whose width/height are signed 32-bit at offsets 18/22 of the file
BMP_INFO_SIZES = (40, 52, 56, 64, 108, 124)
BMP_CORE_SIZE = 12                                   # BITMAPCOREHEADER: unsigned 16-bit at 18/20
CONTENT_TYPE = {"png": "image/png", "jpeg": "image/jpeg", "gif": "image/gif", "bmp": "image/bmp"}


def _member(v, values):
    """v in values as ONE disjunction (python bool or SymBool)"""
    out = False
    for x in values:
        r = (v == x)
        if r is True:
            return True
        if r is False:
            continue
        out = r if out is False else (out | r)
    return out


def spec_declared(ctx, data):
    """What a file DECLARES, per its format specification.  Returns (kind, width, height) when the
    bytes are a well-formed beginning of a PNG/GIF/BMP/JPEG that declares a pixel size, or None
    when the specification gives no answer (unknown signature, truncated before the size fields,
    zero/out-of-range size fields, malformed segment chain): nothing is demanded then."""
    p = ctx.perturb
    n = len(data)
    if n >= 8 and data[:8] == PNG_SIG:
        # first chunk must be IHDR: length 13, type "IHDR", width, height (4 bytes each, big-endian,
        # 1..2^31-1)
        if n < 24:
            return None
        if not (data[8:16] == b"\x00\x00\x00\x0dIHDR"):
            return None
        order = "little" if p == "png_little_endian" else "big"
        w, h = _u(data, 16, 4, order), _u(data, 20, 4, order)
        if p == "png_swapped":
            w, h = h, w
        if (w >= 1) & (w <= 0x7FFFFFFF) & (h >= 1) & (h <= 0x7FFFFFFF):
            return ("png", w, h)
        return None
    if n >= 6 and _member(data[:6], (b"GIF87a", b"GIF89a")):
        # logical screen descriptor: width, height unsigned 16-bit little-endian at 6, 8
        if n < 10:
            return None
        w = _u(data, 6, 2, "little")
        h = _u(data, 8 if p != "gif_offset" else 7, 2, "little")
        if (w >= 1) & (h >= 1):
            return ("gif", w, h)
        return None
    if n >= 2 and data[:2] == b"BM":
        # BITMAPFILEHEADER (14 bytes) then the DIB header, whose first field is its size
        if n < 26:
            return None
        hs = _u(data, 14, 4, "little")
        if _member(hs, BMP_INFO_SIZES):
            w, h = _sgn(data, 18, 4, "little"), _sgn(data, 22, 4, "little")
            if (w >= 1) & (h != 0) & (h > -0x80000000):
                # negative height = top-down bitmap of |height| rows
                return ("bmp", w, h if p == "bmp_height_signed" else S.sym_abs(h))
            return None
        if ctx.params.get("bmp_core", True) and hs == BMP_CORE_SIZE:
            w, h = _u(data, 18, 2, "little"), _u(data, 20, 2, "little")
            if (w >= 1) & (h >= 1):
                return ("bmp", w, h)
        return None
    if n >= 4 and data[:2] == b"\xff\xd8":
        return _spec_jpeg(ctx, data)
    return None


def _spec_jpeg(ctx, data):
    """ITU T.81 B.1.1: after SOI a sequence of marker segments FF <marker> <Lhi> <Llo> <L-2 bytes>,
    each marker optionally preceded by fill bytes FF (B.1.1.2); the first SOFn segment is the frame
    header Lf P Y X Nf...: Y = number of lines, X = samples per line (B.2.2).  Anything else before
    the frame header (stand-alone markers, SOS/EOI, a byte that is not FF where a marker must be,
    a segment that does not fit) is outside what a generated image looks like: assumed away."""
    p = ctx.perturb
    n = len(data)
    max_seg = ctx.params.get("segments", 2)
    max_fill = ctx.params.get("fill", 0)
    sof = SOF + ((0xC4,) if p == "jpeg_c4_is_sof" else ())
    pos = 2
    for seg in range(max_seg + 1):
        ctx.assume(pos + 4 <= n)
        ctx.assume(data[pos] == 0xFF)
        fills = 0
        while fills < max_fill and pos + 5 <= n and data[pos + 1] == 0xFF:
            fills += 1
            pos += 1
        m = data[pos + 1]
        ctx.assume(m != 0xFF)
        L = _u(data, pos + 2, 2, "big")
        if _member(m, sof):
            # frame header: Lf = 8 + 3*Nf, Nf >= 1; the whole segment must be present
            ctx.assume(L >= 11)
            ctx.assume(L <= n - pos - 2)
            h = _u(data, pos + 5, 2, "big")
            w = _u(data, pos + (7 if p != "jpeg_plus2_slip" else 9), 2, "big")
            ctx.assume((w >= 1) & (h >= 1))      # Y = 0 means "defined by a DNL marker later"
            return ("jpeg", w, h)
        # segments with a length field that may precede the frame header:
        # C4 DHT, C8 JPG, CC DAC, DB DQT, DC DNL, DD DRI, DE DHP, DF EXP, E0-EF APPn, F0-FD JPGn, FE COM
        ctx.assume((m == 0xC4) | (m == 0xC8) | (m == 0xCC) | ((m >= 0xDB) & (m <= 0xFE)))
        ctx.assume(L >= 2)
        ctx.assume(L <= n - pos - 2 - 4)
        pos = pos + 2 + _conc_bv(ctx, L, 2, n - pos - 6)
    ctx.assume(False)


# ---------------------------------------------------------------------------------------
# K1: sniffers vs specification
# ---------------------------------------------------------------------------------------

def _call_sniffer(ctx, target, data):
    """run the real code of one target on the buffer; returns (content_type or None, (w, h))"""
    mods = _mods()
    m = mods[target]
    if target == "util":
        with ctx.shadow(m, struct=StructShadow, abs=S.sym_abs):
            det = m.detect_image_type(data)
            if det is None:
                return None, (None, None), None
            kind = det[0]
            if ctx.params.get("alias") and kind == "jpeg":
                kind = "jpg"
            dims = m.get_image_dimensions(data, kind)
            direct = m.get_jpeg_dimensions(data) if det[0] == "jpeg" else None
        return det, dims, direct
    sh = dict(int=S.IntShadow, abs=S.sym_abs)
    if hasattr(m, "_JPEG_SOF_MARKERS"):
        sh["_JPEG_SOF_MARKERS"] = S.SymSet(sorted(m._JPEG_SOF_MARKERS))
    with ctx.shadow(m, **sh):
        dims = m._get_image_pixel_dimensions(data)
    return None, dims, None


def _make_buffer(ctx, fmt):
    """the symbolic file beginning for one part of the input space"""
    N = ctx.params["n"]
    if fmt == "hdr":
        # every length 0..N, every byte symbolic; JPEG beginnings are the other part
        n = ctx.choice("length", N + 1)
        data = ctx.fresh_bytes("b", n)
        if n >= 2:
            ctx.assume(~_as_symbool(data[:2] == b"\xff\xd8"))
        return data
    # jpeg: SOI fixed, everything after it symbolic
    body = ctx.fresh_bytes("b", N - 2)
    if ctx.concrete:
        return b"\xff\xd8" + body
    return S.SymBytes([0xFF, 0xD8] + body.e)


def _as_symbool(r):
    if isinstance(r, S.SymBool):
        return r
    return _B(bool(r))


class _B:
    """python bool with ~ meaning logical not (so that the harness reads the same on both kinds)"""

    def __init__(self, v):
        self.v = v

    def __invert__(self):
        return not self.v

    def __bool__(self):
        return self.v


def k1_sniffers(ctx):
    target, fmt = ctx.params["target"], ctx.params["fmt"]
    data = _make_buffer(ctx, fmt)
    if fmt == "hdr":
        # repository code first: its own branches split the symbolic header
        try:
            det, dims, direct = _call_sniffer(ctx, target, data)
        except Exception as e:
            ctx.fail("sniffer-raised", exc=type(e).__name__, msg=str(e)[:100])
        decl = spec_declared(ctx, data)
    else:
        # JPEG: the specification's well-formedness assumptions first (they bound the walk)
        decl = spec_declared(ctx, data)
        try:
            det, dims, direct = _call_sniffer(ctx, target, data)
        except Exception as e:
            ctx.fail("sniffer-raised", exc=type(e).__name__, msg=str(e)[:100])
    ctx.require(isinstance(dims, tuple) and len(dims) == 2, "sniffer-result-shape", got=repr(dims)[:60])
    if decl is None:
        return
    kind, w, h = decl
    if target == "util":
        ctx.require(det is not None and tuple(det) == (kind, CONTENT_TYPE[kind]),
                    "content-type-differs-from-signature", expected=kind, got=repr(det))
        if direct is not None:
            ctx.require(_both(_eq(direct[0], w), _eq(direct[1], h)),
                        "declared-pixel-size-not-returned", kind=kind, via="get_jpeg_dimensions")
    ctx.require(_both(_eq(dims[0], w), _eq(dims[1], h)), "declared-pixel-size-not-returned",
                kind=kind, got=_show(dims), declared=_show((w, h)))


def _show(t):
    return [x if isinstance(x, int) or x is None else "<sym>" for x in t]


def _k1_parts(tier):
    parts = []
    nh = 32 if tier == "quick" else 64
    for t in ("docx", "pptx", "xlsx", "util"):
        parts.append({"target": t, "fmt": "hdr", "n": nh})
        if tier == "quick":
            parts.append({"target": t, "fmt": "jpeg", "n": 30, "segments": 2, "fill": 0})
            parts.append({"target": t, "fmt": "jpeg", "n": 24, "segments": 1, "fill": 1})
        else:
            parts.append({"target": t, "fmt": "jpeg", "n": 40, "segments": 3, "fill": 0})
            parts.append({"target": t, "fmt": "jpeg", "n": 30, "segments": 2, "fill": 2})
    parts.append({"target": "util", "fmt": "jpeg", "n": 24, "segments": 1, "fill": 0, "alias": True})
    return parts


# ---------------------------------------------------------------------------------------
# K1r: the three copies agree on every input
# ---------------------------------------------------------------------------------------

def k1_agree(ctx):
    fmt = ctx.params["fmt"]
    data = _make_buffer(ctx, fmt)
    if fmt == "jpeg" and not ctx.concrete:
        # partition of the JPEG space by the first byte after SOI being FF or not
        first_ff = ctx.params.get("first_ff")
        if first_ff is not None and len(data) > 2:
            ctx.assume(data[2] == 0xFF if first_ff else data[2] != 0xFF)
    res = {}
    for t in ("docx", "pptx", "xlsx"):
        try:
            res[t] = _call_sniffer(ctx, t, data)[1]
        except Exception as e:
            res[t] = ("raised", type(e).__name__)
    a, b, c = res["docx"], res["pptx"], res["xlsx"]
    if ctx.perturb == "pptx_swapped":
        b = (b[1], b[0])
    for name, x in (("pptx", b), ("xlsx", c)):
        if a[0] == "raised" or x[0] == "raised":
            ctx.require(a == x, "copies-disagree", docx=repr(a), other=name, got=repr(x))
        else:
            ctx.require(_both(_eq(a[0], x[0]), _eq(a[1], x[1])), "copies-disagree",
                        other=name, docx=_show(a), got=_show(x))


def _k1r_parts(tier):
    if tier == "quick":
        return [{"fmt": "hdr", "n": 32}, {"fmt": "jpeg", "n": 13, "first_ff": True},
                {"fmt": "jpeg", "n": 13, "first_ff": False}]
    return [{"fmt": "hdr", "n": 64}, {"fmt": "jpeg", "n": 16, "first_ff": True},
            {"fmt": "jpeg", "n": 16, "first_ff": False}]


# ---------------------------------------------------------------------------------------
# K1s: struct stand-in == struct
# ---------------------------------------------------------------------------------------

def k1_struct_shadow(ctx):
    fmts = [">I", ">H", "<i", "<H", "<I", "<h", ">i"]
    fmt = fmts[ctx.choice("fmt", len(fmts))]
    size = _real_struct.calcsize(fmt)
    n = ctx.choice("buflen", 7)
    off = ctx.choice("offset", 4)
    raw = ctx.fresh_bytes("b", n)
    sym = raw if not ctx.concrete else S.SymBytes(list(raw))

    def run(f):
        try:
            return ("ok", f())
        except _real_struct.error:
            return ("struct.error", None)

    if ctx.concrete:
        real = bytes(raw)
        a1, b1 = run(lambda: _real_struct.unpack(fmt, real[off:off + size])), \
            run(lambda: StructShadow.unpack(fmt, sym[off:off + size]))
        a2, b2 = run(lambda: _real_struct.unpack_from(fmt, real, off)), \
            run(lambda: StructShadow.unpack_from(fmt, sym, off))
        ctx.require(a1 == b1 and a2 == b2, "struct-shadow-differs", fmt=fmt)
        return
    # symbolic: the stand-in's value must equal the arithmetic definition of the format
    order = "big" if fmt[0] == ">" else "little"
    signed = fmt[1].islower()
    r = run(lambda: StructShadow.unpack_from(fmt, sym, off))
    if n - off < size:
        ctx.require(r[0] == "struct.error", "struct-shadow-differs", fmt=fmt)
        return
    ctx.require(r[0] == "ok", "struct-shadow-differs", fmt=fmt)
    bs = list(sym[off:off + size])
    if order == "little":
        bs = bs[::-1]
    val = 0
    for x in bs:
        val = val * 256 + x.to_int()
    if signed:
        top = 1 << (8 * size - 1)
        val_s = S.SymInt(z3.If(val.z >= top, val.z - 2 * top, val.z))
    else:
        val_s = val
    if ctx.perturb == "unsigned_everywhere":
        val_s = val
    got = r[1][0]
    ctx.require(got == val_s, "struct-shadow-differs", fmt=fmt)


def _k1_targets():
    m = _mods()
    return [m["docx"]._get_image_pixel_dimensions, m["pptx"]._get_image_pixel_dimensions,
            m["xlsx"]._get_image_pixel_dimensions, m["util"].detect_image_type,
            m["util"].get_image_dimensions, m["util"].get_jpeg_dimensions]


KERNELS = [
    Kernel("K1", "dimension sniffers return the pixel size the file declares (PNG IHDR, GIF LSD, BMP DIB header, "
                 "JPEG first SOFn reached by segment lengths) and the matching content type",
           k1_sniffers, targets=_k1_targets, parts=_k1_parts,
           perturb=[("png_little_endian", {"target": "docx", "fmt": "hdr", "n": 32}),
                    ("gif_offset", {"target": "util", "fmt": "hdr", "n": 32}),
                    ("bmp_height_signed", {"target": "xlsx", "fmt": "hdr", "n": 32}),
                    ("jpeg_c4_is_sof", {"target": "pptx", "fmt": "jpeg", "n": 24, "segments": 1, "fill": 0}),
                    ("jpeg_plus2_slip", {"target": "util", "fmt": "jpeg", "n": 24, "segments": 1, "fill": 0})],
           symbolic=["every byte of the file beginning (hdr: all lengths 0..n; jpeg: n bytes after SOI)",
                     "JPEG segment markers, segment lengths and fill bytes"],
           choices=["buffer length"],
           assumptions=["a file 'declares' a size when: PNG signature + IHDR(len 13) with 1 <= w,h < 2^31; GIF87a/89a "
                        "with w,h >= 1; 'BM' + DIB header size in {12,40,52,56,64,108,124} with width >= 1, height != 0; "
                        "JPEG = SOI, <= k length-carrying segments (DHT/DAC/DQT/DRI/APPn/COM/...), each optionally "
                        "preceded by <= f fill bytes, then a complete SOFn segment (Lf >= 11) with X,Y >= 1",
                        "nothing is demanded for files outside that predicate"],
           outside=["files whose size fields lie beyond the buffer bound; JPEGs with more than k segments before SOFn",
                    "TIFF/EMF/WMF (no pixel size demanded)"],
           timeout={"quick": 100, "thorough": 1100}, max_depth=600),
    Kernel("K1r", "the three copies of _get_image_pixel_dimensions (docx/pptx/xlsx) agree on every input",
           k1_agree, targets=lambda: _k1_targets()[:3], parts=_k1r_parts,
           perturb=[("pptx_swapped", {"fmt": "hdr", "n": 32})],
           symbolic=["every byte of the buffer, no well-formedness assumption"],
           choices=["buffer length"],
           outside=["JPEG-prefixed buffers longer than the bound (13 / 16 bytes)"],
           timeout={"quick": 100, "thorough": 1100}, max_depth=600),
    Kernel("K1s", "struct stand-in used for image_utils == struct (values on symbolic bytes, errors on short buffers)",
           k1_struct_shadow, targets=lambda: [], core=False,
           perturb=["unsigned_everywhere"],
           symbolic=["buffer bytes"], choices=["format", "buffer length", "offset"]),
]

META = {
    "level_text": "The real dimension sniffers (three copies of _get_image_pixel_dimensions, image_utils "
                  "detect_image_type/get_image_dimensions/get_jpeg_dimensions) are executed on file beginnings whose "
                  "every byte is symbolic; z3 decides on each path that the returned size equals what the PNG/GIF/BMP/"
                  "JPEG specification says the file declares, and that the three copies agree on every input.",
    "level_note": "Trusted: the reading of the format specifications in spec_declared; struct stand-in (checked by K1s). "
                  "Outside: size fields beyond the buffer bound, JPEGs with more segments before SOFn than the bound.",
    "technique": "symbolic execution of the real sniffers on z3 bit-vector bytes (symrun), per-path SMT query against "
                 "format-specification oracles, relational query between the three copies",
}
