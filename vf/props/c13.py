"""C13 - tables come back with their shape and every cell in place.

K1   shape algebra of the list-backed TableInterface classes on ragged grids of SYMBOLIC row lengths
K1x  XlsSheet.get_table/get_dim on dictionary rows keyed by SYMBOLIC header texts (duplicates / empties
     are decided by the solver inside dict insertion)
K2   xlsx._read_sheet_data + _read_content_from_workbook on a fake worksheet (symbolic cell texts)
K3   xls._read_content on a fake xlrd book (symbolic ctype / value / header texts)
K4   ods._extract_sheet on real ET rows/cells with SYMBOLIC repeat counts
K5   table walkers of docx / pptx / odt / odp / html / epub / rtf on a generated document model

Every oracle is written from the property text: a source table with r rows and c columns comes back
as r x c, cell (i,j) holds the text or value of source cell (i,j), tables arrive in source order and
none is lost, merged or invented; get_dim() reports (r, c).
"""
import datetime
import io

import z3

from vf.core import Kernel
from vf import symrun as S


# ---------------------------------------------------------------------------------------
# small helpers: conditions that are python bools in replay and z3 terms in symbolic runs
# ---------------------------------------------------------------------------------------

def _zc(c):
    if isinstance(c, S.SymBool):
        return c.z
    if isinstance(c, bool):
        return z3.BoolVal(c)
    return c


def conj(cs):
    cs = list(cs)
    if all(isinstance(c, bool) for c in cs):
        return all(cs)
    return z3.And(*[_zc(c) for c in cs]) if cs else True


def disj(cs):
    cs = list(cs)
    if all(isinstance(c, bool) for c in cs):
        return any(cs)
    return z3.Or(*[_zc(c) for c in cs]) if cs else False


def _dt():
    import sharepoint2text.parsing.extractors.data_types as dt
    return dt


# ---------------------------------------------------------------------------------------
# K1  list-backed TableInterface classes: get_dim vs get_table on symbolic ragged grids
# ---------------------------------------------------------------------------------------

LIST_CLASSES = ["TableData", "XlsxSheet", "OdsSheet", "OdtTable", "RtfTable"]


class _SymRow:
    """a row of symbolic length n (the cells that exist are cells[:n])"""

    def __init__(self, cells, n):
        self.cells, self.n = cells, n


def _len_shadow(x):
    if isinstance(x, _SymRow):
        return x.n
    return S.sym_len(x)


def k1_grid(ctx):
    dt = _dt()
    cls = getattr(dt, ctx.params["cls"])
    R, C = ctx.params["R"], ctx.params["C"]
    r = ctx.choice("rows", R + 1)
    lens, rows = [], []
    for i in range(r):
        n = ctx.fresh_int(f"len{i}", 0, C)
        cells = [f"r{i}c{j}" for j in range(C)]
        lens.append(n)
        rows.append(cells[:n] if ctx.concrete else _SymRow(cells, n))
    obj = cls(data=rows)
    with ctx.shadow(dt, len=_len_shadow):
        dim = obj.get_dim()
        tbl = obj.get_table()
    # the grid itself: r rows, row i is source row i (ragged rows stay as they are)
    ctx.require(len(tbl) == r, "row-count-differs", got=len(tbl), rows=r)
    ctx.require(all(tbl[i] is rows[i] for i in range(r)), "row-not-in-place")
    ctx.require(dim.rows == r, "get_dim-rows-differ", got=dim.rows, rows=r)
    cols = dim.columns
    if r == 0:
        ctx.require(cols == 0, "get_dim-columns-differ", rows=0)
        return
    if ctx.perturb == "columns_is_first_row":
        ctx.require(cols == lens[0], "get_dim-columns-differ")
        return
    # c of a ragged grid: the widest row
    ctx.require(conj([conj([cols >= n for n in lens]), disj([cols == n for n in lens])]),
                "get_dim-columns-differ", rows=r)


def _k1_parts(tier):
    R, C = (3, 3) if tier == "quick" else (4, 5)
    return [{"cls": c, "R": R, "C": C} for c in LIST_CLASSES]


# ---------------------------------------------------------------------------------------
# K1x  XlsSheet: rows are dictionaries keyed by header text
# ---------------------------------------------------------------------------------------

def _sym_headers(ctx, c, maxlen, lo=65, hi=67):
    """c header texts of length 0..maxlen with symbolic characters"""
    out = []
    for j in range(c):
        n = ctx.choice(f"hdr{j}_len", maxlen + 1)
        out.append(ctx.fresh_chars(f"hdr{j}", n, lo, hi))
    return out


def k1x_xls_sheet(ctx):
    dt = _dt()
    C, N, L = ctx.params["C"], ctx.params["N"], ctx.params["L"]
    c = 1 + ctx.choice("cols", C)
    n = 1 + ctx.choice("data_rows", N)
    ctx.hash_universe = set()          # symbolic header texts hash by length, == decides
    hdr = _sym_headers(ctx, c, L)
    vals = [[ctx.fresh_int(f"v{i}_{j}", 0, 9) for j in range(c)] for i in range(n)]
    # the rows as the data type prescribes them: one dictionary per data row, keyed by header text
    data = []
    for i in range(n):
        d = {}
        for j in range(c):
            d[hdr[j]] = vals[i][j]
        data.append(d)
    sheet = dt.XlsSheet(name="s", data=data)
    tbl = sheet.get_table()
    dim = sheet.get_dim()
    r = n + 1                          # header row + data rows
    shape = dict(rows=r, cols=c, got_rows=len(tbl), got_cols=[len(x) for x in tbl])
    if ctx.perturb == "expect_extra_row":
        r += 1
    ctx.require(len(tbl) == r, "row-count-differs", **shape)
    ctx.require(all(len(row) == c for row in tbl), "columns-collapsed", **shape)
    ctx.require(conj([tbl[0][j] == hdr[j] for j in range(c)]), "header-cell-not-in-place")
    ctx.require(conj([tbl[i + 1][j] == vals[i][j] for i in range(n) for j in range(c)]),
                "cell-not-in-place")
    ctx.require(conj([dim.rows == r, dim.columns == c]), "get_dim-differs", **shape)


# ---------------------------------------------------------------------------------------
# K3  xls._read_content on a fake xlrd book
# ---------------------------------------------------------------------------------------

def _xls():
    import sharepoint2text.parsing.extractors.ms_legacy.xls_extractor as m
    return m


class _Poly:
    """what xlrd hands over as cell.value, for a cell whose TYPE is symbolic: an integral part
    ``num``, a flag ``half`` (value = num + 0.5) and a text; the repository's own tests on ctype
    decide which reading is used"""

    def __init__(self, num, half, txt):
        self.num, self.half, self.txt = num, half, txt

    def __eq__(self, o):             # value == int(value)
        if isinstance(o, (S.SymInt, int)):
            return (self.num == o) & ~self.half
        return NotImplemented

    def __bool__(self):
        return bool((self.num != 0) | self.half)

    def __hash__(self):
        return id(self)


class _IntMeta(type):
    def __instancecheck__(cls, inst):
        return isinstance(inst, (int, S.SymInt, S.SymBV, S.SymBool))

    def __call__(cls, x=0, base=None):
        if isinstance(x, _Poly):
            return x.num                 # truncation of num (+ 0.5), num >= 0
        return S.sym_int(x, base)


class _IntShadow(metaclass=_IntMeta):
    from_bytes = staticmethod(S._from_bytes)


class _StrMeta(type):
    def __instancecheck__(cls, inst):
        return isinstance(inst, (str, S.CharStr))

    def __call__(cls, x="", *a):
        if isinstance(x, S.CharStr):
            return x
        if isinstance(x, _Poly):
            return x.txt
        return str(x, *a)


class _StrShadow(metaclass=_StrMeta):
    """the name ``str``: isinstance(x, str) holds for bounded symbolic strings, str(s) is s"""


class _Cell:
    def __init__(self, ctype, value):
        self.ctype, self.value = ctype, value


class _Sheet:
    def __init__(self, name, grid):
        self.name = name
        self.grid = grid
        self.nrows = len(grid)
        self.ncols = max((len(r) for r in grid), default=0)

    def cell(self, r, c):
        return self.grid[r][c]


class _Book:
    datemode = 0

    def __init__(self, sheets):
        self._sheets = sheets

    def sheets(self):
        return self._sheets


XL_EMPTY, XL_TEXT, XL_NUMBER, XL_DATE, XL_BOOLEAN, XL_ERROR, XL_BLANK = range(7)   # xlrd/biffh.py
DATE_BASE = 45000                      # 2023-03-15 in the 1900 date system
TYPED_HEADERS = [                      # (ctype, value, predicate on the returned header text)
    (XL_NUMBER, 5.0, lambda t: float(t) == 5.0),
    (XL_NUMBER, 2.5, lambda t: float(t) == 2.5),
    (XL_BOOLEAN, 1, lambda t: str(t).strip().lower() in ("true", "1")),
    (XL_DATE, 45000.0, lambda t: datetime.datetime.fromisoformat(t) == datetime.datetime(2023, 3, 15)),
    (XL_DATE, 45000.5, lambda t: datetime.datetime.fromisoformat(t) == datetime.datetime(2023, 3, 15, 12)),
]


def _excel_serial_to_datetime(serial_days, half):
    # 1900 date system, serial >= 61: day 1 is 1900-01-01 and the non-existent 1900-02-29 is
    # counted, hence the epoch 1899-12-30
    return datetime.datetime(1899, 12, 30) + datetime.timedelta(days=serial_days, hours=12 if half else 0)


def _xls_probe(ctx, name):
    """a data cell whose type, number and text are symbolic"""
    ct = ctx.fresh_int(f"{name}_ctype", 0, 6)
    num = ctx.fresh_int(f"{name}_num", 0, ctx.params.get("num_hi", 1))
    half = ctx.fresh_bool(f"{name}_half")
    txt = ctx.fresh_chars(f"{name}_txt", 1, 97, 122)
    if ctx.concrete:
        value = {XL_EMPTY: "", XL_TEXT: txt, XL_NUMBER: num + (0.5 if half else 0.0),
                 XL_DATE: DATE_BASE + num + (0.5 if half else 0.0), XL_BOOLEAN: 1 if (num or half) else 0,
                 XL_ERROR: 7, XL_BLANK: ""}[ct]
        if ct == XL_NUMBER:
            value = float(value)
    else:
        value = _Poly(num, half, txt)
    return _Cell(ct, value), dict(ct=ct, num=num, half=half, txt=txt)


def k3_xls_read(ctx):
    xls = _xls()
    C, N, L = ctx.params["C"], ctx.params["N"], ctx.params["L"]
    ncols = 1 + ctx.choice("cols", C)
    ndata = ctx.choice("data_rows", N + 1)
    typed_hdr = ctx.params.get("typed_header", False)
    ctx.hash_universe = set()
    # ---- source grid -------------------------------------------------------------------
    hdr_cells, hdr_spec = [], []
    for j in range(ncols):
        if typed_hdr and j == 0:
            k = ctx.choice("hdr0_type", len(TYPED_HEADERS))
            ct, v, pred = TYPED_HEADERS[k]
            hdr_cells.append(_Cell(ct, v))
            hdr_spec.append(("typed", pred))
            continue
        ct = ctx.fresh_int(f"hdr{j}_ctype", 0, 1)
        n = ctx.choice(f"hdr{j}_len", L + 1)
        txt = ctx.fresh_chars(f"hdr{j}", n, 65, 67)
        hdr_cells.append(_Cell(ct, txt if not ctx.concrete or ct == XL_TEXT else ""))
        hdr_spec.append(("text", ct, txt))
    probe_at = ctx.choice("probe_cell", ndata * ncols) if ndata * ncols > 1 else 0
    grid, spec = [hdr_cells], []
    for i in range(ndata):
        row, srow = [], []
        for j in range(ncols):
            if i * ncols + j == probe_at or ctx.params.get("all_probes"):
                cell, sp = _xls_probe(ctx, f"c{i}_{j}")
            else:
                txt = ctx.fresh_chars(f"c{i}_{j}_txt", 1, 97, 122)
                cell, sp = _Cell(XL_TEXT, txt), dict(ct=XL_TEXT, txt=txt, num=0, half=False)
            row.append(cell)
            srow.append((cell, sp))
        grid.append(row)
        spec.append(srow)
    book = _Book([_Sheet("S1", grid)])
    real_xldate = xls.xlrd.xldate_as_tuple

    def xldate(value, datemode):
        # xlrd's serial -> calendar conversion is xlrd's own arithmetic (outside): run it on the
        # concrete serial of this path
        if not isinstance(value, _Poly):
            return real_xldate(value, datemode)
        n = int(value.num)
        h = bool(value.half)
        return real_xldate(DATE_BASE + n + (0.5 if h else 0.0), datemode)

    with ctx.stub(xls.xlrd, open_workbook=lambda *a, **k: book), \
            ctx.shadow(xls.xlrd, xldate_as_tuple=xldate), \
            ctx.shadow(xls, int=_IntShadow, str=_StrShadow, _format_sheet_as_text=lambda h, r: ""):
        try:
            sheets = xls._read_content(io.BytesIO(b""))
        except Exception as e:
            ctx.fail("read-raised", exc=type(e).__name__, msg=str(e)[:100])
    ctx.require(len(sheets) == 1, "sheet-count-differs", got=len(sheets))
    sheet = sheets[0]
    tbl = sheet.get_table()
    dim = sheet.get_dim()
    # ---- oracle: the sheet is a table of (1 + ndata) rows and ncols columns ---------------
    r = 1 + ndata
    shape = dict(rows=r, cols=ncols, got_rows=len(tbl), got_cols=[len(x) for x in tbl])
    if ctx.perturb == "expect_transposed":
        r, ncols = ncols, r
    ctx.require(len(tbl) == r, "row-count-differs", **shape)
    ctx.require(all(len(row) == ncols for row in tbl), "columns-collapsed", **shape)
    ctx.require(conj([dim.rows == r, dim.columns == ncols]), "get_dim-differs", **shape)
    for j, hs in enumerate(hdr_spec):
        got = tbl[0][j]
        if hs[0] == "typed":
            try:
                ok = bool(hs[1](got))
            except Exception:
                ok = False
            ctx.require(ok, "typed-header-text-differs", col=j, got=repr(got))
            continue
        _, ct, txt = hs
        ct = ctx.conc(ct, 0, 1)
        if ct == XL_EMPTY:
            ctx.require(got is None or (len(got) == 0), "header-cell-not-in-place", col=j, got=repr(got))
        else:
            ctx.require(got == txt, "header-cell-not-in-place", col=j, got=repr(got))
    for i in range(ndata):
        for j in range(ncols):
            cell, sp = spec[i][j]
            got = tbl[i + 1][j]
            ct = ctx.conc(sp["ct"], 0, 6)
            where = dict(row=i + 1, col=j, ctype=ct, got=repr(got)[:40])
            if ct == XL_EMPTY:
                ctx.require(got is None, "cell-not-in-place", **where)
            elif ct == XL_TEXT:
                ctx.require((got is cell.value) if not ctx.concrete else (isinstance(got, str) and got == sp["txt"]),
                            "cell-not-in-place", **where)
            elif ct == XL_NUMBER:
                if ctx.concrete:
                    exp = sp["num"] + (0.5 if sp["half"] else 0.0)
                    ctx.require(isinstance(got, (int, float)) and not isinstance(got, bool) and got == exp,
                                "number-value-differs", **where)
                elif got is cell.value:       # handed through: a non-integral value
                    ctx.require(sp["half"], "number-value-differs", **where)
                else:
                    ctx.require(conj([got == sp["num"], ~sp["half"]]), "number-value-differs", **where)
            elif ct == XL_DATE:
                n = ctx.conc(sp["num"], 0, ctx.params.get("num_hi", 1))
                h = bool(sp["half"])
                exp = _excel_serial_to_datetime(DATE_BASE + n, h)
                try:
                    ok = isinstance(got, str) and datetime.datetime.fromisoformat(got) == exp
                except Exception:
                    ok = False
                ctx.require(ok, "date-not-iso", expected=exp.isoformat(), **where)
            elif ct == XL_BOOLEAN:
                if ctx.concrete:
                    ctx.require(got is bool(cell.value), "boolean-value-differs", **where)
                else:
                    truth = (sp["num"] != 0) | sp["half"]
                    ctx.require(conj([got is True, truth]) if got is True else
                                conj([got is False, ~truth]), "boolean-value-differs", **where)
            elif ct == XL_ERROR:
                # an error cell has a value (the error code / its text); it is not an empty cell
                ctx.require(got is not None, "error-cell-value-lost", **where)
            else:   # XL_BLANK: formatted but empty
                ctx.require((got is cell.value) if not ctx.concrete else (got is None or got == ""),
                            "cell-not-in-place", **where)


def _k3_parts(tier):
    if tier == "quick":
        return [{"C": 2, "N": 2, "L": 1}, {"C": 2, "N": 1, "L": 1, "typed_header": True}]
    return [{"C": 3, "N": 2, "L": 2, "num_hi": 2}, {"C": 2, "N": 2, "L": 1, "all_probes": True},
            {"C": 2, "N": 1, "L": 1, "typed_header": True}]


KERNELS = [
    Kernel("K1", "get_dim == (rows, widest row) and get_table keeps every row in place: list-backed classes",
           k1_grid, targets=lambda: [getattr(_dt(), c).get_dim for c in LIST_CLASSES] +
           [getattr(_dt(), c).get_table for c in LIST_CLASSES],
           parts=_k1_parts, perturb=["columns_is_first_row"],
           symbolic=["length of every row (0..C)"], choices=["number of rows (0..R)"],
           stubs=["len -> symbolic length of a row object (data_types module, symbolic runs only)"]),
    Kernel("K1x", "XlsSheet.get_table/get_dim on dictionary rows keyed by symbolic header texts",
           k1x_xls_sheet, targets=lambda: [_dt().XlsSheet.get_table, _dt().XlsSheet.get_dim],
           bounds={"quick": {"C": 3, "N": 2, "L": 1}, "thorough": {"C": 4, "N": 2, "L": 2}},
           perturb=["expect_extra_row"],
           symbolic=["every character of every header text (A..C), cell values"],
           choices=["columns 1..C, data rows 1..N, header length 0..L"],
           assumptions=["rows are built as the type XlsSheet.data prescribes: one dict per data row keyed by header text"]),
    Kernel("K3", "xls._read_content on a fake xlrd book: shape, headers, typed cells",
           k3_xls_read, targets=lambda: [_xls()._read_content, _xls()._get_cell_value, _xls()._get_cell_values,
                                         _xls()._format_date_tuple, _dt().XlsSheet.get_table],
           parts=_k3_parts, perturb=["expect_transposed"],
           symbolic=["ctype of header cells {empty,text} and of the probe cell (0..6)", "header characters",
                     "probe value: integral part, +0.5 flag, text"],
           choices=["columns, data rows, header lengths, probe position, typed header kind"],
           stubs=["xlrd.open_workbook -> fake book (cells with ctype/value)",
                  "xlrd.xldate_as_tuple -> the real function on the concretised serial (symbolic runs)",
                  "_format_sheet_as_text -> '' (sheet text is not part of C13; symbolic runs only)"],
           outside=["xlrd's own parsing and cell typing; NaN/inf numbers; 1904 date system and serials < 61"]),
]

META = {
    "level_text": "",
    "level_note": "",
    "technique": "",
}
