"""C13 - tables come back with their shape and every cell in place.

K1   shape algebra of the list-backed TableInterface classes on ragged grids of SYMBOLIC row lengths
K1x  XlsSheet.get_table/get_dim on dictionary rows keyed by SYMBOLIC header texts (duplicates / empties
     are decided by the solver inside dict insertion)
K2   xlsx._read_sheet_data + _read_content_from_workbook on a fake worksheet (symbolic cell texts)
K3   xls._read_content on a fake xlrd book (symbolic ctype / value / header texts)
K4   ods._extract_sheet on real ET rows/cells with SYMBOLIC repeat counts
K5   table walkers of docx / pptx / odt / odp / html / epub / rtf on a generated document model

Every oracle is written from the property text: a source table with r rows and c columns comes back
as r x c, cell (i,j) holds the text or value of source cell (i,j), tables arrive in source order and
none is lost, merged or invented; get_dim() reports (r, c).
"""
import datetime
import io

import z3

from vf.core import Kernel
from vf import symrun as S


# ---------------------------------------------------------------------------------------
# small helpers: conditions that are python bools in replay and z3 terms in symbolic runs
# ---------------------------------------------------------------------------------------

def _zc(c):
    if isinstance(c, S.SymBool):
        return c.z
    if isinstance(c, bool):
        return z3.BoolVal(c)
    return c


def conj(cs):
    cs = list(cs)
    if all(isinstance(c, bool) for c in cs):
        return all(cs)
    return z3.And(*[_zc(c) for c in cs]) if cs else True


def disj(cs):
    cs = list(cs)
    if all(isinstance(c, bool) for c in cs):
        return any(cs)
    return z3.Or(*[_zc(c) for c in cs]) if cs else False


def _known(ctx, fid):
    """a recorded finding whose pinned witness still fails on this tree: paths of its class are
    not reported again (the witness line is), the rest of the oracle is still checked where possible"""
    return fid in (ctx.params.get("known_active") or ())


def _dt():
    import sharepoint2text.parsing.extractors.data_types as dt
    return dt


# ---------------------------------------------------------------------------------------
# K1  list-backed TableInterface classes: get_dim vs get_table on symbolic ragged grids
# ---------------------------------------------------------------------------------------

LIST_CLASSES = ["TableData", "XlsxSheet", "OdsSheet", "OdtTable", "RtfTable"]


class _SymRow:
    """a row of symbolic length n (the cells that exist are cells[:n])"""

    def __init__(self, cells, n):
        self.cells, self.n = cells, n


def _len_shadow(x):
    if isinstance(x, _SymRow):
        return x.n
    return S.sym_len(x)


def k1_grid(ctx):
    dt = _dt()
    cls = getattr(dt, ctx.params["cls"])
    R, C = ctx.params["R"], ctx.params["C"]
    r = ctx.choice("rows", R + 1)
    lens, rows = [], []
    for i in range(r):
        n = ctx.fresh_int(f"len{i}", 0, C)
        cells = [f"r{i}c{j}" for j in range(C)]
        lens.append(n)
        rows.append(cells[:n] if ctx.concrete else _SymRow(cells, n))
    obj = cls(data=rows)
    with ctx.shadow(dt, len=_len_shadow):
        dim = obj.get_dim()
        tbl = obj.get_table()
    # the grid itself: r rows, row i is source row i (ragged rows stay as they are)
    ctx.require(len(tbl) == r, "row-count-differs", got=len(tbl), rows=r)
    ctx.require(all(tbl[i] is rows[i] for i in range(r)), "row-not-in-place")
    ctx.require(dim.rows == r, "get_dim-rows-differ", got=dim.rows, rows=r)
    cols = dim.columns
    if r == 0:
        ctx.require(cols == 0, "get_dim-columns-differ", rows=0)
        return
    if ctx.perturb == "columns_is_first_row":
        ctx.require(cols == lens[0], "get_dim-columns-differ")
        return
    # c of a ragged grid: the widest row
    ctx.require(conj([conj([cols >= n for n in lens]), disj([cols == n for n in lens])]),
                "get_dim-columns-differ", rows=r)


def _k1_parts(tier):
    R, C = (3, 3) if tier == "quick" else (4, 5)
    return [{"cls": c, "R": R, "C": C} for c in LIST_CLASSES]


# ---------------------------------------------------------------------------------------
# K1x  XlsSheet: rows are dictionaries keyed by header text
# ---------------------------------------------------------------------------------------

def _sym_headers(ctx, c, maxlen, lo=65, hi=67):
    """c header texts of length 0..maxlen with symbolic characters"""
    out = []
    for j in range(c):
        n = ctx.choice(f"hdr{j}_len", maxlen + 1)
        out.append(ctx.fresh_chars(f"hdr{j}", n, lo, hi))
    return out


def k1x_xls_sheet(ctx):
    dt = _dt()
    C, N, L = ctx.params["C"], ctx.params["N"], ctx.params["L"]
    c = 1 + ctx.choice("cols", C)
    n = 1 + ctx.choice("data_rows", N)
    ctx.hash_universe = set()          # symbolic header texts hash by length, == decides
    hdr = _sym_headers(ctx, c, L)
    vals = [[ctx.fresh_int(f"v{i}_{j}", 0, 9) for j in range(c)] for i in range(n)]
    # the rows as the data type prescribes them: one dictionary per data row, keyed by header text
    data = []
    for i in range(n):
        d = {}
        for j in range(c):
            d[hdr[j]] = vals[i][j]
        data.append(d)
    sheet = dt.XlsSheet(name="s", data=data)
    tbl = sheet.get_table()
    dim = sheet.get_dim()
    r = n + 1                          # header row + data rows
    shape = dict(rows=r, cols=c, got_rows=len(tbl), got_cols=[len(x) for x in tbl])
    if ctx.perturb == "expect_extra_row":
        r += 1
    ctx.require(len(tbl) == r, "row-count-differs", **shape)
    ctx.require(all(len(row) == c for row in tbl), "columns-collapsed", **shape)
    ctx.require(conj([tbl[0][j] == hdr[j] for j in range(c)]), "header-cell-not-in-place")
    ctx.require(conj([tbl[i + 1][j] == vals[i][j] for i in range(n) for j in range(c)]),
                "cell-not-in-place")
    ctx.require(conj([dim.rows == r, dim.columns == c]), "get_dim-differs", **shape)


# ---------------------------------------------------------------------------------------
# K3  xls._read_content on a fake xlrd book
# ---------------------------------------------------------------------------------------

def _xls():
    import sharepoint2text.parsing.extractors.ms_legacy.xls_extractor as m
    return m


class _Poly:
    """what xlrd hands over as cell.value, for a cell whose TYPE is symbolic: an integral part
    ``num``, a flag ``half`` (value = num + 0.5) and a text; the repository's own tests on ctype
    decide which reading is used"""

    def __init__(self, num, half, txt):
        self.num, self.half, self.txt = num, half, txt

    def __eq__(self, o):             # value == int(value)
        if isinstance(o, (S.SymInt, int)):
            return (self.num == o) & ~self.half
        return NotImplemented

    def __bool__(self):
        return bool((self.num != 0) | self.half)

    def __hash__(self):
        return id(self)


class _IntMeta(type):
    def __instancecheck__(cls, inst):
        return isinstance(inst, (int, S.SymInt, S.SymBV, S.SymBool))

    def __call__(cls, x=0, base=None):
        if isinstance(x, _Poly):
            return x.num                 # truncation of num (+ 0.5), num >= 0
        return S.sym_int(x, base)


class _IntShadow(metaclass=_IntMeta):
    from_bytes = staticmethod(S._from_bytes)


class _StrMeta(type):
    def __instancecheck__(cls, inst):
        return isinstance(inst, (str, S.CharStr))

    def __call__(cls, x="", *a):
        if isinstance(x, S.CharStr):
            return x
        if isinstance(x, _Poly):
            return x.txt
        return str(x, *a)


class _StrShadow(metaclass=_StrMeta):
    """the name ``str``: isinstance(x, str) holds for bounded symbolic strings, str(s) is s"""


class _Cell:
    def __init__(self, ctype, value):
        self.ctype, self.value = ctype, value


class _Sheet:
    def __init__(self, name, grid):
        self.name = name
        self.grid = grid
        self.nrows = len(grid)
        self.ncols = max((len(r) for r in grid), default=0)

    def cell(self, r, c):
        return self.grid[r][c]


class _Book:
    datemode = 0

    def __init__(self, sheets):
        self._sheets = sheets

    def sheets(self):
        return self._sheets


XL_EMPTY, XL_TEXT, XL_NUMBER, XL_DATE, XL_BOOLEAN, XL_ERROR, XL_BLANK = range(7)   # xlrd/biffh.py
DATE_BASE = 45000                      # 2023-03-15 in the 1900 date system
TYPED_HEADERS = [                      # (ctype, value, predicate on the returned header text)
    (XL_NUMBER, 5.0, lambda t: float(t) == 5.0),
    (XL_NUMBER, 2.5, lambda t: float(t) == 2.5),
    (XL_BOOLEAN, 1, lambda t: str(t).strip().lower() in ("true", "1")),
    (XL_DATE, 45000.0, lambda t: datetime.datetime.fromisoformat(t) == datetime.datetime(2023, 3, 15)),
    (XL_DATE, 45000.5, lambda t: datetime.datetime.fromisoformat(t) == datetime.datetime(2023, 3, 15, 12)),
]


def _excel_serial_to_datetime(serial_days, half):
    # 1900 date system, serial >= 61: day 1 is 1900-01-01 and the non-existent 1900-02-29 is
    # counted, hence the epoch 1899-12-30
    return datetime.datetime(1899, 12, 30) + datetime.timedelta(days=serial_days, hours=12 if half else 0)


def _xls_probe(ctx, name):
    """a data cell whose type, number and text are symbolic"""
    ct = ctx.fresh_int(f"{name}_ctype", 0, 6)
    num = ctx.fresh_int(f"{name}_num", 0, ctx.params.get("num_hi", 1))
    half = ctx.fresh_bool(f"{name}_half")
    txt = ctx.fresh_chars(f"{name}_txt", 1, 97, 122)
    if ctx.concrete:
        value = {XL_EMPTY: "", XL_TEXT: txt, XL_NUMBER: num + (0.5 if half else 0.0),
                 XL_DATE: DATE_BASE + num + (0.5 if half else 0.0), XL_BOOLEAN: 1 if (num or half) else 0,
                 XL_ERROR: 7, XL_BLANK: ""}[ct]
        if ct == XL_NUMBER:
            value = float(value)
    else:
        value = _Poly(num, half, txt)
    return _Cell(ct, value), dict(ct=ct, num=num, half=half, txt=txt)


def k3_xls_read(ctx):
    xls = _xls()
    C, N, L = ctx.params["C"], ctx.params["N"], ctx.params["L"]
    ncols = 1 + ctx.choice("cols", C)
    ndata = ctx.choice("data_rows", N + 1)
    typed_hdr = ctx.params.get("typed_header", False)
    ctx.hash_universe = set()
    # ---- source grid -------------------------------------------------------------------
    hdr_cells, hdr_spec = [], []
    for j in range(ncols):
        if typed_hdr and j == 0:
            k = ctx.choice("hdr0_type", len(TYPED_HEADERS))
            ct, v, pred = TYPED_HEADERS[k]
            hdr_cells.append(_Cell(ct, v))
            hdr_spec.append(("typed", pred))
            continue
        ct = ctx.fresh_int(f"hdr{j}_ctype", 0, 1)
        n = ctx.choice(f"hdr{j}_len", L + 1)
        txt = ctx.fresh_chars(f"hdr{j}", n, 65, 67)
        hdr_cells.append(_Cell(ct, txt if not ctx.concrete or ct == XL_TEXT else ""))
        hdr_spec.append(("text", ct, txt))
    probe_at = ctx.choice("probe_cell", ndata * ncols) if ndata * ncols > 1 else 0
    grid, spec = [hdr_cells], []
    for i in range(ndata):
        row, srow = [], []
        for j in range(ncols):
            if i * ncols + j == probe_at or ctx.params.get("all_probes"):
                cell, sp = _xls_probe(ctx, f"c{i}_{j}")
            else:
                txt = ctx.fresh_chars(f"c{i}_{j}_txt", 1, 97, 122)
                cell, sp = _Cell(XL_TEXT, txt), dict(ct=XL_TEXT, txt=txt, num=0, half=False)
            row.append(cell)
            srow.append((cell, sp))
        grid.append(row)
        spec.append(srow)
    book = _Book([_Sheet("S1", grid)])
    real_xldate = xls.xlrd.xldate_as_tuple

    def xldate(value, datemode):
        # xlrd's serial -> calendar conversion is xlrd's own arithmetic (outside): run it on the
        # concrete serial of this path
        if not isinstance(value, _Poly):
            return real_xldate(value, datemode)
        n = int(value.num)
        h = bool(value.half)
        return real_xldate(DATE_BASE + n + (0.5 if h else 0.0), datemode)

    with ctx.stub(xls.xlrd, open_workbook=lambda *a, **k: book), \
            ctx.shadow(xls.xlrd, xldate_as_tuple=xldate), \
            ctx.shadow(xls, int=_IntShadow, str=_StrShadow, _format_sheet_as_text=lambda h, r: ""):
        try:
            sheets = xls._read_content(io.BytesIO(b""))
        except Exception as e:
            ctx.fail("read-raised", exc=type(e).__name__, msg=str(e)[:100])
    ctx.require(len(sheets) == 1, "sheet-count-differs", got=len(sheets))
    sheet = sheets[0]
    tbl = sheet.get_table()
    dim = sheet.get_dim()
    # ---- oracle: the sheet is a table of (1 + ndata) rows and ncols columns ---------------
    r = 1 + ndata
    shape = dict(rows=r, cols=ncols, got_rows=len(tbl), got_cols=[len(x) for x in tbl])
    if ctx.perturb == "expect_transposed":
        r, ncols = ncols, r
    ctx.require(len(tbl) == r, "row-count-differs", **shape)
    ctx.require(all(len(row) == ncols for row in tbl), "columns-collapsed", **shape)
    ctx.require(conj([dim.rows == r, dim.columns == ncols]), "get_dim-differs", **shape)
    for j, hs in enumerate(hdr_spec):
        got = tbl[0][j]
        if hs[0] == "typed":
            try:
                ok = bool(hs[1](got))
            except Exception:
                ok = False
            ctx.require(ok, "typed-header-text-differs", col=j, got=repr(got))
            continue
        _, ct, txt = hs
        ct = ctx.conc(ct, 0, 1)
        if ct == XL_EMPTY:
            ctx.require(got is None or (len(got) == 0), "header-cell-not-in-place", col=j, got=repr(got))
        else:
            ctx.require(got == txt, "header-cell-not-in-place", col=j, got=repr(got))
    for i in range(ndata):
        for j in range(ncols):
            cell, sp = spec[i][j]
            got = tbl[i + 1][j]
            ct = ctx.conc(sp["ct"], 0, 6)
            where = dict(row=i + 1, col=j, ctype=ct, got=repr(got)[:40])
            if ct == XL_EMPTY:
                ctx.require(got is None, "cell-not-in-place", **where)
            elif ct == XL_TEXT:
                ctx.require((got is cell.value) if not ctx.concrete else (isinstance(got, str) and got == sp["txt"]),
                            "cell-not-in-place", **where)
            elif ct == XL_NUMBER:
                if ctx.concrete:
                    exp = sp["num"] + (0.5 if sp["half"] else 0.0)
                    ctx.require(isinstance(got, (int, float)) and not isinstance(got, bool) and got == exp,
                                "number-value-differs", **where)
                elif got is cell.value:       # handed through: a non-integral value
                    ctx.require(sp["half"], "number-value-differs", **where)
                else:
                    ctx.require(conj([got == sp["num"], ~sp["half"]]), "number-value-differs", **where)
            elif ct == XL_DATE:
                n = ctx.conc(sp["num"], 0, ctx.params.get("num_hi", 1))
                h = bool(sp["half"])
                exp = _excel_serial_to_datetime(DATE_BASE + n, h)
                try:
                    ok = isinstance(got, str) and datetime.datetime.fromisoformat(got) == exp
                except Exception:
                    ok = False
                ctx.require(ok, "date-not-iso", expected=exp.isoformat(), **where)
            elif ct == XL_BOOLEAN:
                if ctx.concrete:
                    ctx.require(got is bool(cell.value), "boolean-value-differs", **where)
                else:
                    truth = (sp["num"] != 0) | sp["half"]
                    ctx.require(conj([got is True, truth]) if got is True else
                                conj([got is False, ~truth]), "boolean-value-differs", **where)
            elif ct == XL_ERROR:
                # an error cell has a value (the error code / its text); it is not an empty cell
                ctx.require(got is not None, "error-cell-value-lost", **where)
            else:   # XL_BLANK: formatted but empty
                ctx.require((got is cell.value) if not ctx.concrete else (got is None or got == ""),
                            "cell-not-in-place", **where)


def _k3_parts(tier):
    if tier == "quick":
        return [{"C": 2, "N": 2, "L": 1}, {"C": 2, "N": 1, "L": 1, "typed_header": True}]
    return [{"C": 3, "N": 2, "L": 2, "num_hi": 2}, {"C": 2, "N": 2, "L": 1, "all_probes": True},
            {"C": 2, "N": 1, "L": 1, "typed_header": True}]


# ---------------------------------------------------------------------------------------
# K2  xlsx: _read_sheet_data / _read_content_from_workbook on a fake worksheet
# ---------------------------------------------------------------------------------------

def _xlsx():
    import sharepoint2text.parsing.extractors.ms_modern.xlsx_extractor as m
    return m


class _WS:
    """openpyxl read-only worksheet as the extractor uses it: iter_rows(values_only=True)"""

    def __init__(self, rows):
        self._rows = [tuple(r) for r in rows]

    def iter_rows(self, values_only=False, **k):
        return iter(self._rows)


class _WB:
    def __init__(self, sheets):
        self._s = sheets

    def __getitem__(self, name):
        return self._s[name]


_TD = datetime.timedelta(hours=30, minutes=1)
XLSX_TYPED = [7, 0, -3, 2.5, 1e20, True, False, "#DIV/0!",
              datetime.datetime(2024, 1, 2, 3, 4, 5), datetime.date(2024, 1, 2), datetime.time(3, 4, 5), _TD]


def _iso_equal(got, v):
    try:
        if isinstance(v, datetime.datetime):
            return datetime.datetime.fromisoformat(got) == v
        if isinstance(v, datetime.date):
            return datetime.date.fromisoformat(got) == v
        if isinstance(v, datetime.time):
            return datetime.time.fromisoformat(got) == v
    except Exception:
        return False
    return False


def _typed_value_kept(got, v):
    """numbers and booleans keep value and type, dates/times come back as ISO strings"""
    if isinstance(v, (datetime.datetime, datetime.date, datetime.time)):
        return isinstance(got, str) and _iso_equal(got, v)
    if isinstance(v, datetime.timedelta):
        # a duration: the value itself or a text that names it
        return got == v or (isinstance(got, str) and ("6:01:00" in got or "30:01:00" in got or "PT30H1M" in got.upper()))
    return type(got) is type(v) and got == v


def _typed_header_text(got, v):
    """a header cell holds the text of the source cell"""
    if got == v and type(got) is type(v):
        return True
    if not isinstance(got, str):
        return False
    if got == str(v) or _iso_equal(got.replace(" ", "T", 1) if isinstance(v, datetime.datetime) else got, v):
        return True
    try:
        return isinstance(v, (int, float)) and not isinstance(v, bool) and float(got) == float(v)
    except Exception:
        return False


def _sym_text(ctx, name, n):
    """text of n symbolic characters: TAB..CR, space and the printable ASCII range (the control
    codes 14..31 are left out: str.strip() counts 28..31 as white space, the engine's model does not)"""
    t = ctx.fresh_chars(name, n, 9, 122)
    for ch in (t if ctx.concrete else t.c):
        if ctx.concrete:
            ctx.assume(ord(ch) <= 13 or ord(ch) >= 32)
        else:
            ctx.solver.add(z3.Or(ch.z <= 13, ch.z >= 32))    # satisfiable on its own: no check needed
    return t


def _is_blank_text(s):
    """text consisting of white space only (forks on symbolic characters)"""
    return len(s.strip()) == 0


def k2_xlsx_sheet(ctx):
    x = _xlsx()
    mode = ctx.params["mode"]
    r, c = ctx.params["r"], ctx.params["c"]
    # ---- source grid -------------------------------------------------------------------
    grid, kinds = [], []
    if mode == "typed":
        # header row of plain texts (or typed, when the probe sits there), one typed probe cell
        pos = ctx.choice("probe_cell", r * c)
        tv = XLSX_TYPED[ctx.choice("typed_value", len(XLSX_TYPED))]
        for i in range(r):
            row, krow = [], []
            for j in range(c):
                if i * c + j == pos:
                    row.append(tv)
                    krow.append("typed")
                else:
                    row.append(f"t{i}{j}")
                    krow.append("text")
            grid.append(row)
            kinds.append(krow)
    else:
        fixed_first = ctx.params.get("first_row")
        for i in range(r):
            row, krow = [], []
            for j in range(c):
                if i == 0 and fixed_first is not None:
                    k = fixed_first[j]
                else:
                    k = ctx.choice(f"kind{i}_{j}", 2)
                if k == 0:
                    row.append(None)
                    krow.append("none")
                else:
                    row.append(_sym_text(ctx, f"t{i}_{j}", ctx.params.get("tlen", 1)))
                    krow.append("text")
            grid.append(row)
            kinds.append(krow)
    wb = _WB({"S1": _WS(grid)})
    ctx.hash_universe = set()
    with ctx.shadow(x, str=_StrShadow, _format_sheet_as_text=lambda rows: ""):
        try:
            sheets = x._read_content_from_workbook(wb, ["S1"])
        except Exception as e:
            ctx.fail("read-raised", exc=type(e).__name__, msg=str(e)[:100])
    ctx.require(len(sheets) == 1, "sheet-count-differs")
    tbl = sheets[0].get_table()
    dim = sheets[0].get_dim()
    # ---- reference: the used range of the sheet -----------------------------------------
    empty = [[kinds[i][j] == "none" or (kinds[i][j] == "text" and _is_blank_text(grid[i][j]))
              for j in range(c)] for i in range(r)]
    R = max([i + 1 for i in range(r) if not all(empty[i])], default=0)
    C = max([j + 1 for i in range(R) for j in range(c) if not empty[i][j]], default=0)
    first_row_cells = sum(1 for j in range(C) if not empty[0][j]) if R else 0
    shape = dict(rows=R, cols=C, got_rows=len(tbl), got_cols=[len(t) for t in tbl],
                 first_row_cells=first_row_cells)
    if ctx.perturb == "no_trim":
        R, C = r, c
    skip = 0
    if first_row_cells == 1 and C > 1 and len(tbl) == R - 1 and _known(ctx, "C13-xlsx-single-cell-first-row-dropped"):
        skip = 1          # recorded: the first row is dropped; the remaining rows are still checked
    ctx.require(len(tbl) == R - skip, "row-count-differs", **shape)
    ctx.require(all(len(t) == C for t in tbl), "column-count-differs", **shape)
    ctx.require(dim.rows == R - skip and dim.columns == (C if R - skip else 0), "get_dim-differs",
                got=[dim.rows, dim.columns], **shape)
    for i in range(skip, R):
        for j in range(C):
            got, src = tbl[i - skip][j], grid[i][j]
            where = dict(row=i, col=j, got=repr(got)[:40])
            if i == 0:
                if empty[0][j]:
                    # an empty header cell: nothing, or the documented placeholder
                    ok = got is None or (isinstance(got, (str, S.CharStr)) and
                                         (bool(got == f"Unnamed: {j}") or len(got.strip()) == 0))
                    ctx.require(ok, "empty-header-cell-invented-text", **where)
                elif kinds[0][j] == "text":
                    ctx.require(got == src, "header-cell-not-in-place", **where)
                else:
                    ctx.require(_typed_header_text(got, src), "typed-header-text-differs", source=repr(src), **where)
            elif kinds[i][j] == "none":
                ctx.require(got is None, "cell-not-in-place", **where)
            elif kinds[i][j] == "text":
                ctx.require(got == src, "cell-not-in-place", **where)
            else:
                ctx.require(_typed_value_kept(got, src), "typed-value-not-kept", source=repr(src), **where)


def _k2_parts(tier):
    parts = [{"mode": "typed", "r": 2, "c": 2}]
    shapes = [(1, 1), (1, 3), (2, 2), (3, 2), (2, 3)] if tier == "quick" else [(1, 1), (1, 3), (2, 2), (3, 2), (2, 3), (4, 2)]
    parts += [{"mode": "sym", "r": r, "c": c} for r, c in shapes]
    if tier == "thorough":
        import itertools
        parts += [{"mode": "sym", "r": 3, "c": 3, "first_row": list(fr)} for fr in itertools.product((0, 1), repeat=3)]
        parts += [{"mode": "sym", "r": 2, "c": 2, "tlen": 2}]
        parts += [{"mode": "typed", "r": 3, "c": 2}]
    return parts


# ---------------------------------------------------------------------------------------
# K4  ods._extract_sheet: rows / cells / covered cells / row containers, symbolic repeats
# ---------------------------------------------------------------------------------------

def _ods():
    import sharepoint2text.parsing.extractors.open_office.ods_extractor as m
    return m


ODF = {
    "office": "urn:oasis:names:tc:opendocument:xmlns:office:1.0",
    "text": "urn:oasis:names:tc:opendocument:xmlns:text:1.0",
    "table": "urn:oasis:names:tc:opendocument:xmlns:table:1.0",
    "draw": "urn:oasis:names:tc:opendocument:xmlns:drawing:1.0",
    "dc": "http://purl.org/dc/elements/1.1/",
    "presentation": "urn:oasis:names:tc:opendocument:xmlns:presentation:1.0",
    "svg": "urn:oasis:names:tc:opendocument:xmlns:svg-compatible:1.0",
}


def _q(prefix, local, ns=ODF):
    return "{%s}%s" % (ns[prefix], local)


def _ET():
    from xml.etree import ElementTree as ET
    return ET


# (value-type, attribute, attribute value, paragraphs, expected value); ODF 1.2 part 1, 19.385-19.389
ODS_TYPED = [
    ("float", "value", "5", ["5"], 5),
    ("float", "value", "0", ["0"], 0),
    ("float", "value", "-3", ["-3"], -3),
    ("float", "value", "2.5", ["2,5"], 2.5),
    ("float", "value", "1e20", ["1E+20"], 1e20),
    ("percentage", "value", "0.5", ["50%"], 0.5),
    ("currency", "value", "12.5", ["12,50 EUR"], 12.5),
    ("date", "date-value", "2024-01-02", ["02.01.24"], "2024-01-02"),
    ("date", "date-value", "2024-01-02T03:04:05", ["02.01.24 03:04"], "2024-01-02T03:04:05"),
    ("time", "time-value", "PT03H04M05S", ["03:04:05"], "PT03H04M05S"),
    ("boolean", "boolean-value", "true", ["TRUE"], True),
    ("boolean", "boolean-value", "false", ["FALSE"], False),
    ("string", None, None, ["one", "two"], "one\ntwo"),
    ("string", None, None, ["#DIV/0!"], "#DIV/0!"),
    ("string+annotation", None, None, ["kept"], "kept"),
]
ODS_REPEAT_DOMAIN = (1, 2, 3, 101)      # small repeats and the first value above the extractor's cap


def _ods_value_equal(got, exp):
    if isinstance(exp, bool) or exp is None or isinstance(exp, str):
        return type(got) is type(exp) and got == exp
    return isinstance(got, (int, float)) and not isinstance(got, bool) and got == exp


def _ods_cell(ET, kind, text, rep, concrete, typed=None):
    """one <table:table-cell> / <table:covered-table-cell>; returns (element, value)"""
    el = ET.Element(_q("table", "covered-table-cell" if kind == "covered" else "table-cell"))
    value = None
    if kind == "text":
        el.set(_q("office", "value-type"), "string")
        ET.SubElement(el, _q("text", "p")).text = text
        value = text
    elif kind == "typed":
        vt, attr, av, paras, value = typed
        el.set(_q("office", "value-type"), vt.split("+")[0])
        if attr:
            el.set(_q("office", attr), av)
        if vt.endswith("+annotation"):
            an = ET.SubElement(el, _q("office", "annotation"))
            ET.SubElement(an, _q("dc", "creator")).text = "someone"
            ET.SubElement(an, _q("text", "p")).text = "a comment"
        for ptxt in paras:
            ET.SubElement(el, _q("text", "p")).text = ptxt
    if rep is not None:
        el.set(_q("table", "number-columns-repeated"), str(rep) if concrete else rep)
    return el, value


def _ods_reference(rows, collapse_big=False, skip_covered=False, skip_wrapped=False):
    """ODF 1.2 part 1, 9.1.4/9.1.12: every row element (inside row containers too) stands for
    number-rows-repeated rows; every cell and covered cell for number-columns-repeated columns.
    The table is the used range: trailing empty rows / columns do not count."""
    grid = []
    for row in rows:
        if skip_wrapped and row["wrapper"]:
            continue
        vals = []
        for kind, value, rep in row["cells"]:
            if skip_covered and kind == "covered":
                continue
            n = 1 if (collapse_big and value is None and rep > 100) else rep
            vals.extend([value] * n)
        n = 1 if (collapse_big and row["rep"] > 100 and all(v is None for v in vals)) else row["rep"]
        grid.extend([list(vals) for _ in range(n)])
    while grid and all(v is None for v in grid[-1]):
        grid.pop()
    width = max([j + 1 for r_ in grid for j, v in enumerate(r_) if v is not None], default=0)
    return [(r_ + [None] * width)[:width] for r_ in grid]


def _ods_file(ET, table):
    """a minimal .ods package around the table"""
    import zipfile
    for pfx, uri in ODF.items():
        ET.register_namespace(pfx, uri)
    root = ET.Element(_q("office", "document-content"))
    body = ET.SubElement(root, _q("office", "body"))
    ET.SubElement(body, _q("office", "spreadsheet")).append(table)
    buf = io.BytesIO()
    with zipfile.ZipFile(buf, "w") as z:
        z.writestr("mimetype", "application/vnd.oasis.opendocument.spreadsheet")
        z.writestr("content.xml", ET.tostring(root, encoding="utf-8", xml_declaration=True))
        z.writestr("META-INF/manifest.xml",
                   '<?xml version="1.0"?><manifest:manifest xmlns:manifest="urn:oasis:names:tc:opendocument:xmlns:'
                   'manifest:1.0"><manifest:file-entry manifest:full-path="/" manifest:media-type="application/'
                   'vnd.oasis.opendocument.spreadsheet"/></manifest:manifest>')
    buf.seek(0)
    return buf


ODS_FINDINGS = {
    "covered-cells-skipped": "C13-ods-covered-cells-skipped",
    "wrapped-rows-skipped": "C13-ods-rows-in-row-containers-skipped",
    "big-empty-repeat-collapsed": "C13-ods-large-empty-repeat-collapsed",
}


def k4_ods_sheet(ctx):
    ods = _ods()
    ET = _ET()
    mode = ctx.params["mode"]
    table = ET.Element(_q("table", "table"), {_q("table", "name"): "S1"})
    ET.SubElement(table, _q("table", "table-column"))
    rows = []        # source model: {"cells": [(kind, value, rep)], "rep": n, "wrapper": name or None}
    sym_reps = []    # (model slot, symbolic repeat)

    def repeat(name):
        v = ctx.fresh_int(name, 1, max(ODS_REPEAT_DOMAIN))
        if ctx.concrete:
            ctx.assume(v in ODS_REPEAT_DOMAIN)
        else:
            ctx.solver.add(z3.Or(*[v.z == d for d in ODS_REPEAT_DOMAIN]))
        return v

    if mode == "typed":
        pos = ctx.choice("probe_cell", 2)
        typed = ODS_TYPED[ctx.choice("typed_value", len(ODS_TYPED))]
        tr = ET.SubElement(table, _q("table", "table-row"))
        cells = []
        for j in range(2):
            if j == pos:
                el, v = _ods_cell(ET, "typed", None, None, ctx.concrete, typed)
            else:
                el, v = _ods_cell(ET, "text", f"t{j}", None, ctx.concrete)
            tr.append(el)
            cells.append(("typed" if j == pos else "text", v, 1))
        rows.append({"cells": cells, "rep": 1, "wrapper": None})
    else:
        widths = ctx.params["widths"]
        rep_cell, rep_row = ctx.params.get("rep_cell"), ctx.params.get("rep_row")
        wrapped_row = ctx.params.get("wrapped_row")
        kinds = ["none", "text", "covered"]
        idx = 0
        for i, w in enumerate(widths):
            parent = table
            wrapper = None
            if wrapped_row == i:
                wrapper = ["table-header-rows", "table-row-group", "table-rows"][ctx.choice("row_container", 3)]
                parent = ET.SubElement(table, _q("table", wrapper))
            tr = ET.SubElement(parent, _q("table", "table-row"))
            row = {"cells": [], "rep": 1, "wrapper": wrapper}
            if rep_row == i:
                row["rep"] = repeat(f"row{i}_repeat")
                tr.set(_q("table", "number-rows-repeated"), str(row["rep"]) if ctx.concrete else row["rep"])
            for j in range(w):
                kind = kinds[ctx.choice(f"kind{i}_{j}", len(kinds))]
                rep = repeat(f"cell{i}_{j}_repeat") if rep_cell == idx else None
                el, v = _ods_cell(ET, kind, f"r{i}c{j}", rep, ctx.concrete)
                tr.append(el)
                row["cells"].append((kind, v, 1 if rep is None else rep))
                idx += 1
            rows.append(row)
    # ---- run ------------------------------------------------------------------------------
    if ctx.concrete:
        # replay through the public entry point on a real .ods package
        try:
            doc = next(ods.read_ods(_ods_file(ET, table), "x.ods"))
            tables = list(doc.iterate_tables())
        except Exception as e:
            ctx.fail("read-raised", exc=type(e).__name__, msg=str(e)[:100])
        ctx.require(len(tables) == 1, "sheet-count-differs", got=len(tables))
        sheet = tables[0]
    else:
        with ctx.shadow(ods, int=S.IntShadow):
            try:
                sheet, _ = ods._extract_sheet(None, table, 1, 0)
            except Exception as e:
                ctx.fail("read-raised", exc=type(e).__name__, msg=str(e)[:100])
    tbl = sheet.get_table()
    dim = sheet.get_dim()
    # ---- reference ------------------------------------------------------------------------
    for row in rows:
        row["rep"] = ctx.conc(row["rep"], 1, max(ODS_REPEAT_DOMAIN))
        row["cells"] = [(k, v, ctx.conc(r, 1, max(ODS_REPEAT_DOMAIN))) for k, v, r in row["cells"]]
    ref = _ods_reference(rows)
    if ctx.perturb == "no_repeat_expansion":
        ref = _ods_reference([dict(r, rep=1, cells=[(k, v, 1) for k, v, _ in r["cells"]]) for r in rows])

    def same(a, b):
        return len(a) == len(b) and all(len(x) == len(y) and all(_ods_value_equal(p_, q_) for p_, q_ in zip(x, y))
                                        for x, y in zip(a, b))
    R, C = len(ref), (len(ref[0]) if ref else 0)
    shape = dict(rows=R, cols=C, got_rows=len(tbl), got_cols=sorted({len(t) for t in tbl}))
    if not same(tbl, ref):
        # which reading of the source explains what came back?
        explained = None
        import itertools
        for flags in itertools.product((False, True), repeat=3):
            if any(flags) and same(tbl, _ods_reference(rows, *flags)):
                explained = [n for n, f in zip(("big-empty-repeat-collapsed", "covered-cells-skipped",
                                                "wrapped-rows-skipped"), flags) if f]
                break
        if explained and all(_known(ctx, ODS_FINDINGS[e]) for e in explained):
            return
        label = "row-count-differs" if len(tbl) != R else ("column-count-differs" if any(len(t) != C for t in tbl)
                                                           else "cell-not-in-place")
        if mode == "typed":
            label = "typed-value-not-kept"
            shape["source"] = repr(rows[0]["cells"])[:120]
        ctx.fail(label, explained=explained, got=repr(tbl)[:160], expected=repr(ref)[:160], **shape)
    ctx.require(dim.rows == R and dim.columns == C, "get_dim-differs", got=[dim.rows, dim.columns], **shape)


def _k4_parts(tier):
    parts = [{"mode": "typed"}]
    shapes = [(1,), (2,), (3,), (1, 2), (2, 2)] if tier == "quick" else [(1,), (3,), (2, 2), (3, 2), (2, 3), (1, 2, 2)]
    for widths in shapes:
        n = sum(widths)
        for rep_cell in range(n):
            parts.append({"mode": "grid", "widths": list(widths), "rep_cell": rep_cell})
        for rep_row in range(len(widths)):
            parts.append({"mode": "grid", "widths": list(widths), "rep_row": rep_row})
            parts.append({"mode": "grid", "widths": list(widths), "wrapped_row": rep_row})
        if tier == "thorough" and n <= 4:
            parts.append({"mode": "grid", "widths": list(widths), "rep_cell": 0, "rep_row": 0})
    return parts


KERNELS = [
    Kernel("K1", "get_dim == (rows, widest row) and get_table keeps every row in place: list-backed classes",
           k1_grid, targets=lambda: [getattr(_dt(), c).get_dim for c in LIST_CLASSES] +
           [getattr(_dt(), c).get_table for c in LIST_CLASSES],
           parts=_k1_parts, perturb=["columns_is_first_row"],
           symbolic=["length of every row (0..C)"], choices=["number of rows (0..R)"],
           stubs=["len -> symbolic length of a row object (data_types module, symbolic runs only)"]),
    Kernel("K1x", "XlsSheet.get_table/get_dim on dictionary rows keyed by symbolic header texts",
           k1x_xls_sheet, targets=lambda: [_dt().XlsSheet.get_table, _dt().XlsSheet.get_dim],
           bounds={"quick": {"C": 3, "N": 2, "L": 1}, "thorough": {"C": 4, "N": 2, "L": 2}},
           perturb=["expect_extra_row"],
           symbolic=["every character of every header text (A..C), cell values"],
           choices=["columns 1..C, data rows 1..N, header length 0..L"],
           assumptions=["rows are built as the type XlsSheet.data prescribes: one dict per data row keyed by header text"]),
    Kernel("K2", "xlsx sheet read: used range, header row, typed values (fake worksheet)",
           k2_xlsx_sheet, targets=lambda: [_xlsx()._read_sheet_data, _xlsx()._read_content_from_workbook,
                                           _xlsx()._find_last_data_row, _xlsx()._find_last_data_column,
                                           _xlsx()._is_cell_non_empty, _xlsx()._get_cell_value,
                                           _xlsx()._is_table_name_row, _xlsx()._is_meaningful_value,
                                           _dt().XlsxSheet.get_table, _dt().XlsxSheet.get_dim],
           parts=_k2_parts, perturb=[("no_trim", {"mode": "sym", "r": 2, "c": 2})],
           symbolic=["every character of every text cell (codes 9..122: white space decides emptiness)"],
           choices=["cell present / absent", "typed probe: position and value (int, 0, negative, float, bool, "
                    "error text, datetime, date, time, timedelta)"],
           stubs=["worksheet -> object with iter_rows(values_only=True) over the source grid",
                  "_format_sheet_as_text -> '' (symbolic runs only)"],
           assumptions=["a cell without value or with white space only counts as empty for the used range; "
                        "an empty header cell may come back as None, '' or 'Unnamed: <col>'"],
           outside=["openpyxl's own cell typing and its rectangular row padding"]),
    Kernel("K3", "xls._read_content on a fake xlrd book: shape, headers, typed cells",
           k3_xls_read, targets=lambda: [_xls()._read_content, _xls()._get_cell_value, _xls()._get_cell_values,
                                         _xls()._format_date_tuple, _dt().XlsSheet.get_table],
           parts=_k3_parts, perturb=["expect_transposed"],
           symbolic=["ctype of header cells {empty,text} and of the probe cell (0..6)", "header characters",
                     "probe value: integral part, +0.5 flag, text"],
           choices=["columns, data rows, header lengths, probe position, typed header kind"],
           stubs=["xlrd.open_workbook -> fake book (cells with ctype/value)",
                  "xlrd.xldate_as_tuple -> the real function on the concretised serial (symbolic runs)",
                  "_format_sheet_as_text -> '' (sheet text is not part of C13; symbolic runs only)"],
           outside=["xlrd's own parsing and cell typing; NaN/inf numbers; 1904 date system and serials < 61"]),
    Kernel("K4", "ods sheet: reference expansion of rows/cells/covered cells/row containers with symbolic repeats",
           k4_ods_sheet, targets=lambda: [_ods()._extract_sheet, _ods()._extract_cell_value,
                                          _dt().OdsSheet.get_table, _dt().OdsSheet.get_dim],
           parts=_k4_parts, perturb=[("no_repeat_expansion", {"mode": "grid", "widths": [2], "rep_cell": 0})],
           symbolic=["table:number-columns-repeated of one cell, table:number-rows-repeated of one row (domain 1,2,3,101)"],
           choices=["cell kind empty / text / covered", "row inside table-header-rows / table-row-group / table-rows",
                    "typed probe: float, 0, negative, percentage, currency, date, date-time, time, boolean, "
                    "multi-paragraph text, error text, text cell with a comment"],
           stubs=["int -> symbolic-aware int (ods module, symbolic runs only)"],
           assumptions=["replay runs the same table through the public read_ods on a generated .ods package"],
           outside=["repeat counts other than 1,2,3,101; spans (number-columns-spanned) beyond their covered cells; "
                    "office:string-value; NaN/inf values"]),
]

META = {
    "level_text": "",
    "level_note": "",
    "technique": "",
}
