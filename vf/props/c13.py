"""C13 - tables come back with their shape and every cell in place.

K1   shape algebra of the list-backed TableInterface classes on ragged grids of SYMBOLIC row lengths
K1x  XlsSheet.get_table/get_dim on dictionary rows keyed by SYMBOLIC header texts (duplicates / empties
     are decided by the solver inside dict insertion)
K2   xlsx._read_sheet_data + _read_content_from_workbook on a fake worksheet (symbolic cell texts)
K3   xls._read_content on a fake xlrd book (symbolic ctype / value / header texts)
K4   ods._extract_sheet on real ET rows/cells with SYMBOLIC repeat counts
K5   table walkers of docx / pptx / odt / odp / html / epub / rtf on a generated document model

Every oracle is written from the property text: a source table with r rows and c columns comes back
as r x c, cell (i,j) holds the text or value of source cell (i,j), tables arrive in source order and
none is lost, merged or invented; get_dim() reports (r, c).
"""
import datetime
import io

import z3

from vf.core import Kernel
from vf import symrun as S


# ---------------------------------------------------------------------------------------
# small helpers: conditions that are python bools in replay and z3 terms in symbolic runs
# ---------------------------------------------------------------------------------------

def _zc(c):
    if isinstance(c, S.SymBool):
        return c.z
    if isinstance(c, bool):
        return z3.BoolVal(c)
    return c


def conj(cs):
    cs = list(cs)
    if all(isinstance(c, bool) for c in cs):
        return all(cs)
    return z3.And(*[_zc(c) for c in cs]) if cs else True


def disj(cs):
    cs = list(cs)
    if all(isinstance(c, bool) for c in cs):
        return any(cs)
    return z3.Or(*[_zc(c) for c in cs]) if cs else False


def _known(ctx, fid):
    """a recorded finding whose pinned witness still fails on this tree: paths of its class are
    not reported again (the witness line is), the rest of the oracle is still checked where possible"""
    return fid in (ctx.params.get("known_active") or ())


def _dt():
    import sharepoint2text.parsing.extractors.data_types as dt
    return dt


# ---------------------------------------------------------------------------------------
# K1  list-backed TableInterface classes: get_dim vs get_table on symbolic ragged grids
# ---------------------------------------------------------------------------------------

LIST_CLASSES = ["TableData", "XlsxSheet", "OdsSheet", "OdtTable", "RtfTable"]


class _SymRow:
    """a row of symbolic length n (the cells that exist are cells[:n])"""

    def __init__(self, cells, n):
        self.cells, self.n = cells, n


def _len_shadow(x):
    if isinstance(x, _SymRow):
        return x.n
    return S.sym_len(x)


def k1_grid(ctx):
    dt = _dt()
    cls = getattr(dt, ctx.params["cls"])
    R, C = ctx.params["R"], ctx.params["C"]
    r = ctx.choice("rows", R + 1)
    lens, rows = [], []
    for i in range(r):
        n = ctx.fresh_int(f"len{i}", 0, C)
        cells = [f"r{i}c{j}" for j in range(C)]
        lens.append(n)
        rows.append(cells[:n] if ctx.concrete else _SymRow(cells, n))
    obj = cls(data=rows)
    with ctx.shadow(dt, len=_len_shadow):
        dim = obj.get_dim()
        tbl = obj.get_table()
    # the grid itself: r rows, row i is source row i (ragged rows stay as they are)
    ctx.require(len(tbl) == r, "row-count-differs", got=len(tbl), rows=r)
    ctx.require(all(tbl[i] is rows[i] for i in range(r)), "row-not-in-place")
    ctx.require(dim.rows == r, "get_dim-rows-differ", got=dim.rows, rows=r)
    cols = dim.columns
    if r == 0:
        ctx.require(cols == 0, "get_dim-columns-differ", rows=0)
        return
    if ctx.perturb == "columns_is_first_row":
        ctx.require(cols == lens[0], "get_dim-columns-differ")
        return
    # c of a ragged grid: the widest row
    ctx.require(conj([conj([cols >= n for n in lens]), disj([cols == n for n in lens])]),
                "get_dim-columns-differ", rows=r)


def _k1_parts(tier):
    R, C = (3, 3) if tier == "quick" else (4, 5)
    return [{"cls": c, "R": R, "C": C} for c in LIST_CLASSES]


# ---------------------------------------------------------------------------------------
# K1x  XlsSheet: rows are dictionaries keyed by header text
# ---------------------------------------------------------------------------------------

def _sym_headers(ctx, c, maxlen, lo=65, hi=67):
    """c header texts of length 0..maxlen with symbolic characters"""
    out = []
    for j in range(c):
        n = ctx.choice(f"hdr{j}_len", maxlen + 1)
        out.append(ctx.fresh_chars(f"hdr{j}", n, lo, hi))
    return out


def k1x_xls_sheet(ctx):
    dt = _dt()
    C, N, L = ctx.params["C"], ctx.params["N"], ctx.params["L"]
    c = 1 + ctx.choice("cols", C)
    n = 1 + ctx.choice("data_rows", N)
    ctx.hash_universe = set()          # symbolic header texts hash by length, == decides
    hdr = _sym_headers(ctx, c, L)
    vals = [[ctx.fresh_int(f"v{i}_{j}", 0, 9) for j in range(c)] for i in range(n)]
    # the rows as the data type prescribes them: one dictionary per data row, keyed by header text
    data = []
    for i in range(n):
        d = {}
        for j in range(c):
            d[hdr[j]] = vals[i][j]
        data.append(d)
    sheet = dt.XlsSheet(name="s", data=data)
    tbl = sheet.get_table()
    dim = sheet.get_dim()
    r = n + 1                          # header row + data rows
    shape = dict(rows=r, cols=c, got_rows=len(tbl), got_cols=[len(x) for x in tbl])
    if ctx.perturb == "expect_extra_row":
        r += 1
    ctx.require(len(tbl) == r, "row-count-differs", **shape)
    if any(len(row) != c for row in tbl):
        # two header cells with the same text (both empty included) share one dictionary key
        if len(data[0]) < c and _known(ctx, "C13-xlssheet-dict-rows-collapse-equal-headers"):
            return
        ctx.fail("columns-collapsed", distinct_keys=len(data[0]), **shape)
    ctx.require(conj([tbl[0][j] == hdr[j] for j in range(c)]), "header-cell-not-in-place")
    ctx.require(conj([tbl[i + 1][j] == vals[i][j] for i in range(n) for j in range(c)]),
                "cell-not-in-place")
    ctx.require(conj([dim.rows == r, dim.columns == c]), "get_dim-differs", **shape)


# ---------------------------------------------------------------------------------------
# K3  xls._read_content on a fake xlrd book
# ---------------------------------------------------------------------------------------

def _xls():
    import sharepoint2text.parsing.extractors.ms_legacy.xls_extractor as m
    return m


class _Poly:
    """what xlrd hands over as cell.value, for a cell whose TYPE is symbolic: an integral part
    ``num``, a flag ``half`` (value = num + 0.5) and a text; the repository's own tests on ctype
    decide which reading is used"""

    def __init__(self, num, half, txt):
        self.num, self.half, self.txt = num, half, txt

    def __eq__(self, o):             # value == int(value)
        if isinstance(o, (S.SymInt, int)):
            return (self.num == o) & ~self.half
        return NotImplemented

    def __bool__(self):
        return bool((self.num != 0) | self.half)

    def __hash__(self):
        return id(self)


class _IntMeta(type):
    def __instancecheck__(cls, inst):
        return isinstance(inst, (int, S.SymInt, S.SymBV, S.SymBool))

    def __call__(cls, x=0, base=None):
        if isinstance(x, _Poly):
            return x.num                 # truncation of num (+ 0.5), num >= 0
        return S.sym_int(x, base)


class _IntShadow(metaclass=_IntMeta):
    from_bytes = staticmethod(S._from_bytes)


class _StrMeta(type):
    def __instancecheck__(cls, inst):
        return isinstance(inst, (str, S.CharStr))

    def __call__(cls, x="", *a):
        if isinstance(x, S.CharStr):
            return x
        if isinstance(x, _Poly):
            return x.txt
        return str(x, *a)


class _StrShadow(metaclass=_StrMeta):
    """the name ``str``: isinstance(x, str) holds for bounded symbolic strings, str(s) is s"""


class _Cell:
    def __init__(self, ctype, value):
        self.ctype, self.value = ctype, value


class _Sheet:
    def __init__(self, name, grid):
        self.name = name
        self.grid = grid
        self.nrows = len(grid)
        self.ncols = max((len(r) for r in grid), default=0)

    def cell(self, r, c):
        return self.grid[r][c]


class _Book:
    datemode = 0

    def __init__(self, sheets):
        self._sheets = sheets

    def sheets(self):
        return self._sheets


XL_EMPTY, XL_TEXT, XL_NUMBER, XL_DATE, XL_BOOLEAN, XL_ERROR, XL_BLANK = range(7)   # xlrd/biffh.py
DATE_BASE = 45000                      # 2023-03-15 in the 1900 date system
TYPED_HEADERS = [                      # (ctype, value, predicate on the returned header text)
    (XL_NUMBER, 5.0, lambda t: float(t) == 5.0),
    (XL_NUMBER, 2.5, lambda t: float(t) == 2.5),
    (XL_BOOLEAN, 1, lambda t: str(t).strip().lower() in ("true", "1")),
    (XL_DATE, 45000.0, lambda t: datetime.datetime.fromisoformat(t) == datetime.datetime(2023, 3, 15)),
    (XL_DATE, 45000.5, lambda t: datetime.datetime.fromisoformat(t) == datetime.datetime(2023, 3, 15, 12)),
]


def _excel_serial_to_datetime(serial_days, half):
    # 1900 date system, serial >= 61: day 1 is 1900-01-01 and the non-existent 1900-02-29 is
    # counted, hence the epoch 1899-12-30
    return datetime.datetime(1899, 12, 30) + datetime.timedelta(days=serial_days, hours=12 if half else 0)


def _xls_probe(ctx, name):
    """a data cell whose type, number and text are symbolic"""
    ct = ctx.fresh_int(f"{name}_ctype", 0, 6)
    num = ctx.fresh_int(f"{name}_num", 0, ctx.params.get("num_hi", 1))
    half = ctx.fresh_bool(f"{name}_half")
    txt = ctx.fresh_chars(f"{name}_txt", 1, 97, 122)
    if ctx.concrete:
        value = {XL_EMPTY: "", XL_TEXT: txt, XL_NUMBER: num + (0.5 if half else 0.0),
                 XL_DATE: DATE_BASE + num + (0.5 if half else 0.0), XL_BOOLEAN: 1 if (num or half) else 0,
                 XL_ERROR: 7, XL_BLANK: ""}[ct]
        if ct == XL_NUMBER:
            value = float(value)
    else:
        value = _Poly(num, half, txt)
    return _Cell(ct, value), dict(ct=ct, num=num, half=half, txt=txt)


def k3_xls_read(ctx):
    xls = _xls()
    C, N, L = ctx.params["C"], ctx.params["N"], ctx.params["L"]
    ncols = 1 + ctx.choice("cols", C)
    ndata = ctx.choice("data_rows", N + 1)
    typed_hdr = ctx.params.get("typed_header", False)
    ctx.hash_universe = set()
    # ---- source grid -------------------------------------------------------------------
    hdr_cells, hdr_spec = [], []
    for j in range(ncols):
        if typed_hdr and j == 0:
            k = ctx.choice("hdr0_type", len(TYPED_HEADERS))
            ct, v, pred = TYPED_HEADERS[k]
            hdr_cells.append(_Cell(ct, v))
            hdr_spec.append(("typed", pred))
            continue
        ct = ctx.fresh_int(f"hdr{j}_ctype", 0, 1)
        n = ctx.choice(f"hdr{j}_len", L + 1)
        txt = ctx.fresh_chars(f"hdr{j}", n, 65, 67)
        hdr_cells.append(_Cell(ct, txt if not ctx.concrete or ct == XL_TEXT else ""))
        hdr_spec.append(("text", ct, txt))
    probe_at = ctx.choice("probe_cell", ndata * ncols) if ndata * ncols > 1 else 0
    grid, spec = [hdr_cells], []
    for i in range(ndata):
        row, srow = [], []
        for j in range(ncols):
            if i * ncols + j == probe_at or ctx.params.get("all_probes"):
                cell, sp = _xls_probe(ctx, f"c{i}_{j}")
            else:
                txt = ctx.fresh_chars(f"c{i}_{j}_txt", 1, 97, 122)
                cell, sp = _Cell(XL_TEXT, txt), dict(ct=XL_TEXT, txt=txt, num=0, half=False)
            row.append(cell)
            srow.append((cell, sp))
        grid.append(row)
        spec.append(srow)
    book = _Book([_Sheet("S1", grid)])
    real_xldate = xls.xlrd.xldate_as_tuple

    def xldate(value, datemode):
        # xlrd's serial -> calendar conversion is xlrd's own arithmetic (outside): run it on the
        # concrete serial of this path
        if not isinstance(value, _Poly):
            return real_xldate(value, datemode)
        n = int(value.num)
        h = bool(value.half)
        return real_xldate(DATE_BASE + n + (0.5 if h else 0.0), datemode)

    with ctx.stub(xls.xlrd, open_workbook=lambda *a, **k: book), \
            ctx.shadow(xls.xlrd, xldate_as_tuple=xldate), \
            ctx.shadow(xls, int=_IntShadow, str=_StrShadow, _format_sheet_as_text=lambda h, r: ""):
        try:
            sheets = xls._read_content(io.BytesIO(b""))
        except Exception as e:
            ctx.fail("read-raised", exc=type(e).__name__, msg=str(e)[:100])
    ctx.require(len(sheets) == 1, "sheet-count-differs", got=len(sheets))
    sheet = sheets[0]
    tbl = sheet.get_table()
    dim = sheet.get_dim()
    # ---- oracle: the sheet is a table of (1 + ndata) rows and ncols columns ---------------
    r = 1 + ndata
    shape = dict(rows=r, cols=ncols, got_rows=len(tbl), got_cols=[len(x) for x in tbl])
    if ctx.perturb == "expect_transposed":
        r, ncols = ncols, r
    if ndata == 0 and len(tbl) == 0 and ctx.perturb is None:
        # a sheet that consists of one row only
        if _known(ctx, "C13-xls-single-row-sheet-comes-back-empty"):
            return
        ctx.fail("row-count-differs", single_row_sheet=True, **shape)
    ctx.require(len(tbl) == r, "row-count-differs", **shape)
    if any(len(row) != ncols for row in tbl):
        distinct = len(sheet.data[0]) if sheet.data else None
        if distinct is not None and distinct < ncols and ctx.perturb is None and \
                _known(ctx, "C13-xls-equal-header-texts-collapse-columns"):
            return
        ctx.fail("columns-collapsed", distinct_keys=distinct, **shape)
    ctx.require(conj([dim.rows == r, dim.columns == ncols]), "get_dim-differs", **shape)
    for j, hs in enumerate(hdr_spec):
        got = tbl[0][j]
        if hs[0] == "typed":
            try:
                ok = bool(hs[1](got))
            except Exception:
                ok = False
            ctx.require(ok, "typed-header-text-differs", col=j, got=repr(got))
            continue
        _, ct, txt = hs
        ct = ctx.conc(ct, 0, 1)
        if ct == XL_EMPTY:
            ctx.require(got is None or (len(got) == 0), "header-cell-not-in-place", col=j, got=repr(got))
        else:
            ctx.require(got == txt, "header-cell-not-in-place", col=j, got=repr(got))
    for i in range(ndata):
        for j in range(ncols):
            cell, sp = spec[i][j]
            got = tbl[i + 1][j]
            ct = ctx.conc(sp["ct"], 0, 6)
            where = dict(row=i + 1, col=j, ctype=ct, got=repr(got)[:40])
            if ct == XL_EMPTY:
                ctx.require(got is None, "cell-not-in-place", **where)
            elif ct == XL_TEXT:
                ctx.require((got is cell.value) if not ctx.concrete else (isinstance(got, str) and got == sp["txt"]),
                            "cell-not-in-place", **where)
            elif ct == XL_NUMBER:
                if ctx.concrete:
                    exp = sp["num"] + (0.5 if sp["half"] else 0.0)
                    ctx.require(isinstance(got, (int, float)) and not isinstance(got, bool) and got == exp,
                                "number-value-differs", **where)
                elif got is cell.value:       # handed through: a non-integral value
                    ctx.require(sp["half"], "number-value-differs", **where)
                else:
                    ctx.require(conj([got == sp["num"], ~sp["half"]]), "number-value-differs", **where)
            elif ct == XL_DATE:
                n = ctx.conc(sp["num"], 0, ctx.params.get("num_hi", 1))
                h = bool(sp["half"])
                exp = _excel_serial_to_datetime(DATE_BASE + n, h)
                try:
                    ok = isinstance(got, str) and datetime.datetime.fromisoformat(got) == exp
                except Exception:
                    ok = False
                ctx.require(ok, "date-not-iso", expected=exp.isoformat(), **where)
            elif ct == XL_BOOLEAN:
                if ctx.concrete:
                    ctx.require(got is bool(cell.value), "boolean-value-differs", **where)
                else:
                    truth = (sp["num"] != 0) | sp["half"]
                    ctx.require(conj([got is True, truth]) if got is True else
                                conj([got is False, ~truth]), "boolean-value-differs", **where)
            elif ct == XL_ERROR:
                # an error cell has a value (the error code / its text); it is not an empty cell
                if got is None and _known(ctx, "C13-xls-error-cell-becomes-none"):
                    continue
                ctx.require(got is not None, "error-cell-value-lost", **where)
            else:   # XL_BLANK: formatted but empty
                ctx.require((got is cell.value) if not ctx.concrete else (got is None or got == ""),
                            "cell-not-in-place", **where)


def _k3_parts(tier):
    if tier == "quick":
        return [{"C": 2, "N": 2, "L": 1}, {"C": 2, "N": 1, "L": 1, "typed_header": True}]
    return [{"C": 3, "N": 2, "L": 1, "num_hi": 2}, {"C": 2, "N": 1, "L": 2, "num_hi": 2},
            {"C": 2, "N": 1, "L": 1, "all_probes": True}, {"C": 2, "N": 1, "L": 1, "typed_header": True}]


# ---------------------------------------------------------------------------------------
# K2  xlsx: _read_sheet_data / _read_content_from_workbook on a fake worksheet
# ---------------------------------------------------------------------------------------

def _xlsx():
    import sharepoint2text.parsing.extractors.ms_modern.xlsx_extractor as m
    return m


class _WS:
    """openpyxl read-only worksheet as the extractor uses it: iter_rows(values_only=True)"""

    def __init__(self, rows):
        self._rows = [tuple(r) for r in rows]

    def iter_rows(self, values_only=False, **k):
        return iter(self._rows)


class _WB:
    def __init__(self, sheets):
        self._s = sheets

    def __getitem__(self, name):
        return self._s[name]


_TD = datetime.timedelta(hours=30, minutes=1)
XLSX_TYPED = [7, 0, -3, 2.5, 1e20, True, False, "#DIV/0!",
              datetime.datetime(2024, 1, 2, 3, 4, 5), datetime.date(2024, 1, 2), datetime.time(3, 4, 5), _TD]


def _iso_equal(got, v):
    try:
        if isinstance(v, datetime.datetime):
            return datetime.datetime.fromisoformat(got) == v
        if isinstance(v, datetime.date):
            d = datetime.datetime.fromisoformat(got)       # a date, or that date at midnight
            return d.date() == v and d.time() == datetime.time(0)
        if isinstance(v, datetime.time):
            return datetime.time.fromisoformat(got) == v
    except Exception:
        return False
    return False


def _typed_value_kept(got, v):
    """numbers and booleans keep value and type, dates/times come back as ISO strings"""
    if isinstance(v, (datetime.datetime, datetime.date, datetime.time)):
        return isinstance(got, str) and _iso_equal(got, v)
    if isinstance(v, datetime.timedelta):
        # a duration: the value itself or a text that names it
        return got == v or (isinstance(got, str) and ("6:01:00" in got or "30:01:00" in got or "PT30H1M" in got.upper()))
    return type(got) is type(v) and got == v


def _typed_header_text(got, v):
    """a header cell holds the text of the source cell"""
    if got == v and type(got) is type(v):
        return True
    if not isinstance(got, str):
        return False
    if got == str(v) or _iso_equal(got, v):
        return True
    try:
        return isinstance(v, (int, float)) and not isinstance(v, bool) and float(got) == float(v)
    except Exception:
        return False


def _sym_text(ctx, name, n):
    """text of n symbolic characters: TAB..CR, space and the printable ASCII range (the control
    codes 14..31 are left out: str.strip() counts 28..31 as white space, the engine's model does not)"""
    t = ctx.fresh_chars(name, n, 9, 122)
    for ch in (t if ctx.concrete else t.c):
        if ctx.concrete:
            ctx.assume(ord(ch) <= 13 or ord(ch) >= 32)
        else:
            ctx.solver.add(z3.Or(ch.z <= 13, ch.z >= 32))    # satisfiable on its own: no check needed
    return t


def _is_blank_text(s):
    """text consisting of white space only (forks on symbolic characters)"""
    return len(s.strip()) == 0


def k2_xlsx_sheet(ctx):
    x = _xlsx()
    mode = ctx.params["mode"]
    r, c = ctx.params["r"], ctx.params["c"]
    # ---- source grid -------------------------------------------------------------------
    grid, kinds = [], []
    if mode == "typed":
        # header row of plain texts (or typed, when the probe sits there), one typed probe cell
        pos = ctx.choice("probe_cell", r * c)
        tv = XLSX_TYPED[ctx.choice("typed_value", len(XLSX_TYPED))]
        # the typed value may also fill a whole trailing row or column (a totals row of zeros ...)
        fill = ctx.choice("typed_fill", 3)      # 0: single cell, 1: last row, 2: last column
        for i in range(r):
            row, krow = [], []
            for j in range(c):
                if i * c + j == pos or (fill == 1 and i == r - 1 and r > 1) or (fill == 2 and j == c - 1 and i > 0):
                    row.append(tv)
                    krow.append("typed")
                else:
                    row.append(f"t{i}{j}")
                    krow.append("text")
            grid.append(row)
            kinds.append(krow)
    else:
        fixed_first = ctx.params.get("first_row")
        for i in range(r):
            row, krow = [], []
            for j in range(c):
                if i == 0 and fixed_first is not None:
                    k = fixed_first[j]
                else:
                    k = ctx.choice(f"kind{i}_{j}", 2)
                if k == 0:
                    row.append(None)
                    krow.append("none")
                else:
                    row.append(_sym_text(ctx, f"t{i}_{j}", ctx.params.get("tlen", 1)))
                    krow.append("text")
            grid.append(row)
            kinds.append(krow)
    wb = _WB({"S1": _WS(grid)})
    ctx.hash_universe = set()
    writable = ctx.concrete and all(not isinstance(v, str) or all(ch in "\t\n" or " " <= ch for ch in v)
                                    for row in grid for v in row)
    if writable:
        # replay through the public entry point: a real workbook written by openpyxl
        import openpyxl
        real = openpyxl.Workbook()
        ws = real.active
        ws.title = "S1"
        for i, row in enumerate(grid):
            for j, v in enumerate(row):
                if v is not None:
                    ws.cell(row=i + 1, column=j + 1, value=v)
        buf = io.BytesIO()
        real.save(buf)
        buf.seek(0)
        try:
            sheets = list(next(x.read_xlsx(buf, "x.xlsx")).iterate_tables())
        except Exception as e:
            ctx.fail("read-raised", exc=type(e).__name__, msg=str(e)[:100])
    else:
        with ctx.shadow(x, str=_StrShadow, _format_sheet_as_text=lambda rows: ""):
            try:
                sheets = x._read_content_from_workbook(wb, ["S1"])
            except Exception as e:
                ctx.fail("read-raised", exc=type(e).__name__, msg=str(e)[:100])
    ctx.require(len(sheets) == 1, "sheet-count-differs")
    tbl = sheets[0].get_table()
    dim = sheets[0].get_dim()
    # ---- reference: the used range of the sheet -----------------------------------------
    empty = [[kinds[i][j] == "none" or (kinds[i][j] == "text" and _is_blank_text(grid[i][j]))
              for j in range(c)] for i in range(r)]
    R = max([i + 1 for i in range(r) if not all(empty[i])], default=0)
    C = max([j + 1 for i in range(R) for j in range(c) if not empty[i][j]], default=0)
    first_row_cells = sum(1 for j in range(C) if not empty[0][j]) if R else 0
    shape = dict(rows=R, cols=C, got_rows=len(tbl), got_cols=[len(t) for t in tbl],
                 first_row_cells=first_row_cells)
    if ctx.perturb == "no_trim":
        R, C = r, c
    skip = 0
    if first_row_cells == 1 and C > 1 and len(tbl) == R - 1 and _known(ctx, "C13-xlsx-single-cell-first-row-dropped"):
        skip = 1          # recorded: the first row is dropped; the remaining rows are still checked
    ctx.require(len(tbl) == R - skip, "row-count-differs", **shape)
    ctx.require(all(len(t) == C for t in tbl), "column-count-differs", **shape)
    ctx.require(dim.rows == R - skip and dim.columns == (C if R - skip else 0), "get_dim-differs",
                got=[dim.rows, dim.columns], **shape)
    for i in range(skip, R):
        for j in range(C):
            got, src = tbl[i - skip][j], grid[i][j]
            where = dict(row=i, col=j, got=repr(got)[:40])
            if i == 0:
                if empty[0][j]:
                    # an empty header cell: nothing, or the documented placeholder
                    ok = got is None or (isinstance(got, (str, S.CharStr)) and
                                         (bool(got == f"Unnamed: {j}") or len(got.strip()) == 0))
                    ctx.require(ok, "empty-header-cell-invented-text", **where)
                elif kinds[0][j] == "text":
                    ctx.require(got == src, "header-cell-not-in-place", **where)
                else:
                    ctx.require(_typed_header_text(got, src), "typed-header-text-differs", source=repr(src), **where)
            elif kinds[i][j] == "none":
                ctx.require(got is None, "cell-not-in-place", **where)
            elif kinds[i][j] == "text":
                ctx.require(got == src, "cell-not-in-place", **where)
            else:
                ctx.require(_typed_value_kept(got, src), "typed-value-not-kept", source=repr(src), **where)


def _k2_parts(tier):
    parts = [{"mode": "typed", "r": 2, "c": 2}]
    shapes = [(1, 1), (1, 3), (2, 2), (3, 2), (2, 3)] if tier == "quick" else [(1, 1), (1, 3), (2, 2), (3, 2), (2, 3), (4, 2)]
    parts += [{"mode": "sym", "r": r, "c": c} for r, c in shapes]
    if tier == "thorough":
        import itertools
        parts += [{"mode": "sym", "r": 3, "c": 3, "first_row": list(fr)} for fr in itertools.product((0, 1), repeat=3)]
        parts += [{"mode": "sym", "r": 2, "c": 2, "tlen": 2}]
        parts += [{"mode": "typed", "r": 3, "c": 2}]
    return parts


# ---------------------------------------------------------------------------------------
# K4  ods._extract_sheet: rows / cells / covered cells / row containers, symbolic repeats
# ---------------------------------------------------------------------------------------

def _ods():
    import sharepoint2text.parsing.extractors.open_office.ods_extractor as m
    return m


ODF = {
    "office": "urn:oasis:names:tc:opendocument:xmlns:office:1.0",
    "text": "urn:oasis:names:tc:opendocument:xmlns:text:1.0",
    "table": "urn:oasis:names:tc:opendocument:xmlns:table:1.0",
    "draw": "urn:oasis:names:tc:opendocument:xmlns:drawing:1.0",
    "dc": "http://purl.org/dc/elements/1.1/",
    "presentation": "urn:oasis:names:tc:opendocument:xmlns:presentation:1.0",
    "svg": "urn:oasis:names:tc:opendocument:xmlns:svg-compatible:1.0",
}


def _q(prefix, local, ns=ODF):
    return "{%s}%s" % (ns[prefix], local)


def _ET():
    from xml.etree import ElementTree as ET
    return ET


# (value-type, attribute, attribute value, paragraphs, expected value); ODF 1.2 part 1, 19.385-19.389
ODS_TYPED = [
    ("float", "value", "5", ["5"], 5),
    ("float", "value", "0", ["0"], 0),
    ("float", "value", "-3", ["-3"], -3),
    ("float", "value", "2.5", ["2,5"], 2.5),
    ("float", "value", "1e20", ["1E+20"], 1e20),
    ("percentage", "value", "0.5", ["50%"], 0.5),
    ("currency", "value", "12.5", ["12,50 EUR"], 12.5),
    ("date", "date-value", "2024-01-02", ["02.01.24"], "2024-01-02"),
    ("date", "date-value", "2024-01-02T03:04:05", ["02.01.24 03:04"], "2024-01-02T03:04:05"),
    ("time", "time-value", "PT03H04M05S", ["03:04:05"], "PT03H04M05S"),
    ("boolean", "boolean-value", "true", ["TRUE"], True),
    ("boolean", "boolean-value", "false", ["FALSE"], False),
    ("string", None, None, ["one", "two"], "one\ntwo"),
    ("string", None, None, ["#DIV/0!"], "#DIV/0!"),
    ("string+annotation", None, None, ["kept"], "kept"),
]
ODS_REPEAT_DOMAIN = (1, 2, 3, 101)      # small repeats and the first value above the extractor's cap


def _ods_value_equal(got, exp):
    if isinstance(exp, bool) or exp is None or isinstance(exp, str):
        return type(got) is type(exp) and got == exp
    return isinstance(got, (int, float)) and not isinstance(got, bool) and got == exp


def _ods_cell(ET, kind, text, rep, concrete, typed=None):
    """one <table:table-cell> / <table:covered-table-cell>; returns (element, value)"""
    el = ET.Element(_q("table", "covered-table-cell" if kind == "covered" else "table-cell"))
    value = None
    if kind == "text":
        el.set(_q("office", "value-type"), "string")
        ET.SubElement(el, _q("text", "p")).text = text
        value = text
    elif kind == "typed":
        vt, attr, av, paras, value = typed
        el.set(_q("office", "value-type"), vt.split("+")[0])
        if attr:
            el.set(_q("office", attr), av)
        if vt.endswith("+annotation"):
            an = ET.SubElement(el, _q("office", "annotation"))
            ET.SubElement(an, _q("dc", "creator")).text = "someone"
            ET.SubElement(an, _q("text", "p")).text = "a comment"
        for ptxt in paras:
            ET.SubElement(el, _q("text", "p")).text = ptxt
    if rep is not None:
        el.set(_q("table", "number-columns-repeated"), str(rep) if concrete else rep)
    return el, value


def _ods_reference(rows, collapse_big=False, skip_covered=False, skip_wrapped=False):
    """ODF 1.2 part 1, 9.1.4/9.1.12: every row element (inside row containers too) stands for
    number-rows-repeated rows; every cell and covered cell for number-columns-repeated columns.
    The table is the used range: trailing empty rows / columns do not count."""
    grid = []
    for row in rows:
        if skip_wrapped and row["wrapper"]:
            continue
        vals = []
        for kind, value, rep in row["cells"]:
            if skip_covered and kind == "covered":
                continue
            n = 1 if (collapse_big and value is None and rep > 100) else rep
            vals.extend([value] * n)
        n = 1 if (collapse_big and row["rep"] > 100 and all(v is None for v in vals)) else row["rep"]
        grid.extend([list(vals) for _ in range(n)])
    while grid and all(v is None for v in grid[-1]):
        grid.pop()
    width = max([j + 1 for r_ in grid for j, v in enumerate(r_) if v is not None], default=0)
    return [(r_ + [None] * width)[:width] for r_ in grid]


def _ods_file(ET, table):
    """a minimal .ods package around the table"""
    import zipfile
    for pfx, uri in ODF.items():
        ET.register_namespace(pfx, uri)
    root = ET.Element(_q("office", "document-content"))
    body = ET.SubElement(root, _q("office", "body"))
    ET.SubElement(body, _q("office", "spreadsheet")).append(table)
    buf = io.BytesIO()
    with zipfile.ZipFile(buf, "w") as z:
        z.writestr("mimetype", "application/vnd.oasis.opendocument.spreadsheet")
        z.writestr("content.xml", ET.tostring(root, encoding="utf-8", xml_declaration=True))
        z.writestr("META-INF/manifest.xml",
                   '<?xml version="1.0"?><manifest:manifest xmlns:manifest="urn:oasis:names:tc:opendocument:xmlns:'
                   'manifest:1.0"><manifest:file-entry manifest:full-path="/" manifest:media-type="application/'
                   'vnd.oasis.opendocument.spreadsheet"/></manifest:manifest>')
    buf.seek(0)
    return buf


ODS_FINDINGS = {
    "covered-cells-skipped": "C13-ods-covered-cells-skipped",
    "wrapped-rows-skipped": "C13-ods-rows-in-row-containers-skipped",
    "big-empty-repeat-collapsed": "C13-ods-large-empty-repeat-collapsed",
    "annotation-text-in-cell-value": "C13-ods-annotation-text-in-cell-value",
}


def k4_ods_sheet(ctx):
    ods = _ods()
    ET = _ET()
    mode = ctx.params["mode"]
    table = ET.Element(_q("table", "table"), {_q("table", "name"): "S1"})
    ET.SubElement(table, _q("table", "table-column"))
    rows = []        # source model: {"cells": [(kind, value, rep)], "rep": n, "wrapper": name or None}
    sym_reps = []    # (model slot, symbolic repeat)

    def repeat(name):
        v = ctx.fresh_int(name, 1, max(ODS_REPEAT_DOMAIN))
        if ctx.concrete:
            ctx.assume(v in ODS_REPEAT_DOMAIN)
        else:
            ctx.solver.add(z3.Or(*[v.z == d for d in ODS_REPEAT_DOMAIN]))
        return v

    if mode == "typed":
        pos = ctx.choice("probe_cell", 2)
        typed = ODS_TYPED[ctx.choice("typed_value", len(ODS_TYPED))]
        tr = ET.SubElement(table, _q("table", "table-row"))
        cells = []
        for j in range(2):
            if j == pos:
                el, v = _ods_cell(ET, "typed", None, None, ctx.concrete, typed)
            else:
                el, v = _ods_cell(ET, "text", f"t{j}", None, ctx.concrete)
            tr.append(el)
            cells.append(("typed" if j == pos else "text", v, 1))
        rows.append({"cells": cells, "rep": 1, "wrapper": None})
    else:
        widths = ctx.params["widths"]
        rep_cell, rep_row = ctx.params.get("rep_cell"), ctx.params.get("rep_row")
        wrapped_row = ctx.params.get("wrapped_row")
        kinds = ["none", "text", "covered"]
        idx = 0
        for i, w in enumerate(widths):
            parent = table
            wrapper = None
            if wrapped_row == i:
                wrapper = ["table-header-rows", "table-row-group", "table-rows"][ctx.choice("row_container", 3)]
                parent = ET.SubElement(table, _q("table", wrapper))
            tr = ET.SubElement(parent, _q("table", "table-row"))
            row = {"cells": [], "rep": 1, "wrapper": wrapper}
            if rep_row == i:
                row["rep"] = repeat(f"row{i}_repeat")
                tr.set(_q("table", "number-rows-repeated"), str(row["rep"]) if ctx.concrete else row["rep"])
            for j in range(w):
                kind = kinds[ctx.choice(f"kind{i}_{j}", len(kinds))]
                rep = repeat(f"cell{i}_{j}_repeat") if rep_cell == idx else None
                el, v = _ods_cell(ET, kind, f"r{i}c{j}", rep, ctx.concrete)
                tr.append(el)
                row["cells"].append((kind, v, 1 if rep is None else rep))
                idx += 1
            rows.append(row)
    # ---- run ------------------------------------------------------------------------------
    if ctx.concrete:
        # replay through the public entry point on a real .ods package
        try:
            doc = next(ods.read_ods(_ods_file(ET, table), "x.ods"))
            tables = list(doc.iterate_tables())
        except Exception as e:
            ctx.fail("read-raised", exc=type(e).__name__, msg=str(e)[:100])
        ctx.require(len(tables) == 1, "sheet-count-differs", got=len(tables))
        sheet = tables[0]
    else:
        with ctx.shadow(ods, int=S.IntShadow):
            try:
                sheet, _ = ods._extract_sheet(None, table, 1, 0)
            except Exception as e:
                ctx.fail("read-raised", exc=type(e).__name__, msg=str(e)[:100])
    tbl = sheet.get_table()
    dim = sheet.get_dim()
    # ---- reference ------------------------------------------------------------------------
    for row in rows:
        row["rep"] = ctx.conc(row["rep"], 1, max(ODS_REPEAT_DOMAIN))
        row["cells"] = [(k, v, ctx.conc(r, 1, max(ODS_REPEAT_DOMAIN))) for k, v, r in row["cells"]]
    ref = _ods_reference(rows)
    if ctx.perturb == "no_repeat_expansion":
        ref = _ods_reference([dict(r, rep=1, cells=[(k, v, 1) for k, v, _ in r["cells"]]) for r in rows])

    def same(a, b):
        return len(a) == len(b) and all(len(x) == len(y) and all(_ods_value_equal(p_, q_) for p_, q_ in zip(x, y))
                                        for x, y in zip(a, b))
    R, C = len(ref), (len(ref[0]) if ref else 0)
    shape = dict(rows=R, cols=C, got_rows=len(tbl), got_cols=sorted({len(t) for t in tbl}))
    if not same(tbl, ref):
        # which reading of the source explains what came back?
        explained = None
        import itertools
        for flags in itertools.product((False, True), repeat=3):
            if ctx.perturb is None and any(flags) and same(tbl, _ods_reference(rows, *flags)):
                explained = [n for n, f in zip(("big-empty-repeat-collapsed", "covered-cells-skipped",
                                                "wrapped-rows-skipped"), flags) if f]
                break
        if mode == "typed" and typed[0].endswith("+annotation") and same(tbl, [[("a comment\n" + v) if k == "typed" else v
                                                                             for k, v, _ in rows[0]["cells"]]]):
            explained = ["annotation-text-in-cell-value"]
        if explained and all(_known(ctx, ODS_FINDINGS[e]) for e in explained):
            return
        label = "row-count-differs" if len(tbl) != R else ("column-count-differs" if any(len(t) != C for t in tbl)
                                                           else "cell-not-in-place")
        if mode == "typed":
            label = "typed-value-not-kept"
            shape["source"] = repr(rows[0]["cells"])[:120]
        ctx.fail(label, explained=explained, got=repr(tbl)[:160], expected=repr(ref)[:160], **shape)
    ctx.require(dim.rows == R and dim.columns == C, "get_dim-differs", got=[dim.rows, dim.columns], **shape)


def _k4_parts(tier):
    parts = [{"mode": "typed"}]
    shapes = [(1,), (2,), (3,), (1, 2), (2, 2)] if tier == "quick" else [(1,), (3,), (2, 2), (3, 2), (2, 3), (1, 2, 2)]
    for widths in shapes:
        n = sum(widths)
        for rep_cell in range(n):
            parts.append({"mode": "grid", "widths": list(widths), "rep_cell": rep_cell})
        for rep_row in range(len(widths)):
            parts.append({"mode": "grid", "widths": list(widths), "rep_row": rep_row})
            parts.append({"mode": "grid", "widths": list(widths), "wrapped_row": rep_row})
        if tier == "thorough" and n <= 4:
            parts.append({"mode": "grid", "widths": list(widths), "rep_cell": 0, "rep_row": 0})
    return parts


# ---------------------------------------------------------------------------------------
# K5  table walkers of the word-processing / presentation / HTML / EPUB / RTF extractors
# ---------------------------------------------------------------------------------------
# A document model (tables of cells of paragraphs, optionally a table inside a cell, optionally a
# second table after a separator) is generated from choices, rendered to each format, run through
# the format's own walker (symbolic runs) or through the public read_* entry point on a generated
# file / package (replay), and compared with the model.

class Cell:
    def __init__(self, paras, nested=None, feature="plain", wrap=None):
        self.paras, self.nested, self.feature, self.wrap = paras, nested, feature, wrap


class Tbl:
    def __init__(self, rows, name):
        self.rows, self.name = rows, name

    def cells(self):
        return [c for r in self.rows for c in r]


WNS = "{http://schemas.openxmlformats.org/wordprocessingml/2006/main}"
PNS = "{http://schemas.openxmlformats.org/presentationml/2006/main}"
ANS = "{http://schemas.openxmlformats.org/drawingml/2006/main}"
RNS = "http://schemas.openxmlformats.org/officeDocument/2006/relationships"
DML_TABLE = "http://schemas.openxmlformats.org/drawingml/2006/table"

CELL_FEATURES = ["plain", "empty", "two-paras", "padded", "nested"]
K5_FORMATS = {
    # cell features, table features, separators between two tables
    "docx": dict(cell=CELL_FEATURES, table=["sdt-table", "sdt-row", "sdt-cell"], seps=["para", "none"]),
    "pptx": dict(cell=["plain", "empty", "two-paras", "padded", "line-break", "merged"], table=[], seps=["frame"]),
    "odt": dict(cell=CELL_FEATURES, table=["header-rows", "section"], seps=["para", "none"]),
    "odp": dict(cell=["plain", "empty", "two-paras", "padded"], table=["header-rows"], seps=["frame"]),
    "html": dict(cell=CELL_FEATURES + ["wrapper", "line-break"], table=["sections", "th", "omit-end-tags"],
                 seps=["para", "none"]),
    "epub": dict(cell=CELL_FEATURES + ["wrapper", "line-break"], table=["sections", "th"], seps=["para", "none"]),
    "rtf": dict(cell=CELL_FEATURES, table=["double-trowd"], seps=["empty-par", "short-par", "long-par"]),
}
# names the symbolic wrapper element inside a cell must not take: table structure, removed elements
# (C17's subject), void elements (no content), document structure
HTML_NOT_A_WRAPPER = ["table", "tr", "td", "th", "thead", "tbody", "tfoot", "caption", "colgroup", "col",
                      "title", "head", "body", "html", "script", "style", "noscript", "iframe", "object",
                      "embed", "applet", "br", "hr", "img", "input", "meta", "link", "area", "base", "param",
                      "source", "track", "wbr", "frame", "keygen"]
WRAPPER_LENGTHS = (1, 2, 5)


def _gen_doc(ctx, fmt):
    F = K5_FORMATS[fmt]
    feats = F["cell"] + F["table"]
    only = ctx.params.get("features")
    if only:
        feats = [f for f in feats if f in only]
    feature = feats[ctx.choice("feature", len(feats))]
    R, C = ctx.params.get("R", 2), ctx.params.get("C", 2)
    r = 1 + ctx.choice("rows", R)
    c = 1 + ctx.choice("cols", C)
    ragged = r > 1 and c > 1 and ctx.flag("last_row_one_cell_short")
    rows = [[Cell([f"A{i}x{j}"]) for j in range(c - 1 if (ragged and i == r - 1) else c)] for i in range(r)]
    t0 = Tbl(rows, "T0")
    tables = [t0]
    probe = None
    if feature in F["cell"] and feature != "plain":
        flat = t0.cells()
        probe = flat[ctx.choice("probe_cell", len(flat))]
        probe.feature = feature
        base = probe.paras[0]
        if feature == "empty":
            probe.paras = []
        elif feature == "two-paras":
            probe.paras = [base, base + "second"]
        elif feature == "padded":
            probe.paras = ["  " + base + " "]
        elif feature == "line-break":
            probe.paras = [(base, "BR", base + "after")]
        elif feature == "merged":
            probe.paras = []
        elif feature == "nested":
            nr = 1 + ctx.choice("nested_rows", 2)
            probe.nested = Tbl([[Cell([f"N{i}x{j}"]) for j in range(2)] for i in range(nr)], "N")
            tables.append(probe.nested)
        elif feature == "wrapper":
            lengths = ctx.params.get("wrapper_lengths") or WRAPPER_LENGTHS
            n = lengths[ctx.choice("wrapper_len", len(lengths))]
            w = ctx.fresh_chars("wrapper", n, 48, 122)
            for i in range(n):
                if ctx.concrete:
                    ch = w[i]
                    ctx.assume(("a" <= ch <= "z") or (i > 0 and "0" <= ch <= "9"))
                else:
                    ch = w.c[i].z
                    ctx.solver.add(z3.Or(ch >= 97, z3.And(ch <= 57, i > 0)) if i else ch >= 97)
            for bad in HTML_NOT_A_WRAPPER:
                if len(bad) == n:
                    if ctx.concrete:
                        ctx.assume(w != bad)
                    else:
                        ctx.solver.add(z3.Not(_zc(w == bad)))
            probe.wrap = w
            probe.paras = [(base + "p", "WRAP", base + "q", base + "r")]
    second = ctx.choice("second_table", 3)
    sep = None
    if second:
        t1 = Tbl([[Cell([f"B{i}x0"])] for i in range(second)], "T1")
        tables.append(t1)
        sep = F["seps"][ctx.choice("separator", len(F["seps"]))]
    # body items in source order
    body = [("p", "Intro"), ("t", t0)]
    if second:
        if sep in ("para", "short-par"):
            body.append(("p", "Between"))
        elif sep == "empty-par":
            body.append(("p", ""))
        elif sep == "long-par":
            body.append(("p", "A paragraph of more than twenty characters between the tables " * 3))
        body.append(("t", tables[-1]))
    body.append(("p", "Outro"))
    return dict(fmt=fmt, feature=feature, body=body, tables=tables, top=[t for k, t in body if k == "t"],
                probe=probe, sep=sep, second=second, ragged=ragged)


def _para_text(p):
    """plain text of a model paragraph (str or a tuple with BR / WRAP markers)"""
    if isinstance(p, str):
        return p
    return " ".join(x for x in p if x not in ("BR", "WRAP"))


def _squash(s):
    return "".join(str(s).split())


def _words(s):
    return " ".join(str(s).replace("\x0b", " ").split())


def _cell_expected(cell):
    """accepted texts of a cell, white space normalised: its own paragraphs, or those followed by
    the texts of the table inside it"""
    own = _words(" ".join(_para_text(p) for p in cell.paras))
    out = [own]
    if cell.nested is not None:
        inner = " ".join(_words(" ".join(_para_text(p) for p in c.paras)) for c in cell.nested.cells())
        out.append(_words(own + " " + inner))
    return out


def _k5_classes(doc):
    """recorded defect classes this document falls into"""
    fmt, feature, sep = doc["fmt"], doc["feature"], doc["sep"]
    out = []
    if fmt == "docx" and feature in ("sdt-table", "sdt-row", "sdt-cell"):
        out.append("C13-docx-content-control-table-parts-lost")
    if fmt == "odt" and feature == "nested":
        out.append("C13-odt-nested-table-rows-merged-into-outer")
    if fmt == "html" and feature == "nested":
        out.append("C13-html-nested-table-merged-into-outer")
    if fmt == "html" and feature in ("two-paras", "line-break"):
        out.append("C13-html-cell-blocks-glued")
    if fmt == "html" and feature == "omit-end-tags":
        out.append("C13-html-omitted-end-tags-merge-cells")
    if fmt == "epub" and feature == "nested":
        out.append("C13-epub-nested-table-drops-outer")
    if fmt == "rtf" and feature == "nested":
        out.append("C13-rtf-nested-table-lost")
    if fmt == "rtf" and sep in ("empty-par", "short-par"):
        out.append("C13-rtf-adjacent-tables-merged")
    return out


def _judge_tables(ctx, doc, got, order_alternatives=None):
    """got: list of tables (list of rows of cell texts) in the order iterate_tables() yields them"""
    exp = doc["tables"]
    info = dict(fmt=doc["fmt"], feature=doc["feature"], sep=doc["sep"], second=doc["second"],
                expected_tables=[[len(r) for r in t.rows] for t in exp],
                got_tables=[[len(r) for r in t] for t in got])
    classes = _k5_classes(doc)
    info["classes"] = classes
    suppressed = ctx.perturb is None and any(_known(ctx, c) for c in classes)
    if len(got) != len(exp):
        if suppressed:
            return
        ctx.fail("table-count-differs", **info)
    orders = [list(range(len(exp)))] + (order_alternatives or [])
    last = None
    for order in orders:
        last = _compare(ctx, [exp[k] for k in order], got)
        if last is None:
            ctx.require(True, "tables-as-in-source")
            return
    if suppressed:
        return
    label, extra = last
    ctx.fail(label, **dict(info, **extra))


def _compare(ctx, exp, got):
    for k, (t, g) in enumerate(zip(exp, got)):
        if len(g) != len(t.rows):
            return "row-count-differs", dict(table=t.name, got=repr(g)[:200])
        width = max(len(er) for er in t.rows)
        for i, (er, gr) in enumerate(zip(t.rows, g)):
            # a short row may come back as it is or filled up to the table's width with empty cells
            padded = len(gr) == width and all(x is None or str(x).strip() == "" for x in gr[len(er):])
            if len(gr) != len(er) and not padded:
                return "column-count-differs", dict(table=t.name, row=i, got=repr(g)[:200])
            for j, (cell, gc) in enumerate(zip(er, gr)):
                gc = "" if gc is None else gc
                if cell.feature == "wrapper":
                    ok = _squash(gc) in [_squash(x) for x in _cell_expected(cell)]
                else:
                    ok = _words(gc) in _cell_expected(cell)
                if not ok:
                    return "cell-text-differs", dict(table=t.name, row=i, col=j, got=repr(gc)[:80],
                                                     expected=_cell_expected(cell)[0][:80], cell_feature=cell.feature)
    return None


def _tables_of(content):
    out = []
    for t in content.iterate_tables():
        data = t.get_table()
        dim = t.get_dim()
        assert dim.rows == len(data) and dim.columns == max((len(r) for r in data), default=0), "get_dim"
        out.append(data)
    return out


def _zip_members(members):
    import zipfile
    b = io.BytesIO()
    with zipfile.ZipFile(b, "w", zipfile.ZIP_DEFLATED) as z:
        for name, data in members:
            z.writestr(name, data)
    b.seek(0)
    return b


def _xml_bytes(ET, root, nsmap):
    for pfx, uri in nsmap.items():
        ET.register_namespace(pfx, uri)
    return ET.tostring(root, encoding="utf-8", xml_declaration=True)


# ---- docx -------------------------------------------------------------------------------

def _docx_p(ET, text):
    p = ET.Element(WNS + "p")
    if text != "":
        r = ET.SubElement(p, WNS + "r")
        t = ET.SubElement(r, WNS + "t")
        t.text = text
        t.set("{http://www.w3.org/XML/1998/namespace}space", "preserve")
    return p


def _docx_sdt(ET, child):
    sdt = ET.Element(WNS + "sdt")
    ET.SubElement(sdt, WNS + "sdtPr")
    ET.SubElement(sdt, WNS + "sdtContent").append(child)
    return sdt


def _docx_tbl(ET, t, doc):
    feature = doc["feature"]
    tbl = ET.Element(WNS + "tbl")
    ET.SubElement(tbl, WNS + "tblPr")
    ET.SubElement(tbl, WNS + "tblGrid")
    for i, row in enumerate(t.rows):
        tr = ET.Element(WNS + "tr")
        ET.SubElement(tr, WNS + "trPr")
        for j, cell in enumerate(row):
            tc = ET.Element(WNS + "tc")
            ET.SubElement(tc, WNS + "tcPr")
            for p in cell.paras:
                tc.append(_docx_p(ET, p))
            if cell.nested is not None:
                tc.append(_docx_tbl(ET, cell.nested, doc))
            if not cell.paras or cell.nested is not None:
                tc.append(_docx_p(ET, ""))         # a cell always ends with a paragraph
            tr.append(_docx_sdt(ET, tc) if (feature == "sdt-cell" and t.name == "T0" and i == 0 and j == 0) else tc)
        tbl.append(_docx_sdt(ET, tr) if (feature == "sdt-row" and t.name == "T0" and i == len(t.rows) - 1) else tr)
    return tbl


def _run_docx(ctx, doc):
    import sharepoint2text.parsing.extractors.ms_modern.docx_extractor as m
    ET = _ET()
    root = ET.Element(WNS + "document")
    body = ET.SubElement(root, WNS + "body")
    for kind, v in doc["body"]:
        if kind == "p":
            body.append(_docx_p(ET, v))
        else:
            el = _docx_tbl(ET, v, doc)
            body.append(_docx_sdt(ET, el) if (doc["feature"] == "sdt-table" and v.name == "T0") else el)
    ET.SubElement(body, WNS + "sectPr")
    if not ctx.concrete:
        tables, _ = m._extract_tables_from_context(type("Ctx", (), {"document_body": body})())
        return tables
    pkg = _zip_members([
        ("[Content_Types].xml", '<?xml version="1.0"?><Types xmlns="http://schemas.openxmlformats.org/package/2006/'
         'content-types"><Default Extension="rels" ContentType="application/vnd.openxmlformats-package.relationships+xml"/>'
         '<Default Extension="xml" ContentType="application/xml"/><Override PartName="/word/document.xml" ContentType='
         '"application/vnd.openxmlformats-officedocument.wordprocessingml.document.main+xml"/></Types>'),
        ("_rels/.rels", '<?xml version="1.0"?><Relationships xmlns="http://schemas.openxmlformats.org/package/2006/'
         'relationships"><Relationship Id="rId1" Type="%s/officeDocument" Target="word/document.xml"/></Relationships>' % RNS),
        ("word/document.xml", _xml_bytes(ET, root, {"w": WNS[1:-1]}))])
    return _tables_of(next(m.read_docx(pkg, "x.docx")))


# ---- pptx -------------------------------------------------------------------------------

def _pptx_frame(ET, t, x, y, concrete):
    fr = ET.Element(PNS + "graphicFrame")
    nv = ET.SubElement(fr, PNS + "nvGraphicFramePr")
    ET.SubElement(nv, PNS + "cNvPr", {"id": "9", "name": t.name})
    ET.SubElement(nv, PNS + "cNvGraphicFramePr")
    ET.SubElement(nv, PNS + "nvPr")
    xfrm = ET.SubElement(fr, PNS + "xfrm")
    off = ET.SubElement(xfrm, ANS + "off")
    off.set("x", str(x) if concrete else x)
    off.set("y", str(y) if concrete else y)
    ET.SubElement(xfrm, ANS + "ext", {"cx": "100", "cy": "100"})
    gd = ET.SubElement(ET.SubElement(fr, ANS + "graphic"), ANS + "graphicData", {"uri": DML_TABLE})
    tbl = ET.SubElement(gd, ANS + "tbl")
    ET.SubElement(tbl, ANS + "tblPr")
    ET.SubElement(tbl, ANS + "tblGrid")
    for row in t.rows:
        tr = ET.SubElement(tbl, ANS + "tr", {"h": "1"})
        for cell in row:
            tc = ET.SubElement(tr, ANS + "tc")
            if cell.feature == "merged":
                tc.set("hMerge", "1")
            tx = ET.SubElement(tc, ANS + "txBody")
            ET.SubElement(tx, ANS + "bodyPr")
            for p in (cell.paras or [""]):
                ap = ET.SubElement(tx, ANS + "p")
                for piece in ((p,) if isinstance(p, str) else p):
                    if piece == "BR":
                        ET.SubElement(ap, ANS + "br")
                    elif piece != "":
                        ET.SubElement(ET.SubElement(ap, ANS + "r"), ANS + "t").text = piece
            ET.SubElement(tc, ANS + "tcPr")
    return fr


def _run_pptx(ctx, doc):
    import sharepoint2text.parsing.extractors.ms_modern.pptx_extractor as m
    ET = _ET()
    root = ET.Element(PNS + "sld")
    tree = ET.SubElement(ET.SubElement(root, PNS + "cSld"), PNS + "spTree")
    ET.SubElement(tree, PNS + "nvGrpSpPr")
    ET.SubElement(tree, PNS + "grpSpPr")
    # vertical offsets of the frames are symbolic: the walker sorts shapes by position
    ys = []
    for k, t in enumerate(doc["top"]):
        y = ctx.fresh_int(f"frame{k}_y", 0, 2)
        ys.append(y)
        tree.append(_pptx_frame(ET, t, 0, y, ctx.concrete))
    if not ctx.concrete:
        fake = type("Ctx", (), {"get_slide_relationships": lambda s, p: {}, "get_slide_root": lambda s, p: root,
                                "get_comment_root": lambda s, n: None})()
        with ctx.shadow(m, int=S.IntShadow):
            slide = m._process_slide_from_context(fake, "ppt/slides/slide1.xml", 1)
        got = slide.tables
    else:
        pkg = _zip_members([
            ("[Content_Types].xml", '<?xml version="1.0"?><Types xmlns="http://schemas.openxmlformats.org/package/2006/'
             'content-types"><Default Extension="rels" ContentType="application/vnd.openxmlformats-package.relationships+xml"/>'
             '<Default Extension="xml" ContentType="application/xml"/></Types>'),
            ("_rels/.rels", '<?xml version="1.0"?><Relationships xmlns="http://schemas.openxmlformats.org/package/2006/'
             'relationships"><Relationship Id="rId1" Type="%s/officeDocument" Target="ppt/presentation.xml"/></Relationships>' % RNS),
            ("ppt/_rels/presentation.xml.rels", '<?xml version="1.0"?><Relationships xmlns="http://schemas.openxmlformats.org/'
             'package/2006/relationships"><Relationship Id="rId1" Type="%s/slide" Target="slides/slide1.xml"/></Relationships>' % RNS),
            ("ppt/presentation.xml", '<?xml version="1.0"?><p:presentation xmlns:p="%s" xmlns:r="%s"><p:sldIdLst>'
             '<p:sldId id="256" r:id="rId1"/></p:sldIdLst></p:presentation>' % (PNS[1:-1], RNS)),
            ("ppt/slides/slide1.xml", _xml_bytes(ET, root, {"p": PNS[1:-1], "a": ANS[1:-1]})),
            ("ppt/slides/_rels/slide1.xml.rels", '<?xml version="1.0"?><Relationships xmlns="http://schemas.openxmlformats.org/'
             'package/2006/relationships"/>')])
        got = _tables_of(next(m.read_pptx(pkg, "x.pptx")))
    # source order: the order of the frames in the slide part, or the reading order of the slide
    # (top to bottom; frames at the same height keep their order)
    alts = []
    if len(ys) == 2 and ctx.perturb != "xml_order_only":
        y0, y1 = ctx.conc(ys[0], 0, 2), ctx.conc(ys[1], 0, 2)
        if y1 < y0:
            alts.append([1, 0])
    return got, alts


# ---- odt / odp --------------------------------------------------------------------------

def _odf_p(ET, text):
    p = ET.Element(_q("text", "p"))
    p.text = text
    return p


def _odf_tbl(ET, t, doc):
    tbl = ET.Element(_q("table", "table"), {_q("table", "name"): t.name})
    ET.SubElement(tbl, _q("table", "table-column"))
    parent = tbl
    for i, row in enumerate(t.rows):
        if doc["feature"] == "header-rows" and t.name == "T0" and i == 0:
            parent = ET.SubElement(tbl, _q("table", "table-header-rows"))
        else:
            parent = tbl
        tr = ET.SubElement(parent, _q("table", "table-row"))
        for cell in row:
            tc = ET.SubElement(tr, _q("table", "table-cell"), {_q("office", "value-type"): "string"})
            for p in cell.paras:
                tc.append(_odf_p(ET, p))
            if cell.nested is not None:
                tc.append(_odf_tbl(ET, cell.nested, doc))
    return tbl


def _odf_package(ET, root, mime):
    return _zip_members([
        ("mimetype", mime),
        ("content.xml", _xml_bytes(ET, root, ODF)),
        ("META-INF/manifest.xml", '<?xml version="1.0"?><manifest:manifest xmlns:manifest="urn:oasis:names:tc:'
         'opendocument:xmlns:manifest:1.0"><manifest:file-entry manifest:full-path="/" manifest:media-type="%s"/>'
         '<manifest:file-entry manifest:full-path="content.xml" manifest:media-type="text/xml"/></manifest:manifest>' % mime)])


def _run_odt(ctx, doc):
    import sharepoint2text.parsing.extractors.open_office.odt_extractor as m
    ET = _ET()
    root = ET.Element(_q("office", "document-content"))
    text = ET.SubElement(ET.SubElement(root, _q("office", "body")), _q("office", "text"))
    for kind, v in doc["body"]:
        if kind == "p":
            text.append(_odf_p(ET, v))
        else:
            el = _odf_tbl(ET, v, doc)
            if doc["feature"] == "section" and v.name == "T0":
                sec = ET.SubElement(text, _q("text", "section"), {_q("text", "name"): "S"})
                sec.append(el)
            else:
                text.append(el)
    if not ctx.concrete:
        return [t.get_table() for t in m._extract_tables(text)]
    return _tables_of(next(m.read_odt(_odf_package(ET, root, "application/vnd.oasis.opendocument.text"), "x.odt")))


def _run_odp(ctx, doc):
    import sharepoint2text.parsing.extractors.open_office.odp_extractor as m
    ET = _ET()
    root = ET.Element(_q("office", "document-content"))
    pres = ET.SubElement(ET.SubElement(root, _q("office", "body")), _q("office", "presentation"))
    page = ET.SubElement(pres, _q("draw", "page"), {_q("draw", "name"): "page1"})
    fr = ET.SubElement(page, _q("draw", "frame"), {_q("svg", "x"): "1cm", _q("svg", "y"): "1cm"})
    ET.SubElement(fr, _q("draw", "text-box")).append(_odf_p(ET, "Intro"))
    lower_first = len(doc["top"]) == 2 and ctx.flag("first_frame_is_lower")
    for k, t in enumerate(doc["top"]):
        y = (9 - 4 * k) if lower_first else (3 + 4 * k)
        fr = ET.SubElement(page, _q("draw", "frame"), {_q("svg", "x"): "1cm", _q("svg", "y"): "%dcm" % y})
        fr.append(_odf_tbl(ET, t, doc))
    if not ctx.concrete:
        slide, _ = m._extract_slide(None, page, 1, 0)
        got = slide.tables
    else:
        got = _tables_of(next(m.read_odp(_odf_package(ET, root, "application/vnd.oasis.opendocument.presentation"), "x.odp")))
    return got, ([[1, 0]] if lower_first else [])


# ---- html / epub ------------------------------------------------------------------------

def _html_tokens(doc, xhtml):
    """the document as a token list: ("start", tag) ("end", tag) ("text", s)"""
    feature = doc["feature"]
    omit = feature == "omit-end-tags"
    toks = []

    def para(p):
        if isinstance(p, str):
            toks.append(("text", p))
            return
        it = iter(p)
        for piece in it:
            if piece == "BR":
                toks.append(("startend" if xhtml else "start", "br"))
            elif piece == "WRAP":
                w = doc["probe"].wrap
                toks.extend([("start", w), ("text", next(it)), ("end", w)])
            else:
                toks.append(("text", piece))

    def table(t):
        toks.append(("start", "table"))
        for i, row in enumerate(t.rows):
            sect = None
            if feature == "sections" and t.name == "T0":
                sect = "thead" if i == 0 else ("tbody" if i == 1 else None)
                if i == 1:
                    toks.append(("end", "thead"))
                if sect:
                    toks.append(("start", sect))
            toks.append(("start", "tr"))
            for cell in row:
                tag = "th" if (feature == "th" and t.name == "T0" and i == 0) else "td"
                toks.append(("start", tag))
                if len(cell.paras) == 1 and cell.nested is None:
                    para(cell.paras[0])
                else:
                    for p in cell.paras:
                        toks.append(("start", "p"))
                        para(p)
                        toks.append(("end", "p"))
                if cell.nested is not None:
                    table(cell.nested)
                if not (omit and t.name == "T0"):
                    toks.append(("end", tag))
            if not (omit and t.name == "T0"):
                toks.append(("end", "tr"))
        if feature == "sections" and t.name == "T0":
            toks.append(("end", "thead" if len(t.rows) == 1 else "tbody"))
        toks.append(("end", "table"))

    for kind, v in doc["body"]:
        if kind == "p":
            toks.extend([("start", "p"), ("text", v), ("end", "p")])
        else:
            table(v)
    return toks


def _html_render(toks):
    out = []
    for kind, v in toks:
        v = str(v)
        out.append({"text": v, "start": f"<{v}>", "end": f"</{v}>", "startend": f"<{v}/>"}[kind])
    return "".join(out)


def _html_feed(toks, p):
    """the callbacks html.parser makes for the token list (no script/style inside: the wrapper
    name excludes them)"""
    for kind, v in toks:
        if kind == "text":
            p.handle_data(v)
        elif kind == "start":
            p.handle_starttag(v, [])
        elif kind == "end":
            p.handle_endtag(v)
        else:
            p.handle_starttag(v, [])
            p.handle_endtag(v)


def _html_shadows(mod):
    sh = {"REMOVE_TAGS": S.SymSet(sorted(mod.REMOVE_TAGS)), "BLOCK_TAGS": S.SymSet(sorted(mod.BLOCK_TAGS)),
          "int": S.IntShadow}
    for name in ("_VOID_TAGS", "_VOID_REMOVE_TAGS"):
        if hasattr(mod, name):
            sh[name] = S.SymSet(sorted(getattr(mod, name)))
    return sh


def _run_html(ctx, doc):
    import sharepoint2text.parsing.extractors.html_extractor as m
    toks = _html_tokens(doc, xhtml=False)
    if not ctx.concrete:
        ctx.hash_universe = S.str_constants(m)
        with ctx.shadow(m, **_html_shadows(m)):
            b = m._HtmlTreeBuilder()
            for kind, v in [("start", "html"), ("start", "body")]:
                b.handle_starttag(v, [])
            _html_feed(toks, b)
            x = m._HtmlTextExtractor(b.get_tree())
            x.extract()
        return x.tables
    html = "<!DOCTYPE html><html><head><title>t</title></head><body>" + _html_render(toks) + "</body></html>"
    return _tables_of(next(m.read_html(io.BytesIO(html.encode("utf-8")), "x.html")))


def _run_epub(ctx, doc):
    import sharepoint2text.parsing.extractors.epub_extractor as m
    toks = _html_tokens(doc, xhtml=True)
    if not ctx.concrete:
        ctx.hash_universe = S.str_constants(m)
        with ctx.shadow(m, **_html_shadows(m)):
            x = m._XhtmlTextExtractor()
            for v in ("html", "body"):
                x.handle_starttag(v, [])
            _html_feed(toks, x)
        return x.tables
    chapter = ('<?xml version="1.0" encoding="UTF-8"?><html xmlns="http://www.w3.org/1999/xhtml"><head><title>c1</title>'
               '</head><body>%s</body></html>' % _html_render(toks))
    pkg = _zip_members([
        ("mimetype", "application/epub+zip"),
        ("META-INF/container.xml", '<?xml version="1.0"?><container version="1.0" xmlns="urn:oasis:names:tc:opendocument:'
         'xmlns:container"><rootfiles><rootfile full-path="OEBPS/content.opf" media-type="application/oebps-package+xml"/>'
         '</rootfiles></container>'),
        ("OEBPS/ch1.xhtml", chapter),
        ("OEBPS/content.opf", '<?xml version="1.0" encoding="UTF-8"?><package xmlns="http://www.idpf.org/2007/opf" '
         'version="3.0" unique-identifier="id"><metadata xmlns:dc="http://purl.org/dc/elements/1.1/"><dc:title>t</dc:title>'
         '<dc:identifier id="id">x</dc:identifier><dc:language>en</dc:language></metadata><manifest><item id="ch1" '
         'href="ch1.xhtml" media-type="application/xhtml+xml"/></manifest><spine><itemref idref="ch1"/></spine></package>')])
    return _tables_of(next(m.read_epub(pkg, "x.epub")))


# ---- rtf --------------------------------------------------------------------------------

def _rtf_table(t, doc, level=1):
    out = []
    for row in t.rows:
        cellx = "".join("\\cellx%d" % (1500 * (k + 1)) for k in range(len(row)))
        if level == 1:
            out.append("\\trowd\\trgaph108" + cellx + "\n")
            for cell in row:
                out.append("\\pard\\intbl " + "\\par ".join(_para_text(p) for p in cell.paras))
                if cell.nested is not None:
                    out.append("\n" + _rtf_table(cell.nested, doc, 2) + "\\pard\\intbl ")
                out.append("\\cell\n")
            if doc["feature"] == "double-trowd":
                out.append("\\trowd\\trgaph108" + cellx)
            out.append("\\row\n")
        else:
            # RTF 1.9.1 "Nested tables": cells end with \nestcell, the row definition follows in
            # {\*\nesttableprops ... \nestrow}
            for cell in row:
                out.append("\\pard\\intbl\\itap2 " + " ".join(_para_text(p) for p in cell.paras) + "\\nestcell\n")
            out.append("{\\*\\nesttableprops\\trowd\\trgaph108" + cellx + "\\nestrow}{\\nonesttables\\par}\n")
    return "".join(out)


def _rtf_render(doc):
    out = ["{\\rtf1\\ansi\\deff0{\\fonttbl{\\f0 Arial;}}\n"]
    for kind, v in doc["body"]:
        if kind == "p":
            out.append("\\pard " + v + "\\par\n")
        else:
            out.append(_rtf_table(v, doc))
    out.append("}")
    return "".join(out)


def _run_rtf(ctx, doc):
    import sharepoint2text.parsing.extractors.ms_legacy.rtf_extractor as m
    text = _rtf_render(doc)
    if not ctx.concrete:
        p = m._RtfParser(b"")
        p._extract_tables(text)
        return [t.get_table() for t in p.tables]
    return _tables_of(next(m.read_rtf(io.BytesIO(text.encode("ascii")), "x.rtf")))


K5_RUNNERS = {"docx": _run_docx, "pptx": _run_pptx, "odt": _run_odt, "odp": _run_odp, "html": _run_html,
              "epub": _run_epub, "rtf": _run_rtf}


def k5_walkers(ctx):
    fmt = ctx.params["fmt"]
    doc = _gen_doc(ctx, fmt)
    try:
        res = K5_RUNNERS[fmt](ctx, doc)
    except AssertionError as e:
        ctx.fail("get_dim-differs", fmt=fmt, msg=str(e))
    except Exception as e:
        ctx.fail("read-raised", fmt=fmt, exc=type(e).__name__, msg=str(e)[:120], feature=doc["feature"])
    got, alts = res if isinstance(res, tuple) else (res, None)
    if ctx.perturb == "expect_second_table_first" and doc["second"]:
        doc["tables"] = doc["tables"][::-1]
    _judge_tables(ctx, doc, got, alts)


def _k5_parts(tier):
    R, C = (2, 2) if tier == "quick" else (3, 3)
    parts = []
    for f, F in K5_FORMATS.items():
        plain = [x for x in F["cell"] + F["table"] if x != "wrapper"]
        parts.append({"fmt": f, "R": R, "C": C, "features": plain})
        if "wrapper" in F["cell"]:
            parts.append({"fmt": f, "R": 2, "C": 2, "features": ["wrapper"],
                          "wrapper_lengths": [1, 2, 5] if tier == "quick" else [1, 2, 3, 5, 6]})
    return parts


def _k5_targets():
    import sharepoint2text.parsing.extractors.ms_modern.docx_extractor as d
    import sharepoint2text.parsing.extractors.ms_modern.pptx_extractor as p
    import sharepoint2text.parsing.extractors.open_office.odt_extractor as ot
    import sharepoint2text.parsing.extractors.open_office.odp_extractor as op
    import sharepoint2text.parsing.extractors.html_extractor as h
    import sharepoint2text.parsing.extractors.epub_extractor as e
    import sharepoint2text.parsing.extractors.ms_legacy.rtf_extractor as r
    return [d._extract_tables_from_context, p._extract_table_from_graphic_frame, p._process_slide_from_context,
            p._get_shape_position, ot._extract_tables, op._extract_table, op._extract_slide,
            h._HtmlTreeBuilder.handle_starttag, h._HtmlTreeBuilder.handle_endtag, h._HtmlTreeBuilder.handle_data,
            h._HtmlTextExtractor._extract_table, h._HtmlTextExtractor._process_node, h._HtmlTextExtractor._find_nodes,
            e._XhtmlTextExtractor.handle_starttag, e._XhtmlTextExtractor.handle_endtag,
            e._XhtmlTextExtractor.handle_data, r._RtfParser._extract_tables, r._RtfParser._extract_table_cells,
            r._RtfParser._save_table]

KERNELS = [
    Kernel("K1", "get_dim == (rows, widest row) and get_table keeps every row in place: list-backed classes",
           k1_grid, targets=lambda: [getattr(_dt(), c).get_dim for c in LIST_CLASSES] +
           [getattr(_dt(), c).get_table for c in LIST_CLASSES],
           parts=_k1_parts, perturb=["columns_is_first_row"],
           symbolic=["length of every row (0..C)"], choices=["number of rows (0..R)"],
           stubs=["len -> symbolic length of a row object (data_types module, symbolic runs only)"]),
    Kernel("K1x", "XlsSheet.get_table/get_dim on dictionary rows keyed by symbolic header texts",
           k1x_xls_sheet, targets=lambda: [_dt().XlsSheet.get_table, _dt().XlsSheet.get_dim],
           bounds={"quick": {"C": 3, "N": 2, "L": 1}, "thorough": {"C": 4, "N": 2, "L": 2}},
           perturb=["expect_extra_row"],
           symbolic=["every character of every header text (A..C), cell values"],
           choices=["columns 1..C, data rows 1..N, header length 0..L"],
           assumptions=["rows are built as the type XlsSheet.data prescribes: one dict per data row keyed by header text"]),
    Kernel("K2", "xlsx sheet read: used range, header row, typed values (fake worksheet)",
           k2_xlsx_sheet, targets=lambda: [_xlsx()._read_sheet_data, _xlsx()._read_content_from_workbook,
                                           _xlsx()._find_last_data_row, _xlsx()._find_last_data_column,
                                           _xlsx()._is_cell_non_empty, _xlsx()._get_cell_value,
                                           _xlsx()._is_table_name_row, _xlsx()._is_meaningful_value,
                                           _dt().XlsxSheet.get_table, _dt().XlsxSheet.get_dim],
           parts=_k2_parts, perturb=[("no_trim", {"mode": "sym", "r": 2, "c": 2})],
           symbolic=["every character of every text cell (codes 9..122: white space decides emptiness)"],
           choices=["cell present / absent", "typed probe: position and value (int, 0, negative, float, bool, "
                    "error text, datetime, date, time, timedelta)"],
           stubs=["worksheet -> object with iter_rows(values_only=True) over the source grid",
                  "_format_sheet_as_text -> '' (symbolic runs only)"],
           assumptions=["a cell without value or with white space only counts as empty for the used range; "
                        "an empty header cell may come back as None, '' or 'Unnamed: <col>'"],
           outside=["openpyxl's own cell typing and its rectangular row padding"]),
    Kernel("K3", "xls._read_content on a fake xlrd book: shape, headers, typed cells",
           k3_xls_read, targets=lambda: [_xls()._read_content, _xls()._get_cell_value, _xls()._get_cell_values,
                                         _xls()._format_date_tuple, _dt().XlsSheet.get_table],
           parts=_k3_parts, perturb=["expect_transposed"],
           symbolic=["ctype of header cells {empty,text} and of the probe cell (0..6)", "header characters",
                     "probe value: integral part, +0.5 flag, text"],
           choices=["columns, data rows, header lengths, probe position, typed header kind"],
           stubs=["xlrd.open_workbook -> fake book (cells with ctype/value)",
                  "xlrd.xldate_as_tuple -> the real function on the concretised serial (symbolic runs)",
                  "_format_sheet_as_text -> '' (sheet text is not part of C13; symbolic runs only)"],
           outside=["xlrd's own parsing and cell typing; NaN/inf numbers; 1904 date system and serials < 61"]),
    Kernel("K4", "ods sheet: reference expansion of rows/cells/covered cells/row containers with symbolic repeats",
           k4_ods_sheet, targets=lambda: [_ods()._extract_sheet, _ods()._extract_cell_value,
                                          _dt().OdsSheet.get_table, _dt().OdsSheet.get_dim],
           parts=_k4_parts, perturb=[("no_repeat_expansion", {"mode": "grid", "widths": [2], "rep_cell": 0})],
           symbolic=["table:number-columns-repeated of one cell, table:number-rows-repeated of one row (domain 1,2,3,101)"],
           choices=["cell kind empty / text / covered", "row inside table-header-rows / table-row-group / table-rows",
                    "typed probe: float, 0, negative, percentage, currency, date, date-time, time, boolean, "
                    "multi-paragraph text, error text, text cell with a comment"],
           stubs=["int -> symbolic-aware int (ods module, symbolic runs only)"],
           assumptions=["replay runs the same table through the public read_ods on a generated .ods package"],
           outside=["repeat counts other than 1,2,3,101; spans (number-columns-spanned) beyond their covered cells; "
                    "office:string-value; NaN/inf values"]),
    Kernel("K5", "table walkers: docx / pptx / odt / odp / html / epub / rtf on a generated document model",
           k5_walkers, targets=lambda: _k5_targets(), parts=_k5_parts, strength="structure",
           perturb=[("expect_second_table_first", {"fmt": "docx", "features": ["plain"]}),
                    ("xml_order_only", {"fmt": "pptx", "features": ["plain"]})],
           symbolic=["html/epub: name of an element wrapped around part of a cell's text (lengths 1,2,5)",
                     "pptx: vertical offset of every table frame (the walker sorts shapes by position)"],
           choices=["rows, columns, last row one cell short", "cell feature: empty / two paragraphs / padded text / "
                    "line break / table inside the cell / merged placeholder", "table feature: content controls (docx), "
                    "header rows, sections, th, omitted optional end tags (html), row definition repeated (rtf)",
                    "second table and what separates it from the first"],
           assumptions=["cell texts are compared modulo white space; a cell that contains a table may or may not "
                        "include the inner table's text", "pptx/odp: frames may arrive in part order or in reading order",
                        "the wrapper element is not a table-structure, removed, void or document-structure element",
                        "replay runs the same document through the public read_* entry point on a generated file"],
           outside=["spans (gridSpan / covered cells) in word-processing tables", "PDF table heuristics",
                    "documents with more than two top-level tables or deeper nesting than one level"],
           timeout={"quick": 200, "thorough": 1500}),
]

META = {
    "level_text": "The real get_dim/get_table of every TableInterface class run on grids whose row lengths are symbolic; "
                  "XlsSheet and the real xls._read_content run on header cells whose characters and cell types are "
                  "symbolic, so the solver decides inside dict insertion which headers coincide; the real xlsx sheet "
                  "reader runs on symbolic cell texts (white space decides the used range); the real ods sheet reader "
                  "runs on ET rows/cells whose repeat counts are symbolic; the table walkers of docx/pptx/odt/odp/html/"
                  "epub/rtf run on every document of a generated model (rows x columns, ragged row, empty / multi-"
                  "paragraph / padded cell, table inside a cell, header rows, content controls, second table and its "
                  "separator; html/epub with a symbolic element name inside a cell, pptx with symbolic frame offsets). "
                  "On every feasible path the returned tables are compared with the source model: r x c, cell (i,j) in "
                  "place, order, nothing lost / merged / invented, get_dim. Counterexamples and sampled passing paths "
                  "are replayed through the public read_xlsx / read_ods / read_docx / read_pptx / read_odt / read_odp / "
                  "read_html / read_epub / read_rtf on generated files.",
    "level_note": "Bounds: grids up to 3x3 (quick) / 4x5 (thorough); walkers up to 2x2 (3x3) cells per table, two "
                  "top-level tables, one nesting level, one non-plain feature per document. Trusted: openpyxl / xlrd "
                  "cell typing (replaced by fake worksheet / book objects), ET parsing, html.parser's callback sequence "
                  "(checked by replay through feed()). Cell texts of the walkers are compared modulo white space. "
                  "17 defect classes are recorded in known_findings.json; paths inside a recorded class are not judged "
                  "beyond it. xls has no writer in this environment: its replay is unit-level.",
    "technique": "symbolic execution of the real functions on z3 Int / bounded-string proxies (symrun): symbolic row "
                 "lengths, header characters, cell types, repeat counts, element names and frame offsets reach the "
                 "repository's own comparisons; structure enumeration by solver-free choices; reference models written "
                 "from the property text and the ODF / OOXML / HTML / RTF specifications; replay through the public API",
}
