"""Lift a repository function to run on bounded symbolic strings (symrun.CharStr).

The function's OWN source text is taken at run time (inspect), and two constructs that CPython
implements in C for real ``str`` only are rewritten mechanically: string literals become CharStr
constants (so ``x in "abc"``, ``"".join(parts)``, ``"a" + x`` dispatch to CharStr) and f-strings
become concatenations.  Nothing else is changed; the lifted function is compiled in (a copy of) the
original module namespace, so module globals, helpers and shadows are those of the real module.
`equivalent_on()` checks lifted == original on concrete inputs (translator validation)."""
import ast
import inspect
import textwrap

from vf import symrun as S


def _cs(x):
    return S.CharStr(x)


def _csf(*parts):
    out = S.CharStr("")
    for p in parts:
        if isinstance(p, S.CharStr):
            out = out + p
        else:
            out = out + S.CharStr(str(p))
    return out


class _T(ast.NodeTransformer):
    def visit_FunctionDef(self, node):
        # drop the docstring, keep everything else
        if node.body and isinstance(node.body[0], ast.Expr) and isinstance(node.body[0].value, ast.Constant) \
                and isinstance(node.body[0].value.value, str):
            node.body = node.body[1:] or [ast.Pass()]
        node.decorator_list = []
        node.returns = None
        for a in node.args.args + node.args.kwonlyargs:
            a.annotation = None
        self.generic_visit(node)
        return node

    def visit_AnnAssign(self, node):
        self.generic_visit(node)
        if node.value is None:
            return None
        return ast.Assign([node.target], node.value)

    def visit_JoinedStr(self, node):
        parts = []
        for v in node.values:
            if isinstance(v, ast.Constant):
                parts.append(ast.Call(ast.Name("_CS", ast.Load()), [ast.Constant(v.value)], []))
            else:
                parts.append(self.visit(v.value))
        return ast.Call(ast.Name("_CSF", ast.Load()), parts, [])

    def visit_Constant(self, node):
        if isinstance(node.value, str):
            return ast.Call(ast.Name("_CS", ast.Load()), [ast.Constant(node.value)], [])
        return node


def lift(fn, **extra):
    """returns the lifted plain function (methods take ``self`` as first argument)"""
    f = getattr(fn, "__func__", fn)
    src = textwrap.dedent(inspect.getsource(f))
    tree = ast.parse(src)
    fd = tree.body[0]
    fd = _T().visit(fd)
    mod = ast.Module([fd], [])
    ast.fix_missing_locations(mod)
    ns = dict(f.__globals__)
    ns.update({"_CS": _cs, "_CSF": _csf})
    ns.update(extra)
    code = compile(mod, f"<lifted {f.__module__}.{f.__qualname__}>", "exec")
    exec(code, ns)
    out = ns[f.__name__]
    out.__lifted_from__ = f
    out.__lift_ns__ = ns
    return out


def equivalent_on(fn, lifted, samples, as_method_of=None):
    """translator validation: lifted(concrete CharStr) == original(str) on sample inputs"""
    n = 0
    for args in samples:
        a = fn(*args) if as_method_of is None else fn(as_method_of(), *args)
        largs = [S.CharStr(x) if isinstance(x, str) else x for x in args]
        b = lifted(*largs) if as_method_of is None else lifted(as_method_of(), *largs)
        if isinstance(b, S.CharStr):
            b = str(b)
        if a != b:
            raise AssertionError(f"lifted {fn} differs on {args!r}: {a!r} vs {b!r}")
        n += 1
    return n
