#!/bin/sh
# run_seeds.sh: run every kept seeded change against its property's quick check (isolated worktree);
# writes seeded/RESULTS.md
cd "$(dirname "$0")/.."
out=seeded/RESULTS.md
echo "| seed | property | detected | exit | first violation (kernel / label) |" > $out
echo "|---|---|---|---|---|" >> $out
for d in $(ls -d seeded/C*-* | sort); do
  s=$(basename $d)
  ID=${s%%-*}
  tools/try_seed.sh $s > /tmp/scratch/seedres_$s.txt 2>&1
  rc=$(grep -o "exit=[0-9]*" /tmp/scratch/seedres_$s.txt | head -1 | cut -d= -f2)
  first=$(grep "kernel=" /tmp/scratch/seedres_$s.txt | head -1 | sed 's/ inputs=.*//' | sed 's/^ *//')
  det="NO"; [ "$rc" = "1" ] && det="yes"
  echo "| $s | $ID | $det | $rc | $first |" >> $out
  echo "$s rc=$rc $first"
done
