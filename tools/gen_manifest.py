#!/usr/bin/env python3
"""Regenerate MANIFEST.json from the META blocks of vf/props/cXX.py (and validate it)."""
import importlib
import json
import os
import sys

HERE = os.path.dirname(os.path.dirname(os.path.abspath(__file__)))
sys.path.insert(0, HERE)
sys.dont_write_bytecode = True

props = [json.loads(l)["id"] for l in open(os.path.join(HERE, "properties.jsonl"))]
checks, na = [], []
NA_REASONS = {}
na_file = os.path.join(HERE, "tools", "not_applicable.json")
if os.path.exists(na_file):
    NA_REASONS = json.load(open(na_file))
for pid in props:
    path = os.path.join(HERE, "vf", "props", pid.lower() + ".py")
    if pid in NA_REASONS or not os.path.exists(path):
        na.append({"property_id": pid,
                   "reason": NA_REASONS.get(pid, "check not built yet in this round (planned: DESIGN.md section 3)")})
        continue
    try:
        mod = importlib.import_module("vf.props." + pid.lower())
        mod.KERNELS
    except Exception:
        na.append({"property_id": pid, "reason": "check still being built in this round (planned: DESIGN.md section 3)"})
        continue
    meta = getattr(mod, "META", {})
    checks.append({
        "property_id": pid,
        "quick_cmd": f"./vcheck {pid} --tier quick",
        "thorough_cmd": f"./vcheck {pid} --tier thorough",
        "evidence_file": f"evidence/{pid}.json",
        "replay_cmd_template": f"./vcheck {pid} --replay {{path}}",
        "engine": "symrun",
        "level_claimed": {
            "category": "model_checking",
            "text": meta.get("level_text", "bounded-exhaustive symbolic execution of the real functions; "
                                           "every path's property query decided by z3"),
            "design_ref": f"DESIGN.md section 3/{pid}",
        },
        "level_note": meta.get("level_note", "see evidence: assumptions, stubs, bounds"),
        "technique": meta.get("technique", "symbolic execution of the real Python functions on z3 proxies "
                                           "(symrun), per-path SMT query, concrete replay"),
    })
manifest = {
    "version": 1,
    "setup_cmd": "sh ./setup.sh",
    "hooks": {
        "guard": "S2T_VERIF",
        "enable": "no source hooks: all stubbing is done from outside (module-attribute patching, "
                  "global-name shadowing); checks export S2T_VERIF=1 for uniformity only",
        "baseline_off_cmd": "cd /repo && /venv/bin/python -m pytest -ra -q -p no:cacheprovider --timeout=900 "
                            "--continue-on-collection-errors",
        "source_commits": [],
        "add_only": True,
    },
    "engines": [
        {"name": "symrun", "path": "vf/symrun.py", "serves_properties": [c["property_id"] for c in checks],
         "kind_free_text": "E2: proxy execution of the real function objects from /repo over z3 "
                           "(SymInt/SymBV/SymStr/SymBytes), DFS over decision prefixes with solver "
                           "feasibility checks, per-path property query, concrete replay; E1 CrossHair and "
                           "E3 direct z3 queries from live tables where a kernel says so"},
    ],
    "checks": checks,
    "not_applicable": na,
    "notes": "exit 0 = held on everything explored (KNOWN-FINDING / INCONCLUSIVE lines are informational); "
             "exit 1 = reproduced counterexample not in known_findings.json; exit 3 = harness error.",
}
with open(os.path.join(HERE, "MANIFEST.json"), "w") as f:
    json.dump(manifest, f, indent=1)
try:
    import jsonschema
    jsonschema.validate(manifest, json.load(open("/root/.vp/MANIFEST.schema.json")))
    print("MANIFEST.json valid;", len(checks), "checks,", len(na), "not_applicable")
except ImportError:
    print("MANIFEST.json written (jsonschema not available to validate)")
