#!/usr/bin/env python3
import json, sys, glob, os
import jsonschema
HERE = os.path.dirname(os.path.dirname(os.path.abspath(__file__)))
sch = json.load(open("/root/.vp/EVIDENCE.schema.json"))
bad = 0
for f in sorted(glob.glob(os.path.join(HERE, "evidence", "C*.json"))):
    try:
        jsonschema.validate(json.load(open(f)), sch)
        print("ok  ", os.path.basename(f))
    except Exception as e:
        bad += 1
        print("BAD ", os.path.basename(f), str(e)[:300])
sys.exit(1 if bad else 0)
