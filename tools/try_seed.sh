#!/bin/sh
# try_seed.sh <SEED-DIR-NAME e.g. C20-a> [extra vcheck args]
# Runs the property's check against a scratch worktree of /repo HEAD with the seeded change applied
# (S2T_REPO), so /repo itself is never modified while other checks may be running.
s=$1; shift
ID=${CHECK_ID:-${s%%-*}}
wt=/tmp/wt/seedrun_$s
git -C /repo worktree remove --force $wt 2>/dev/null
git -C /repo worktree add -q --detach $wt HEAD || exit 2
git -C $wt apply /verif/seeded/$s/patch.diff || { git -C /repo worktree remove --force $wt; echo "$s: patch does not apply"; exit 2; }
mkdir -p /tmp/scratch
cd /verif && S2T_REPO=$wt VERIF_SCRATCH_EVIDENCE=1 ./vcheck $ID "$@" > /tmp/scratch/try_$s.log 2>&1; rc=$?
git -C /repo worktree remove --force $wt
echo "$s: exit=$rc  $(grep -c '^VIOLATION' /tmp/scratch/try_$s.log) violation lines; $(grep '^VIOLATION' /tmp/scratch/try_$s.log | head -2 | tr '\n' ' ')"
grep "label=" /tmp/scratch/try_$s.log | head -3
grep "HARNESS-ERROR\|INCONCLUSIVE" /tmp/scratch/try_$s.log | head -3
