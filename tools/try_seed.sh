#!/bin/sh
# try_seed.sh <SEED-DIR-NAME e.g. C20-a> [extra vcheck args]: apply to /repo, run the property's check, undo.
s=$1; shift
ID=${s%%-*}
cd /repo && git apply /verif/seeded/$s/patch.diff || exit 2
cd /verif && VERIF_SCRATCH_EVIDENCE=1 ./vcheck $ID "$@" > /tmp/scratch/try_$s.log 2>&1; rc=$?
cd /repo && git checkout -q -- .
echo "$s: exit=$rc  $(grep -c '^VIOLATION' /tmp/scratch/try_$s.log) violation lines; $(grep '^VIOLATION' /tmp/scratch/try_$s.log | head -2 | tr '\n' ' ')"
grep "label=" /tmp/scratch/try_$s.log | head -3
grep "HARNESS-ERROR\|INCONCLUSIVE" /tmp/scratch/try_$s.log | head -3
