#!/bin/sh
# confirm_seed.sh <propid-lower> <variant>   e.g. c20 a
# Confirms a seeded change in the scratch worktree /tmp/wt/<id>: demo passes before, fails after,
# test suite unchanged.  On success copies it to /verif/seeded/<ID>-<variant>/.
id=$1; v=$2; wt=/tmp/wt/$id; sd=/tmp/seed/$id/$v
ID=$(echo $id | tr a-z A-Z)
cd $wt || exit 2
git checkout -q -- . 
/venv/bin/python $sd/demo.py >/tmp/seed/$id/$v.before.log 2>&1; b=$?
git apply $sd/patch.diff || { echo "patch does not apply"; exit 2; }
/venv/bin/python $sd/demo.py >/tmp/seed/$id/$v.after.log 2>&1; a=$?
t=$(/venv/bin/python -m pytest -q -p no:cacheprovider --timeout=900 --continue-on-collection-errors 2>&1 | tail -1)
git checkout -q -- .
echo "$ID-$v demo_before=$b demo_after=$a tests: $t"
case "$t" in *"3 failed, 236 passed"*) ok=1;; *) ok=0;; esac
if [ $b -eq 0 ] && [ $a -ne 0 ] && [ $ok -eq 1 ]; then
  d=/verif/seeded/$ID-$v; mkdir -p $d; cp $sd/patch.diff $sd/demo.py $d/
  python3 - "$sd/meta.json" "$d/meta.json" "$t" <<'PY'
import json,sys
m=json.load(open(sys.argv[1]))
m["confirmed"]={"demo_exit_unchanged":0,"demo_exit_with_patch":"non-zero","pytest_with_patch":sys.argv[3],
 "how":"tools/confirm_seed.sh in a scratch worktree of /repo"}
json.dump(m,open(sys.argv[2],"w"),indent=1)
PY
  echo "kept -> $d"
else
  echo "REJECTED"
fi
