#!/bin/sh
# repo_fix.sh <commit message file>: run the pinned suite in /repo; commit all changes only if the baseline holds
cd /repo
t=$(/venv/bin/python -m pytest -q -p no:cacheprovider --timeout=900 --continue-on-collection-errors 2>&1 | tail -1)
case "$t" in
  *"3 failed, 236 passed"*) git commit -q -a -F "$1" && echo "COMMITTED $(git log --format=%h -1): $(head -1 $1)";;
  *) echo "TESTS CHANGED ($t) - reverting"; git checkout -- .;;
esac
