#!/bin/sh
# run_all.sh [quick|thorough] [ids...]: run every built check on the current tree, print one line each
tier=${1:-quick}; shift
cd "$(dirname "$0")/.."
ids="$@"
if [ -z "$ids" ]; then ids=$(ls vf/props/c*.py | sed 's#.*/c\([0-9]*\)\.py#C\1#'); fi
for id in $ids; do
  s=$(date +%s)
  ./vcheck $id --tier $tier > /tmp/scratch/run_$id.log 2>&1; rc=$?
  e=$(date +%s)
  echo "$id rc=$rc $((e-s))s $(grep -c '^VIOLATION' /tmp/scratch/run_$id.log) viol $(grep -c '^KNOWN-FINDING' /tmp/scratch/run_$id.log) known $(grep -c '^INCONCLUSIVE' /tmp/scratch/run_$id.log) inconcl $(grep -c '^HARNESS-ERROR' /tmp/scratch/run_$id.log) herr"
done
